"""Independent writer of layer group files (.lgb) WITH layers and instance objects (see spec/LayerGroup.tla).
group = {"file_id","chunk_id","group","name": bytes, "layers": [layer]}
layer = {"id","name": bytes,"flags":[4 bools],"festival":(id, phase),"temporary","housing","mask","sets":(type 0..3,[u32..]),"objects":[obj]}
obj   = {"type": 1|5|6|13|40|41, "id", "name": bytes, "transform":[9 u32 bit patterns], "data": [...]}
   type 5: data = [kind 1..4, jp offset, en offset];  type 40: data = [kind 1..3, pos, count, ratio bits, index]"""
import struct


def obj_bytes(o, rng):
    body = struct.pack("<iI", o["type"], o["id"]) + b"NAME" + struct.pack("<9I", *o["transform"])
    d = o["data"]
    if o["type"] == 5:
        body += struct.pack("<iII", *d)
    elif o["type"] == 1:       # model path, collision path, collision kind, mask, attribute, configuration, 3 flags, range
        body += struct.pack("<IIiIIiBBB", *d[:9]) + bytes([rng.randrange(256)]) + struct.pack("<I", d[9])
    elif o["type"] == 6:       # asset, door, members, count, rotation, 3 flags | bound, move path, flag | transform state, colour state
        body += struct.pack("<IiiiiBBB", *d[:8]) + bytes([rng.randrange(256)]) + struct.pack("<IiB", *d[8:11]) + bytes(rng.randrange(256) for _ in range(3)) \
            + struct.pack("<ii", *d[11:])
    elif o["type"] == 40:
        body += struct.pack("<iiiIB", *d) + bytes(rng.randrange(256) for _ in range(3)) + struct.pack("<I", rng.getrandbits(32))
    elif o["type"] == 13:      # asset, bound, shape, flag, priority, range, interpolation, reverb, filter, sound
        body += struct.pack("<IIiBB", *d[:5]) + bytes(rng.randrange(256) for _ in range(2)) + struct.pack("<IiIII", *d[5:])
    else:                      # 41: box shape, priority, enabled | kind, zone, territory, index, destination, return, direction
        body += struct.pack("<ihB", *d[:3]) + bytes(rng.randrange(256) for _ in range(5)) + struct.pack("<iHHiIII", *d[3:]) + struct.pack("<I", rng.getrandbits(32))
    pad = bytes(rng.randrange(1, 256) for _ in range(rng.randrange(0, 6)))
    name_off = len(body) + len(pad)
    body = body[:8] + struct.pack("<I", name_off) + body[12:]
    return body + pad + o["name"] + b"\0"


def layer_bytes(l, rng):
    n = len(l["objects"])
    objs = [obj_bytes(o, rng) for o in l["objects"]]
    order = list(range(n))
    rng.shuffle(order)                      # objects lie in the file in another order than in the table
    pos = 4 * n + 4 * rng.randrange(0, 3)
    offs = [0] * n
    blob = bytearray(bytes(rng.randrange(256) for _ in range(pos - 4 * n)))
    for k in order:
        offs[k] = pos
        blob += objs[k]
        while len(blob) % 4:
            blob += b"\0"
        pos = 4 * n + len(blob)
    region = struct.pack("<%di" % n, *offs) + bytes(blob)          # starts at L + 52
    stype, sets = l["sets"]
    set_off = 52 + len(region)
    region += struct.pack("<iii", stype, rng.randrange(0, 64), len(sets)) + struct.pack("<%dI" % len(sets), *sets)
    name_off = 52 + len(region)
    region += l["name"] + b"\0"
    while len(region) % 4:
        region += b"\0"
    end = 52 + len(region)
    hdr = struct.pack("<IIii", l["id"], name_off, 52, n) + bytes(int(x) for x in l["flags"]) + struct.pack("<i", set_off) \
        + struct.pack("<HHBBH", l["festival"][0], l["festival"][1], l["temporary"], l["housing"], l["mask"]) + bytes(4) \
        + struct.pack("<iiii", end, 0, end, 0)
    assert len(hdr) == 52
    return hdr + region


def build(g, rng):
    layers = [layer_bytes(l, rng) for l in g["layers"]]
    n = len(layers)
    offs, pos, body = [], 4 * n, b""
    for lb in layers:
        offs.append(pos)
        body += lb
        pos += len(lb)
    table = struct.pack("<%di" % n, *offs) + body                   # starts at 36
    name_off = 16 + len(table)                                       # relative to 20
    tail = g["name"] + b"\0"
    chunk = struct.pack("<IiiIii", g["chunk_id"], 24 + len(table) + len(tail) - 8, g["group"], name_off, 16, n) + table + tail
    size = 12 + len(chunk)
    return struct.pack("<Iii", g["file_id"], size, 1) + chunk


def random_group(rng):
    def name(lo, hi):
        return bytes(rng.choice(b"abcXYZ_0129 -") for _ in range(rng.randint(lo, hi)))
    def f32():
        return rng.choice([0, 0x3F800000, 0xBF800000, 0x80000000, 0x42C80000, rng.getrandbits(32) & 0xFF7FFFFF])
    layers = []
    for _ in range(rng.choice([0, 1, 1, 2, 3, 5])):
        objs = []
        for _ in range(rng.choice([0, 1, 2, 3, 6])):
            r = rng.random()
            if r < 0.1 or (0.7 <= r < 0.85):
                objs.append({"type": 1, "id": rng.getrandbits(32), "name": name(0, 9), "transform": [f32() for _ in range(9)],
                             "data": [rng.getrandbits(32), rng.getrandbits(32), rng.randint(0, 2), rng.getrandbits(32), rng.getrandbits(32),
                                      rng.randrange(-2**31, 2**31), rng.choice([0, 1]), rng.choice([0, 1]), rng.choice([0, 1]), f32()]})
            elif 0.85 <= r < 0.93:
                objs.append({"type": 6, "id": rng.getrandbits(32), "name": name(0, 9), "transform": [f32() for _ in range(9)],
                             "data": [rng.getrandbits(32), rng.randint(1, 3), rng.randrange(-2**31, 2**31), rng.randrange(0, 50), rng.randint(1, 2),
                                      rng.choice([0, 1]), rng.choice([0, 1]), rng.choice([0, 1]), rng.getrandbits(32), rng.randrange(-2**31, 2**31),
                                      rng.choice([0, 1]), rng.randint(0, 3), rng.randint(0, 3)]})
            elif r < 0.2:
                objs.append({"type": 13, "id": rng.getrandbits(32), "name": name(0, 9), "transform": [f32() for _ in range(9)],
                             "data": [rng.getrandbits(32), rng.getrandbits(32), rng.randint(1, 3), rng.choice([0, 1]), rng.randrange(256),
                                      f32(), rng.randrange(-2**31, 2**31), f32(), f32(), rng.getrandbits(32)]})
            elif r < 0.4:
                objs.append({"type": 41, "id": rng.getrandbits(32), "name": name(0, 9), "transform": [f32() for _ in range(9)],
                             "data": [rng.randint(1, 6), rng.randrange(-32768, 32768), rng.choice([0, 1]), 1, rng.getrandbits(16), rng.getrandbits(16),
                                      rng.randrange(-2**31, 2**31), rng.getrandbits(32), rng.getrandbits(32), f32()]})
            elif r < 0.7:
                objs.append({"type": 5, "id": rng.getrandbits(32), "name": name(0, 9), "transform": [f32() for _ in range(9)],
                             "data": [rng.randint(1, 4), rng.getrandbits(32), rng.getrandbits(32)]})
            else:
                objs.append({"type": 40, "id": rng.getrandbits(32), "name": name(0, 9), "transform": [f32() for _ in range(9)],
                             "data": [rng.randint(1, 3), rng.randrange(0, 1 << 20), rng.randrange(0, 9), f32(), rng.randrange(256)]})
        layers.append({"id": rng.getrandbits(32), "name": name(0, 12), "flags": [rng.random() < 0.5 for _ in range(4)],
                       "festival": (rng.getrandbits(16), rng.getrandbits(16)), "temporary": rng.randrange(256), "housing": rng.randrange(256),
                       "mask": rng.getrandbits(16), "sets": (rng.randrange(4), [rng.getrandbits(32) for _ in range(rng.randrange(0, 4))]),
                       "objects": objs})
    return {"file_id": 0x3142474C, "chunk_id": 0x3150474C, "group": rng.randrange(-5, 1 << 20), "name": name(0, 10), "layers": layers}
