"""Independent concretiser for configuration files and Excel lists (written from
the format description: CRLF <category> CRLF, key TAB value CRLF, final NUL)."""


def render_cfg(cats):
    out = bytearray()
    for c in cats:
        out += b"\r\n<" + bytes(c["name"]) + b">\r\n"
        for k, v in c["pairs"]:
            out += bytes(k) + b"\t" + bytes(v) + b"\r\n"
    out += b"\0"
    return bytes(out)


def render_exl(version, entries, comments=()):
    rows = ["EXLT,%d" % version]
    rows += ["%s,%d" % (bytes(n).decode("utf-8"), i) for n, i in entries]
    rows = [r.encode("utf-8") for r in rows]
    for pos, text in comments:
        rows.insert(pos, text)
    return b"\n".join(rows)
