"""Builds synthetic SqPack installations (script lines + abstract layout) for C01/C02/C05."""
import random
from gen import sqpack


def rle_to_bytes(r):
    return b"".join(bytes([x]) * n for x, n in r)


def desc_bytes(desc):
    """abstract entry description (contents run-length encoded, per-block mode in desc['modes']) -> dat entry bytes"""
    k = desc["kind"]
    modes = desc.get("_modes")

    def blk(i, r):
        return (rle_to_bytes(r), modes[i] if modes else "raw")
    if k == "std":
        return sqpack.standard_entry([blk(i, r) for i, r in enumerate(desc["blocks"])])
    if k == "tex":
        n = 0
        mips = []
        for mip in desc["mips"]:
            mips.append([blk(n + i, r) for i, r in enumerate(mip)])
            n += len(mip)
        return sqpack.texture_entry(rle_to_bytes(desc["header"]), mips, desc.get("_gaps"), desc.get("_order"))
    if k == "mdl":
        n = [0]

        def sec(blocks):
            out = [blk(n[0] + i, r) for i, r in enumerate(blocks)]
            n[0] += len(blocks)
            return out
        m = {"version": desc["version"], "decls": desc["decls"], "mats": desc["mats"], "lods": desc["lods"],
             "stream": desc["stream"], "edge": desc["edge"], "storage_order": desc.get("_storage_order")}
        m["stack"] = sec(desc["stack"])
        m["runtime"] = sec(desc["runtime"])
        m["vertex"], m["index"] = [None] * 3, [None] * 3
        for i in range(3):
            m["vertex"][i] = sec(desc["vertex"][i])
            m["index"][i] = sec(desc["index"][i])
        return sqpack.model_entry(m)
    raise ValueError(k)


def public_desc(desc):
    return {k: v for k, v in desc.items() if not k.startswith("_")}


class Installation:
    """repos: list of expansion numbers (0 = base); plat 0..4."""

    def __init__(self, repos, plat=0):
        self.repos, self.plat = sorted(set(repos) | {0}), plat
        self.index = {}      # (repo, cat, chunk, kind) -> list of entry dicts (path|key, dat, off, syn)
        self.dats = {}       # (repo, cat, chunk, dat) -> list of (offset bytes, entry bytes)
        self.next = {}       # (repo, cat, chunk, dat) -> next free 128-aligned offset
        self.contents = []

    def place(self, repo, cat, chunk, dat, desc, at=None):
        key = (repo, cat, chunk, dat)
        b = desc_bytes(desc)
        off = at if at is not None else self.next.get(key, 2048)
        assert off >= self.next.get(key, 2048)
        self.dats.setdefault(key, []).append((off, b))
        self.next[key] = off + ((len(b) + 127) // 128) * 128
        self.contents.append({"repo": repo, "cat": cat, "chunk": chunk, "dat": dat, "off": off // 128, "desc": public_desc(desc)})
        return off

    def add_entry(self, repo, cat, chunk, kind, path, dat, off, syn=False):
        self.index.setdefault((repo, cat, chunk, kind), []).append({"path": path, "dat": dat, "off": off // 128, "syn": syn})

    def add_noise(self, repo, cat, chunk, kind, rng):
        h = [rng.getrandbits(32), rng.getrandbits(32)]
        self.index.setdefault((repo, cat, chunk, kind), []).append(
            {"key": [[x >> 16, x & 0xFFFF] for x in (h if kind == 1 else h[:1])], "dat": rng.randrange(8),
             "off": rng.randrange(16, 4096), "syn": False, "_raw": h})

    def ensure_index(self, repo, cat, chunk, kind):
        self.index.setdefault((repo, cat, chunk, kind), [])

    def fs(self):
        out = []
        for r in self.repos:
            out.append({"p": "sqpack/%s" % sqpack.repo_name(r)})
        for (repo, cat, chunk, kind), entries in self.index.items():
            named = [{"path": bytes(e["path"]).decode(), "dat": e["dat"], "off": e["off"] * 128, "syn": e["syn"]}
                     for e in entries if "path" in e]
            noise = [((e["_raw"][0], e["_raw"][1]), sqpack.entry_word(e["dat"], e["off"] * 128, False)) for e in entries if "key" in e]
            b = sqpack.index_file(kind, named, self.plat, noise=noise)
            name = sqpack.stem(cat, repo, chunk, self.plat) + (".index" if kind == 1 else ".index2")
            out.append({"p": "sqpack/%s/%s" % (sqpack.repo_name(repo), name), "hex": b.hex()})
        for (repo, cat, chunk, dat), entries in self.dats.items():
            b = sqpack.dat_file(entries, self.plat)
            name = sqpack.stem(cat, repo, chunk, self.plat) + ".dat%d" % dat
            out.append({"p": "sqpack/%s/%s" % (sqpack.repo_name(repo), name), "hex": b.hex()})
        return out

    def open_line(self, h, case):
        files = [{"repo": k[0], "cat": k[1], "chunk": k[2], "kind": k[3],
                  "entries": [{kk: v for kk, v in e.items() if not kk.startswith("_")} for e in es]}
                 for k, es in self.index.items()]
        return {"op": "archive.open", "h": h, "case": case, "plat": self.plat, "repos": self.repos, "files": files,
                "contents": self.contents, "_fs": self.fs()}


def small_std(tag):
    """a one-block standard entry whose content identifies `tag` (an int)"""
    return {"kind": "std", "blocks": [[[1 + tag % 250, 3 + tag % 7], [2 + (tag // 250) % 250, 2]]], "_modes": ["raw"]}
