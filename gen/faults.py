"""Fault-space plumbing for C17 / C18: bases with field maps -> TLC enumeration (Gen_Faults) -> mutated inputs."""
import json
import os
import random
from lib.harness import Case, tlc_generate, WORK


def words(n, upto, step=4):
    return [(o, step) for o in range(0, min(n, upto) - step + 1, step)]


def base(bid, entry, data, fields, **extra):
    fields = [(o, w) for (o, w) in fields if o + w <= len(data)]
    return {"id": bid, "entry": entry, "data": bytes(data), "fields": fields, "extra": extra}


def enumerate_faults(bases, tag):
    """TLC enumerates FaultsOf(base) for every base (spec/Faults.tla)"""
    os.makedirs(os.path.join(WORK, "faults"), exist_ok=True)
    path = os.path.join(WORK, "faults", "bases-%s.ndjson" % tag)
    with open(path, "w") as f:
        for b in bases:
            f.write(json.dumps({"id": b["id"], "len": len(b["data"]),
                                "fields": [{"off": o, "w": w, "orig": list(b["data"][o:o + w])} for (o, w) in b["fields"]]}) + "\n")
    out, st = tlc_generate("mc/Gen_Faults.tla", "mc/Gen_Faults.cfg", workers=8, env={"BASES": path})
    return {o["base"]: o["faults"] for o in out}, st


def apply_fault(data, f):
    if f["k"] == "trunc":
        return data[:f["n"]]
    if f["k"] == "set":
        return data[:f["off"]] + bytes(f["v"]) + data[f["off"] + len(f["v"]):]
    if f["k"] == "none":
        return data
    raise ValueError(f)


def line(n, b, fault, data, must_fail=False, leakcheck=False, **kw):
    d = {"op": "fault.run", "case": n, "entry": b["entry"], "base": b["id"], "fault": fault, "len": len(data),
         "must_fail": must_fail, "leakcheck": leakcheck, "_hex": data.hex()}
    d.update(b["extra"])
    d.update(kw)
    return d


def cases_for(bases, faults, rng, n0, per_base=None, must_fail=None, leakcheck=lambda b: False):
    """one Case per base: the unmutated file, every enumerated fault (or a seeded sample of per_base), random multi-faults"""
    out = []
    n = n0
    for b in bases:
        fl = faults.get(b["id"], [])
        if per_base and len(fl) > per_base:
            # the quick tier runs a part of the space: first the core of every field (0, all ones, original +- 1 and +- 4,
            # little-endian), then a seeded sample of the rest
            orig = {o: b["data"][o:o + w] for (o, w) in b["fields"]}

            def is_core(f):
                if f["k"] != "set" or f["off"] not in orig:
                    return False
                o = orig[f["off"]]
                w = len(o)
                x = int.from_bytes(o, "little")
                core = {0, (1 << (8 * w)) - 1} | {(x + d) % (1 << (8 * w)) for d in (1, -1, 4, -4)}
                return len(f["v"]) == w and int.from_bytes(bytes(f["v"]), "little") in core
            core = [f for f in fl if is_core(f)]
            rest = [f for f in fl if not is_core(f)]
            if len(core) > per_base:
                core = rng.sample(core, per_base)
            fl = core + rng.sample(rest, min(len(rest), max(per_base - len(core), per_base // 3)))
        lines = [line(n, b, {"k": "none"}, b["data"], leakcheck=leakcheck(b))]
        for f in fl:
            data = apply_fault(b["data"], f)
            mf = must_fail(b, f) if must_fail else False
            lines.append(line(n, b, f, data, must_fail=mf, leakcheck=leakcheck(b)))
        # random multi-byte damage on top
        # (not for patches: random damage lands on the length fields that are listed as known findings field by field)
        for k in range(0 if b["entry"] == "patch.apply" else 6):
            data = bytearray(b["data"])
            for _ in range(rng.randint(1, 6)):
                if data:
                    data[rng.randrange(len(data))] = rng.choice([0, 1, 0x7F, 0x80, 0xFF, rng.randrange(256)])
            lines.append(line(n, b, {"k": "random", "n": k}, bytes(data), leakcheck=leakcheck(b)))
        out.append(Case(lines, desc={"base": b["id"], "entry": b["entry"], "faults": len(lines) - 1}))
        n += 1
    return out, n


def blob_cases(entries, rng, n0, sizes=(0, 1, 2, 3, 4, 7, 8, 16, 31, 64, 256, 1024)):
    """arbitrary bytes for entry points without a generated base: random, zero, ones, by size"""
    out, n = [], n0
    for entry, magic in entries:
        b = {"id": "blob:" + entry, "entry": entry, "extra": {}}
        lines = []
        for sz in sizes:
            for kind in ("zero", "ones", "random", "magic"):
                if kind == "zero":
                    data = bytes(sz)
                elif kind == "ones":
                    data = b"\xff" * sz
                elif kind == "random":
                    data = bytes(rng.randrange(256) for _ in range(sz))
                else:
                    data = (magic + bytes(rng.choice([0, 1, 255, rng.randrange(256)]) for _ in range(sz)))[:max(sz, len(magic))]
                lines.append(line(n, b, {"k": "blob", "kind": kind, "size": sz}, data))
        out.append(Case(lines, desc={"blobs for": entry, "inputs": len(lines)}))
        n += 1
    return out, n
