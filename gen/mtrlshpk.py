"""Independent builders for material (MTRL) and shader package (SHPK) files from their public descriptions."""
import struct

SAMPLER_IDS = [0x88408C04, 0x213CB439, 0x563B84AF, 0xFEA0F3D2, 0x1E6FEF9C, 0x6968DF0A, 0x115306BE, 0xF8D7957A, 0x8A4E82B6, 0x0C5EC1F1,
               0xAAB4D9E9, 0xDDB3E97F, 0x87F6474D, 0x2B99E025, 0x1BBC2F12, 0x6CBB1F84, 0xE6321AFC, 0x574E22D6, 0x20491240, 0x95E1F64D,
               0x565F8FD8, 0xE5338C17]


def mtrl(m):
    """m: dict(shpk, textures [str], uv_sets n, color_sets n, table: None|'legacy'|'dawntrail' (rows: list of 16/32 lists of u16 slots),
    dye: None | list of ints (16 u16 / 32 u32), keys [(cat, val)], constants [(id, [f32 bits])], samplers [(usage idx, flags, tex index)], flags)"""
    strings = bytearray()
    tex_offs = []
    for t in m["textures"]:
        tex_offs.append(len(strings))
        strings += t.encode() + b"\0"
    set_offs = []
    for i in range(m.get("uv_sets", 0) + m.get("color_sets", 0)):
        set_offs.append(len(strings))
        strings += b"set%d\0" % i
    shpk_off = len(strings)
    strings += m["shpk"].encode() + b"\0"
    # game files pad the heap to a multiple of 4; the header carries its exact size, so an unpadded heap is as valid
    while len(strings) % 4 and not m.get("unpadded_heap"):
        strings.append(0)
    table = m.get("table")
    flags = 0
    body = b""
    if table:
        flags |= 0x4
        if table == "dawntrail":
            flags |= 0x53 << 4
        elif m.get("explicit_dims"):
            flags |= 0x42 << 4          # a legacy table that spells out its 4 x 16 dimensions
        for row in m["rows"]:
            body += struct.pack("<%dH" % len(row), *row)
    if m.get("dye") is not None and not (table == "legacy" and m.get("explicit_dims")):
        flags |= 0x8
        body += b"".join(struct.pack("<H" if table != "dawntrail" else "<I", d) for d in m["dye"])
    # constant records in table order; their value slices are laid out in "const_order" (default: table order), with
    # optional gap words between slices, and a record may share the slice of another ("const_share": {i: j})
    cl = m.get("constants", [])
    order = m.get("const_order") or list(range(len(cl)))
    share = m.get("const_share") or {}
    gaps = m.get("const_gaps") or {}
    values = b""
    off = {}
    for i in order:
        if i in share:
            continue
        values += b"".join(struct.pack("<I", g) for g in gaps.get(i, []))
        off[i] = len(values)
        values += b"".join(struct.pack("<I", v) for v in cl[i][1])
    consts = b""
    for i, (cid, vals) in enumerate(cl):
        consts += struct.pack("<IHH", cid, off[share[i]] if i in share else off[i], 4 * len(vals))
    hdr2 = struct.pack("<HHHHI", len(values), len(m.get("keys", [])), len(m.get("constants", [])), len(m.get("samplers", [])), m.get("flags", 0))
    keys = b"".join(struct.pack("<II", c, v) for c, v in m.get("keys", []))
    samplers = b"".join(struct.pack("<IIBBBB", SAMPLER_IDS[u], fl, ti, 0, 0, 0) for u, fl, ti in m.get("samplers", []))
    data_set = body
    # texture entries: 16-bit offset into the string heap, 16 flag bits (0x8000 marks DX11 textures in game files)
    tflags = m.get("texture_flags") or [0] * len(tex_offs)
    pre = b"".join(struct.pack("<HH", o, f) for o, f in zip(tex_offs, tflags))
    no = iter(set_offs)
    pre += b"".join(struct.pack("<HH", next(no), i) for i in range(m.get("uv_sets", 0)))
    pre += b"".join(struct.pack("<HH", next(no), i) for i in range(m.get("color_sets", 0)))
    # additional data: the table flags are its first (up to four) bytes; a block shorter than four bytes is still followed by
    # the rest of a four-byte slot ("addl_fill": what lies there - not flags), a longer one carries more bytes behind the flags
    addl = m.get("addl_size", 4)
    word = struct.pack("<I", flags)
    if addl < 4:
        assert flags < (1 << (8 * addl)) or (addl == 0 and flags == 0)
        word = word[:addl] + bytes(m.get("addl_fill") or [0xA5] * (4 - addl))
    elif addl > 4:
        word = word + bytes(m.get("addl_fill") or [0x5A] * (addl - 4))
    rest = bytes(strings) + word + data_set + hdr2 + keys + consts + samplers + values
    total = 16 + len(pre) + len(rest)
    fh = struct.pack("<IHHHHBBBB", 0x01030000, total & 0xFFFF, len(data_set), len(strings), shpk_off, len(m["textures"]),
                     m.get("uv_sets", 0), m.get("color_sets", 0), addl)
    return fh + pre + rest


def shpk(p):
    """p: dict(dx11 bool, vs [shader], ps [shader], mat_params [(id, off, size)], defaults None|[f32 bits], params (4 lists of resource
    params), sys_keys, scene_keys, mat_keys [(id, default)], sub1, sub2, nodes [node], aliases [(selector, node)])
    shader = dict(code bytes, extra bytes(8, vertex only), params: 4 lists of (id, name, slot, size))
    node = dict(selector, pass_indices [16], sys, scene, mat, sub [u32...], passes [(id, vs, ps)])"""
    strings = bytearray()

    def intern(s):
        # a name that is a prefix of one already in the heap shares its storage (the record carries the length)
        b = s.encode()
        if p.get("share_prefixes") and b:
            at = bytes(strings).find(b)
            if at >= 0:
                return at, len(b)
        o = len(strings)
        strings.extend(b + b"\0")
        return o, len(b)

    def rparams(lst):
        out = b""
        for (pid, name, slot, size) in lst:
            o, ln = intern(name)
            out += struct.pack("<IIHHHH", pid, o, ln, 0, slot, size)
        return out
    blob = bytearray()
    shader_recs = b""
    for is_v, lst in ((True, p["vs"]), (False, p["ps"])):
        for sh in lst:
            off = len(blob)
            if is_v:
                blob += sh["extra"]
            blob += sh["code"]
            shader_recs += struct.pack("<IIHHHH", off, len(sh["code"]), *[len(x) for x in sh["params"]])
            for x in sh["params"]:
                shader_recs += rparams(x)
    mat = b"".join(struct.pack("<IHH", i, o, s) for i, o, s in p["mat_params"])
    msize = p.get("mat_params_size", 4 * len(p["defaults"]) if p.get("defaults") else 16)
    defaults = b"".join(struct.pack("<I", v) for v in p["defaults"]) if p.get("defaults") else b""
    gl = b"".join(rparams(x) for x in p["params"])
    keys = b"".join(struct.pack("<II", i, d) for lst in (p["sys_keys"], p["scene_keys"], p["mat_keys"]) for i, d in lst)
    nodes = b""
    for nd in p["nodes"]:
        nodes += struct.pack("<II16B", nd["selector"], len(nd["passes"]), *nd["pass_indices"])
        for k in ("sys", "scene", "mat", "sub"):
            nodes += b"".join(struct.pack("<I", x) for x in nd[k])
        nodes += b"".join(struct.pack("<III", *ps) for ps in nd["passes"])
    aliases = b"".join(struct.pack("<II", s, n) for s, n in p["aliases"])
    body = shader_recs + mat + defaults + gl + keys + struct.pack("<II", p["sub1"], p["sub2"]) + nodes + aliases
    head_len = 4 + 4 + 4 + 4 + 4 + 4 + 4 + 4 + 4 + 2 + 2 + 2 + 2 + 2 + 2 + 2 + 2 + 4 * 5
    shader_data_offset = head_len + len(body)
    strings_offset = shader_data_offset + len(blob)
    total = strings_offset + len(strings)
    head = b"ShPk" + struct.pack("<I", 0x0D01) + (b"DX11" if p["dx11"] else b"DX9\0") + struct.pack("<III", total, shader_data_offset, strings_offset)
    head += struct.pack("<II", len(p["vs"]), len(p["ps"])) + struct.pack("<IHH", msize, len(p["mat_params"]), 1 if p.get("defaults") else 0)
    head += struct.pack("<HHHHHH", len(p["params"][0]), 0, len(p["params"][1]), len(p["params"][2]), len(p["params"][3]), 0)
    head += struct.pack("<IIIII", len(p["sys_keys"]), len(p["scene_keys"]), len(p["mat_keys"]), len(p["nodes"]), len(p["aliases"]))
    assert len(head) == head_len, (len(head), head_len)
    return head + body + bytes(blob) + bytes(strings)
