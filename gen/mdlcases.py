"""Abstract model generation shared by C06 / C07."""
import struct
from gen import mdl

TYPE_SIZE = mdl.TYPE_SIZE
# reader-supported (usage, type) pairs; (BlendWeights, Byte4) is excluded (no documented meaning)
PAIRS = [(0, 2), (0, 3), (0, 14), (1, 8), (1, 17), (2, 5), (2, 17), (3, 14), (3, 2), (4, 8), (4, 14), (4, 3), (4, 13),
         (6, 8), (5, 8), (7, 8)]
# pairs the writer can emit (C07's canonical encodings)
WRITABLE = [(0, 2), (0, 3), (0, 14), (1, 8), (2, 5), (3, 14), (3, 2), (4, 14), (4, 3), (6, 8), (7, 8)]


def make_decl(els, gap=0):
    """els: list of (usage, type, stream) -> (declaration tuples, strides)"""
    offs = [0, 0, 0]
    decl = []
    for (usage, typ, stream) in els:
        decl.append((stream, offs[stream], typ, usage, 0))
        offs[stream] += TYPE_SIZE[typ] + gap
    return decl, offs


def distinct_vdata(rng, vcount, strides, streams):
    """vertex buffers in which every byte of a vertex is distinct (per stream a running counter with a random phase)"""
    out = []
    for s in range(streams):
        phase = rng.randrange(256)
        out.append(bytes((phase + 7 * i + 13 * (i // 251)) % 256 for i in range(vcount * strides[s])))
    return out


def mesh(rng, els, gap, vcount, indices, nsub, start_index, material=0, vdata=None):
    decl, strides = make_decl(els, gap)
    streams = max([e[2] for e in els]) + 1
    for s in range(streams):
        if strides[s] == 0:
            strides[s] = 4          # a stream no element reads still has a stride
    ic = len(indices)
    cuts = sorted(rng.sample(range(0, ic + 1), nsub - 1)) if nsub > 1 and ic >= 1 else [0] * (nsub - 1)
    bounds = [0] + cuts + [ic]
    subs = [(start_index + bounds[i], bounds[i + 1] - bounds[i], rng.getrandbits(8), 0, 0) for i in range(nsub)]
    return {"decl": decl, "strides": strides[:3], "streams": streams, "vcount": vcount,
            "vdata": vdata if vdata is not None else distinct_vdata(rng, vcount, strides, streams),
            "indices": indices, "material": material, "bone_table": 0, "submeshes": subs, "start_index": start_index}


def model(rng, version, lods, materials=("mat_a.mtrl",), bones=(), shapes=(), bone_tables=()):
    return {"version": version, "lods": [{"meshes": ms} for ms in lods], "materials": list(materials), "bones": list(bones),
            "attributes": ["atr_x"], "shapes": list(shapes), "bone_tables": [list(b) for b in bone_tables],
            "radius_bits": rng.getrandbits(31),
            # header data behind the shape tables: non-zero, so that a shift of any of it shows in the written bytes
            "submesh_bone_map": [rng.randrange(1, 64) for _ in range(rng.choice([0, 1, 2, 5]))],
            "padding": rng.choice([0, 0, 1, 3, 7]), "padding_bytes": [rng.randrange(1, 256) for _ in range(7)],
            "box_bits": [(0x3F000000 + rng.getrandbits(22)) for _ in range(32 + 8 * len(bones))],
            "opaque": {"header": [0x40000000 + rng.getrandbits(20), 0x41000000 + rng.getrandbits(20)] + [rng.getrandbits(16) for _ in range(9)],
                       "lods": [[0x42000000 + rng.getrandbits(20), 0x43000000 + rng.getrandbits(20)] + [0] * 8 + [rng.getrandbits(24)] for _ in range(3)]}}


# ------------------------------------------------------------------ canonical vertices (C07)
def _f32bits(x):
    return struct.unpack("<I", struct.pack("<f", x))[0]


def _w(bits):
    return [bits >> 16, bits & 0xFFFF]


def _half_to_bits(h):
    return _f32bits(struct.unpack("<e", struct.pack("<H", h))[0])


def _rhalf(rng):
    while True:
        h = rng.getrandbits(16)
        if (h >> 10) & 31 != 31:          # finite
            return h


def _rfloat(rng):
    while True:
        b = rng.getrandbits(32)
        if (b >> 23) & 255 != 255:
            return b


def _unorm(b):
    return _f32bits(b / 255.0)


def _tang(b):
    f = lambda x: struct.unpack("<f", struct.pack("<f", x))[0]
    return _f32bits(f(f(f(b * 2.0) / 255.0) - 1.0))


def canonical_vertex(rng, decl):
    """decl: list of (stream, offset, type, usage, uidx) from make_decl.  Returns (per-stream {offset: bytes}, flat vertex)
    where the stored bytes are the canonical encoding of the reported values."""
    f = [0] * 22
    bi = [0, 0, 0, 0]
    chunks = []
    for (stream, offset, typ, usage, _) in decl:
        if usage == 0:       # position
            if typ == 14:
                hs = [_rhalf(rng) for _ in range(3)] + [0x3C00]
                f[0:3] = [_half_to_bits(h) for h in hs[:3]]
                b = struct.pack("<4H", *hs)
            else:
                fs = [_rfloat(rng) for _ in range(3)]
                f[0:3] = fs
                b = struct.pack("<3I", *fs) + (struct.pack("<I", 0x3F800000) if typ == 3 else b"")
        elif usage == 3:     # normal
            if typ == 14:
                hs = [_rhalf(rng) for _ in range(3)] + [0]
                f[7:10] = [_half_to_bits(h) for h in hs[:3]]
                b = struct.pack("<4H", *hs)
            else:
                fs = [_rfloat(rng) for _ in range(3)]
                f[7:10] = fs
                b = struct.pack("<3I", *fs)
        elif usage == 4:     # uv
            if typ == 14:
                hs = [_rhalf(rng) for _ in range(4)]
                f[3:7] = [_half_to_bits(h) for h in hs]
                b = struct.pack("<4H", *hs)
            else:
                fs = [_rfloat(rng) for _ in range(4)]
                f[3:7] = fs
                b = struct.pack("<4I", *fs)
        elif usage == 1:     # blend weights, ByteFloat4
            bs = [rng.randrange(256) for _ in range(4)]
            f[18:22] = [_unorm(x) for x in bs]
            b = bytes(bs)
        elif usage == 2:     # blend indices, Byte4
            bi = [rng.randrange(256) for _ in range(4)]
            b = bytes(bi)
        elif usage == 6:     # bitangent
            bs = [rng.randrange(256) for _ in range(3)] + [rng.choice([0, 255])]
            f[10:13] = [_tang(x) for x in bs[:3]]
            f[13] = 0x3F800000 if bs[3] == 255 else 0xBF800000
            b = bytes(bs)
        elif usage == 7:     # colour
            bs = [rng.randrange(256) for _ in range(4)]
            f[14:18] = [_unorm(x) for x in bs]
            b = bytes(bs)
        else:
            raise ValueError(usage)
        chunks.append((stream, offset, b))
    return chunks, {"f": [_w(x) for x in f], "bi": bi}


def canonical_mesh(rng, els, vcount, indices, nsub, start_index, material=0):
    """a mesh whose vertex buffers are canonical encodings; returns (mesh, vertices as flat records)"""
    decl, strides = make_decl(els, 0)
    streams = max(e[2] for e in els) + 1
    bufs = [bytearray(vcount * strides[s]) for s in range(streams)]
    verts = []
    for k in range(vcount):
        chunks, v = canonical_vertex(rng, decl)
        for (s, off, b) in chunks:
            bufs[s][k * strides[s] + off:k * strides[s] + off + len(b)] = b
        verts.append(v)
    m = mesh(rng, els, 0, vcount, indices, nsub, start_index, material=material, vdata=[bytes(b) for b in bufs])
    return m, verts
