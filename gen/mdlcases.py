"""Abstract model generation shared by C06 / C07."""
import struct
from gen import mdl

TYPE_SIZE = mdl.TYPE_SIZE
# reader-supported (usage, type) pairs; (BlendWeights, Byte4) is excluded (no documented meaning)
PAIRS = [(0, 2), (0, 3), (0, 14), (1, 8), (1, 17), (2, 5), (2, 17), (3, 14), (3, 2), (4, 8), (4, 14), (4, 3), (4, 13),
         (6, 8), (5, 8), (7, 8)]
# pairs the writer can emit (C07's canonical encodings)
WRITABLE = [(0, 2), (0, 3), (0, 14), (1, 8), (2, 5), (3, 14), (3, 2), (4, 14), (4, 3), (6, 8), (7, 8)]


def make_decl(els, gap=0):
    """els: list of (usage, type, stream) -> (declaration tuples, strides)"""
    offs = [0, 0, 0]
    decl = []
    for (usage, typ, stream) in els:
        decl.append((stream, offs[stream], typ, usage, 0))
        offs[stream] += TYPE_SIZE[typ] + gap
    return decl, offs


def distinct_vdata(rng, vcount, strides, streams):
    """vertex buffers in which every byte of a vertex is distinct (per stream a running counter with a random phase)"""
    out = []
    for s in range(streams):
        phase = rng.randrange(256)
        out.append(bytes((phase + 7 * i + 13 * (i // 251)) % 256 for i in range(vcount * strides[s])))
    return out


def mesh(rng, els, gap, vcount, indices, nsub, start_index, material=0, vdata=None):
    decl, strides = make_decl(els, gap)
    streams = max([e[2] for e in els]) + 1
    for s in range(streams):
        if strides[s] == 0:
            strides[s] = 4          # a stream no element reads still has a stride
    ic = len(indices)
    cuts = sorted(rng.sample(range(0, ic + 1), nsub - 1)) if nsub > 1 and ic >= 1 else [0] * (nsub - 1)
    bounds = [0] + cuts + [ic]
    subs = [(start_index + bounds[i], bounds[i + 1] - bounds[i], rng.getrandbits(8), 0, 0) for i in range(nsub)]
    return {"decl": decl, "strides": strides[:3], "streams": streams, "vcount": vcount,
            "vdata": vdata if vdata is not None else distinct_vdata(rng, vcount, strides, streams),
            "indices": indices, "material": material, "bone_table": 0, "submeshes": subs, "start_index": start_index}


def model(rng, version, lods, materials=("mat_a.mtrl",), bones=(), shapes=(), bone_tables=()):
    return {"version": version, "lods": [{"meshes": ms} for ms in lods], "materials": list(materials), "bones": list(bones),
            "attributes": ["atr_x"], "shapes": list(shapes), "bone_tables": [list(b) for b in bone_tables],
            "radius_bits": rng.getrandbits(31)}
