"""Independent encoders for character presets and gear-set files (documented layouts)."""
import struct


def chardat(version, fields, timestamp, comment):
    body = bytes(fields) + b"\0" + struct.pack("<I", timestamp) + comment.ljust(164, b"\0")
    ck = 0
    for i, x in enumerate(body):
        ck ^= x << (i % 24)
    return struct.pack("<III", 0x2013FF14, version, ck) + b"\0" * 4 + body


def gear_file(current, sets, unk=(0, 0)):
    """sets: dict k (1..100) -> dict(index, name bytes, slots {s(1..14): (id, glam)}, facewear)"""
    body = bytearray([unk[0], current]) + struct.pack("<H", unk[1])
    for k in range(1, 101):
        s = sets.get(k)
        rec = bytearray(452)
        if s:
            rec[0] = s["index"]
            rec[1:1 + len(s["name"])] = s["name"]
        for t in range(1, 15):
            sid, glam = (s["slots"].get(t, (0, 0)) if s else (0, 0))
            struct.pack_into("<II", rec, 56 + 28 * (t - 1), (sid + 1000000) & 0xFFFFFFFF, glam)
        if s:
            struct.pack_into("<I", rec, 448, s["facewear"])
        body += rec
    hdr = struct.pack("<III", 0x006D0005, 45205, 45205) + b"\0" * 4 + b"\xff"
    return hdr + bytes(x ^ 0x73 for x in body)
