"""Independent SqPack writer (index, index2, dat) from the public SqPack
description (xiv.dev / Lumina structs): 1024-byte SqPack header, 1024-byte
index header with four segment descriptors, 16-byte index1 / 8-byte index2
entries, entry word = synonym | dat << 1 | (offset / 128) << 4; dat entries at
128-aligned offsets with a file-info header (standard / model / texture) and
data blocks with 16-byte headers (32000 marker = raw, else raw deflate).
"""
import struct
import zlib

CATEGORY_NAMES = {0: "common", 1: "bgcommon", 2: "bg", 3: "cut", 4: "chara", 5: "shader", 6: "ui", 7: "sound",
                  8: "vfx", 9: "ui_script", 10: "exd", 11: "game_script", 12: "music", 18: "sqpack_test", 19: "debug"}
PLATFORMS = ["win32", "ps3", "ps4", "ps5", "lys"]


def jamcrc(b):
    return (zlib.crc32(b) ^ 0xFFFFFFFF) & 0xFFFFFFFF


def repo_name(ex):
    return "ffxiv" if ex == 0 else "ex%d" % ex


def stem(cat, ex, chunk, plat):
    return "%02x%02d%02d.%s" % (cat, ex, chunk, PLATFORMS[plat])


def sqpack_header(file_type, plat):
    h = bytearray(1024)
    h[0:8] = b"SqPack\0\0"
    h[8] = plat
    struct.pack_into("<III", h, 12, 1024, 1, file_type)
    struct.pack_into("<h", h, 32, -1)
    return bytes(h)


def entry_word(dat, off, syn):
    assert off % 128 == 0
    return (1 if syn else 0) | (dat << 1) | ((off // 128) << 4)


def index_file(kind, entries, plat=0, ndat=1, noise=()):
    """kind 1 = index (folder/file hashes), 2 = index2 (full path hash).
    entries: list of dict(path=str, dat=int, off=int, syn=bool); noise: raw (hash tuple, word) entries."""
    rows = []
    for e in entries:
        p = e["path"].lower().encode()
        w = entry_word(e["dat"], e["off"], e.get("syn", False))
        if kind == 1:
            folder, _, name = p.rpartition(b"/")
            rows.append(struct.pack("<IIII", jamcrc(name), jamcrc(folder), w, 0))
        else:
            rows.append(struct.pack("<II", jamcrc(p), w))
    for h, w in noise:
        rows.append(struct.pack("<IIII", h[0], h[1], w, 0) if kind == 1 else struct.pack("<II", h[0], w))
    folders = b""
    if kind == 1:
        # game files keep the entries sorted by (folder hash, file hash) and list every folder's run of entries in the
        # directory segment: folder hash, offset of its first entry, size of its entries, padding
        rows.sort(key=lambda r: struct.unpack("<II", r[:8])[::-1])
        runs = {}
        for k, r in enumerate(rows):
            fh = struct.unpack("<I", r[4:8])[0]
            runs.setdefault(fh, [2048 + 16 * k, 0])[1] += 16
        folders = b"".join(struct.pack("<IIII", fh, o, sz, 0) for fh, (o, sz) in sorted(runs.items()))
    table = b"".join(rows)
    hdr = bytearray(1024)
    struct.pack_into("<II", hdr, 0, 1024, 1)
    struct.pack_into("<II", hdr, 8, 2048, len(table))                 # index data segment
    struct.pack_into("<III", hdr, 80, ndat, 2048 + len(table), 0)     # number of dat files, synonym segment (empty)
    struct.pack_into("<II", hdr, 156, 2048 + len(table), 0)           # empty-block segment (empty)
    struct.pack_into("<II", hdr, 228, 2048 + len(table), len(folders))   # directory segment
    # index type: the recalled layout has the u32 at 300; the library reads a byte at 296, which is hash
    # padding in the recalled layout.  Unverifiable offline, so both positions carry the value (DESIGN 5 C01).
    # Unverifiable offline, so both positions carry a value valid under the respective reading
    # (library: byte enum 0/1 at 296; recalled: u32 0/2 at 300).
    struct.pack_into("<I", hdr, 296, 0 if kind == 1 else 1)
    struct.pack_into("<I", hdr, 300, 0 if kind == 1 else 2)
    return sqpack_header(2, plat) + bytes(hdr) + table + folders


# ------------------------------------------------------------------------------------------- dat side
def raw_deflate(data, mode):
    if mode == "stored":
        co = zlib.compressobj(0, zlib.DEFLATED, -15)
    elif mode == "fixed":
        co = zlib.compressobj(9, zlib.DEFLATED, -15, 9, zlib.Z_FIXED)
    else:
        co = zlib.compressobj(9, zlib.DEFLATED, -15)
    return co.compress(data) + co.flush()


def block(data, mode):
    """mode raw | stored | fixed | dynamic; returns the 128-padded block bytes."""
    if mode == "raw":
        body = struct.pack("<IIii", 16, 0, 32000, len(data)) + data
    else:
        z = raw_deflate(data, mode)
        if len(z) >= 32000:      # cannot be flagged as compressed
            body = struct.pack("<IIii", 16, 0, 32000, len(data)) + data
        else:
            body = struct.pack("<IIii", 16, 0, len(z), len(data)) + z
    pad = (-len(body)) % 128
    return body + b"\0" * pad


def pad128(b):
    return b + b"\0" * ((-len(b)) % 128)


def standard_entry(blocks):
    """blocks: list of (bytes, mode)."""
    enc = [block(d, m) for d, m in blocks]
    hdr = struct.pack("<IiI", 0, 2, sum(len(d) for d, _ in blocks)) + struct.pack("<III", 0, 0, len(blocks))
    off = 0
    for (d, _), e in zip(blocks, enc):
        hdr += struct.pack("<iHH", off, len(e), len(d))
        off += len(e)
    hdr = pad128(hdr)
    hdr = struct.pack("<I", len(hdr)) + hdr[4:]
    return hdr + b"".join(enc)


def texture_entry(header, mips, gaps=None, order=None):
    """header: raw texture header bytes (any length); mips: list of lists of (bytes, mode).
    gaps: 128-byte units left free in front of each mip's blocks; order: the order in which the mips' blocks are stored
    (every mip states its own offset, so neither has to be 0 / the reading order)."""
    enc = [[block(d, m) for d, m in mip] for mip in mips]
    gaps = gaps or [0] * len(mips)
    order = order if order is not None else list(range(len(mips)))
    hdr = struct.pack("<IiI", 0, 4, len(header) + sum(len(d) for mip in mips for d, _ in mip)) + struct.pack("<III", 0, 0, len(mips))
    start = {}
    body = bytearray(header)
    for k in order:
        body += b"\xEE" * (128 * gaps[k])
        start[k] = len(body)
        body += b"".join(enc[k])
    bi = 0
    table = b""
    for k, (mip, e) in enumerate(zip(mips, enc)):
        csize = sum(len(x) for x in e)
        hdr += struct.pack("<IIIII", start[k], csize, sum(len(d) for d, _ in mip), bi, len(mip))
        bi += len(mip)
        for x in e:
            table += struct.pack("<H", len(x))
    hdr = pad128(hdr + table)
    hdr = struct.pack("<I", len(hdr)) + hdr[4:]
    return hdr + bytes(body)


def model_entry(m):
    """m: dict(version, decls, mats, lods, stream, edge, stack, runtime, vertex[3], index[3]) where each
    section is a list of (bytes, mode) blocks.  Edge geometry sections are empty."""
    order = [("stack", m["stack"]), ("runtime", m["runtime"])]
    for i in range(3):
        order.append(("v%d" % i, m["vertex"][i]))
        order.append(("e%d" % i, []))
        order.append(("i%d" % i, m["index"][i]))
    enc = {}
    offs = {}
    starts = {}
    sizes = []
    pos = 0
    bi = 0
    body = b""
    # the block size table and the first-block numbers follow the reading order of the sections; where a section's blocks
    # are stored is free (the offsets say it): "storage_order" permutes the storage
    for name, blocks in order:
        e = [block(d, md) for d, md in blocks]
        enc[name] = e
        starts[name] = bi
        for x in e:
            sizes.append(len(x))
        bi += len(e)
    names = [nm for nm, _ in order]
    for k in (m.get("storage_order") or range(len(names))):
        name = names[k]
        offs[name] = pos
        for x in enc[name]:
            body += x
            pos += len(x)

    def sect(fn):     # ModelMemorySizes order: stack, runtime, vertex[3], edge[3], index[3]
        names = ["stack", "runtime", "v0", "v1", "v2", "e0", "e1", "e2", "i0", "i1", "i2"]
        return [fn(n) for n in names]
    blocks_of = dict(order)
    unc = sect(lambda n: sum(len(d) for d, _ in blocks_of[n]))
    cmp_ = sect(lambda n: sum(len(x) for x in enc[n]))
    off = sect(lambda n: offs[n])
    idx = sect(lambda n: starts[n])
    num = sect(lambda n: len(enc[n]))
    hdr = struct.pack("<IiI", 0, 3, sum(unc) + 0x44)
    hdr += struct.pack("<III", len(sizes), len(sizes), m["version"])
    hdr += struct.pack("<11I", *unc) + struct.pack("<11I", *cmp_) + struct.pack("<11I", *off)
    hdr += struct.pack("<11H", *idx) + struct.pack("<11H", *num)
    hdr += struct.pack("<HHBBBB", m["decls"], m["mats"], m["lods"], 1 if m["stream"] else 0, 1 if m["edge"] else 0, 0)
    hdr += b"".join(struct.pack("<H", s) for s in sizes)
    hdr = pad128(hdr)
    hdr = struct.pack("<I", len(hdr)) + hdr[4:]
    return hdr + body


def dat_file(entries, plat=0):
    """entries: list of (offset, bytes) with 128-aligned offsets >= 2048."""
    out = bytearray(sqpack_header(1, plat) + b"\0" * 1024)
    for off, b in sorted(entries):
        assert off % 128 == 0 and off >= len(out), (off, len(out))
        out += b"\0" * (off - len(out))
        out += b
    return bytes(out)
