"""Independent concretisers for FIIN tables and patch lists (from the format
descriptions; hashlib is used only to build inputs)."""
import hashlib
import struct


def render_fiin(files):
    """files: list of (name bytes, content bytes)."""
    out = bytearray(b"FileInfo" + b"\0" * 16 + struct.pack("<ii", 1024, 96 * len(files)))
    out += b"\0" * (1024 - len(out))
    for name, content in files:
        out += struct.pack("<i", len(content)) + b"\0" * 4 + name.ljust(64, b"\0")
        out += hashlib.sha1(content).digest() + b"\0" * 4
    return bytes(out)


def render_list(kind, ident, loc, patches):
    """patches: dicts with decimal strings length,size,a,b,hbs and version,url, hashes list (all str)."""
    total = sum(int(p["length"]) for p in patches)
    t = "--%s\r\nContent-Type: application/octet-stream\r\nContent-Location: %s\r\nX-Patch-Length: %d\r\n\r\n" % (
        ident, loc, total)
    for p in patches:
        cols = [p["length"], p["size"], p["a"], p["b"], p["version"]]
        if kind == "game":
            cols += ["sha1", p["hbs"], ",".join(p["hashes"])]
        cols.append(p["url"])
        t += "\t".join(cols) + "\r\n"
    t += "--%s--\r\n" % ident
    return t.encode()


def pattern_bytes(n, a, b):
    return bytes((a * i + b + i // 251) % 256 for i in range(n))
