"""Independent writer of the word dictionary (.dic) as Physis reads it (the layout is documented by the library only:
regression-level).  A dictionary is given as a forest: slots {start index: tree}; a tree is
  ("leaf",) | ("tail", [units]) | ("branch", [(unit, subtree), ...], compact)
Tables: begin / inner / chara / word (u16 each) and entries (flag, sibling, child, offset as u32), see spec/Dictionary.tla."""
import struct

HDR = 0x8724          # block offsets (5 x u32), block lengths (5 x u32), 4 bytes, 256 class words
BASE = 0x8950         # block offsets are relative to this position


class Tables:
    def __init__(self):
        self.begin, self.inner, self.chara, self.word = [], [0], [], []
        self.entries = [(0, 0, 0, 0)]          # entry 0 / pointer 0 are reserved: 0 means "none"

    def lay(self, tree, rng=None):
        if tree[0] == "tail":
            if rng is not None and rng.random() < 0.3:
                self.word += [0]               # slack between tails
            off = 2 * len(self.word)
            self.word += list(tree[1]) + [0]
            self.entries.append((1 + (rng.randrange(3) if rng else 0), 1, 0, off))
            return len(self.entries) - 1
        kids, compact = tree[1], tree[2]
        ids = [0 if sub[0] == "leaf" else self.lay(sub, rng) for (_, sub) in kids]
        if rng is not None and rng.random() < 0.3:
            self.chara += [rng.randrange(1, 0x7F)]      # slack between character runs
        off = 2 * len(self.chara)
        self.chara += [u for (u, _) in kids]
        child = 0
        if not compact:
            child = len(self.inner)
            self.inner += ids
        self.entries.append((0, len(kids), child, off))
        return len(self.entries) - 1


def words_of(tree, prefix):
    if tree[0] == "tail":
        return [prefix + list(tree[1])]
    out = []
    for (u, sub) in tree[1]:
        out += [prefix + [u]] if sub[0] == "leaf" else words_of(sub, prefix + [u])
    return out


def build(slots, classes, pages, rng, order=None):
    """slots: {start index: tree}; classes: {table position 0..255: class value}; pages: number of 256-slot pages of the start table.
    Returns (file bytes, expected word list as lists of UTF-16 units)."""
    t = Tables()
    t.begin = [0] * (256 * pages)
    for idx in sorted(slots):
        t.begin[idx] = t.lay(slots[idx], rng)
    block = [0] * 256
    for pos, cls in classes.items():
        block[pos] = cls
    expected = []
    for idx in sorted(slots):
        hi, lo = idx >> 8, idx & 0xFF
        first = lo if hi != 0 and any((c & 0xFFFF) == hi for c in block) else 0
        expected += words_of(slots[idx], [first])
    raw = [struct.pack("<%dH" % len(x), *x) for x in (t.begin, t.inner, t.chara, t.word)]
    raw.append(b"".join(struct.pack("<4I", *e) for e in t.entries))
    # blocks in any order behind the class words, with gaps
    order = order or list(range(5))
    pos = 0x200
    offs, lens = [0] * 5, [0] * 5
    area = bytearray()
    for k in order:
        pos += 2 * rng.randrange(0, 5)
        offs[k], lens[k] = pos, len(raw[k])
        area += bytes(rng.randrange(256) for _ in range(pos - 0x200 - len(area))) + raw[k]
        pos += len(raw[k])
    head = bytes(rng.randrange(256) for _ in range(HDR))
    hdr = struct.pack("<5I", *offs) + struct.pack("<5I", *lens) + bytes(4) + struct.pack("<256I", *block)
    f = head + hdr + bytes(area)
    assert len(hdr) == 0x8B50 - HDR and f[BASE + 0x200:] == bytes(area)
    return f, expected


def random_tree(rng, depth, units):
    r = rng.random()
    if depth == 0 or r < 0.25:
        return ("tail", [rng.choice(units) for _ in range(rng.randint(1, 4))])
    n = rng.randint(1, 4)
    us = rng.sample(units, n)
    kids = [(u, ("leaf",) if rng.random() < 0.45 else random_tree(rng, depth - 1, units)) for u in us]
    allleaf = all(s[0] == "leaf" for _, s in kids)
    return ("branch", kids, allleaf and rng.random() < 0.5)
