"""Independent MDL (model) builder and header decoder, from the public model
format description (xiv.dev / Lumina MdlStructs): 0x44-byte file header,
vertex declarations (17 slots of 8 bytes, 0xFF terminated), string table,
56-byte model header, element ids, 3 LOD records (60 bytes), meshes (36),
attribute / material / bone name offsets, sub-meshes (16), bone tables
(version 5: 64 x u16 + count), shapes, shape meshes, shape values, sub-mesh
bone map, padding, bounding boxes, then per LOD vertex and index data.

Abstract model (what build() takes):
  {"version": 5|6, "lods": [ {"meshes": [mesh, ...]}, ... ]  (1..3),
   "materials": [str], "bones": [str], "attributes": [str], "shapes": [shape...], "bone_tables": [[u16...]],
   "radius_bits": u32}
  mesh = {"decl": [(stream, offset, type, usage, usage_index), ...], "strides": [s0, s1, s2], "streams": n,
          "vcount": n, "vdata": [bytes per stream], "indices": [u16...], "material": i, "bone_table": i,
          "submeshes": [(index_offset, index_count, attribute_mask, bone_start, bone_count), ...]}
  shape = {"name": str, "meshes": {lod: [(mesh_global_index, [(base_index, replacing_vertex_index), ...])]}}
"""
import struct

TYPE_SIZE = {0: 4, 1: 8, 2: 12, 3: 16, 5: 4, 6: 4, 7: 8, 8: 4, 9: 4, 10: 4, 13: 4, 14: 8, 16: 4, 17: 8}
SINGLE3, SINGLE4, BYTE4, BYTEFLOAT4, HALF2, HALF4, USHORT4 = 2, 3, 5, 8, 13, 14, 17
POSITION, BLENDWEIGHTS, BLENDINDICES, NORMAL, UV, TANGENT, BITANGENT, COLOR = range(8)


def pad16(n):
    """index section size as the format stores it: padded to a multiple of 16"""
    return (n + 15) // 16 * 16


def build(m, index_pad=pad16):
    strings = bytearray()
    offs = {}

    def intern(s):
        if s not in offs:
            offs[s] = len(strings)
            strings.extend(s.encode() + b"\0")
        return offs[s]
    attr_offs = [intern(s) for s in m.get("attributes", [])]
    bone_offs = [intern(s) for s in m.get("bones", [])]
    mat_offs = [intern(s) for s in m.get("materials", [])]
    shape_offs = [intern(s["name"]) for s in m.get("shapes", [])]
    nstrings = len(offs)
    while len(strings) % 4:
        strings.append(0)

    meshes = [mesh for lod in m["lods"] for mesh in lod["meshes"]]
    submeshes = []
    for mesh in meshes:
        mesh["_submesh_index"] = len(submeshes)
        submeshes.extend(mesh["submeshes"])
    bone_tables = m.get("bone_tables", [])
    shapes = m.get("shapes", [])
    shape_meshes, shape_values, shape_structs = [], [], []
    for s in shapes:
        start, count = [0, 0, 0], [0, 0, 0]
        for lod in range(3):
            lst = s["meshes"].get(lod, [])
            start[lod] = len(shape_meshes) if lst else 0
            count[lod] = len(lst)
            for (mi, vals) in lst:
                shape_meshes.append((meshes[mi]["start_index"], len(vals), len(shape_values)))
                shape_values.extend(vals)
        shape_structs.append((start, count))

    version = 0x1000005 if m["version"] == 5 else 0x1000006
    ndecl = len(meshes)
    decl_bytes = bytearray()
    for mesh in meshes:
        d = bytearray()
        for (stream, offset, typ, usage, uidx) in mesh["decl"]:
            d += struct.pack("<BBBBB3x", stream, offset, typ, usage, uidx)
        d += struct.pack("<BBBBB3x", 0xFF, 0, 0, 0, 0)
        d += b"\0" * (17 * 8 - len(d))
        decl_bytes += d

    runtime = bytearray()
    runtime += struct.pack("<HHI", nstrings, 0, len(strings)) + strings
    lod_count = len(m["lods"])
    runtime += struct.pack("<I", m.get("radius_bits", 0x3F800000))
    runtime += struct.pack("<9H", len(meshes), len(attr_offs), len(submeshes), len(mat_offs), len(bone_offs), len(bone_tables),
                           len(shapes), len(shape_meshes), len(shape_values))
    tsm = m.get("terrain_shadow_meshes", [])         # opaque 20-byte records
    tss = m.get("terrain_shadow_submeshes", [])      # opaque 12-byte records
    runtime += struct.pack("<BBHBB", lod_count, m.get("flags1", 0x02), 0, len(tsm), m.get("flags2", 0))
    # opaque header values (clip distances as bit patterns, unknown words, material indices): carried, never interpreted
    oq = m.get("opaque") or {}
    hv = (list(oq.get("header", [])) + [0] * 11)[:11]
    runtime += struct.pack("<IIHHBBBBHHH6x", hv[0], hv[1], hv[2], len(tss), hv[4] & 255, hv[5] & 255, hv[6] & 255, hv[7] & 255, hv[8], hv[9], hv[10])
    lod_pos = len(runtime)
    runtime += b"\0" * 180
    mesh_pos = len(runtime)
    runtime += b"\0" * (36 * len(meshes))
    for o in attr_offs:
        runtime += struct.pack("<I", o)
    for rec in tsm:
        runtime += bytes(rec)[:20].ljust(20, b"\0")
    for (io, ic, mask, bs, bc) in submeshes:
        runtime += struct.pack("<IIIHH", io, ic, mask, bs, bc)
    for rec in tss:
        runtime += bytes(rec)[:12].ljust(12, b"\0")
    for o in mat_offs:
        runtime += struct.pack("<I", o)
    for o in bone_offs:
        runtime += struct.pack("<I", o)
    if m["version"] == 5:
        for bt in bone_tables:
            runtime += struct.pack("<64H", *(list(bt) + [0] * (64 - len(bt)))) + struct.pack("<B3x", len(bt))
    else:
        # version 6, laid out the way the library reads it (not verifiable offline: regression-only): a skipped word, the
        # count, the indices, and a padding word when the count is even
        for bt in bone_tables:
            runtime += struct.pack("<HH", 0, len(bt)) + struct.pack("<%dH" % len(bt), *bt) + (b"\0\0" if len(bt) % 2 == 0 else b"")
    for off, (start, count) in zip(shape_offs, shape_structs):
        runtime += struct.pack("<I3H3H", off, *start, *count)
    for sm in shape_meshes:
        runtime += struct.pack("<III", *sm)
    for (bi, ri) in shape_values:
        runtime += struct.pack("<HH", bi, ri)
    bone_map = m.get("submesh_bone_map", [])
    if m["version"] == 5:
        runtime += struct.pack("<I", 2 * len(bone_map))
    else:
        runtime += struct.pack("<H", 2 * len(bone_map))
    for x in bone_map:
        runtime += struct.pack("<H", x)
    pad = m.get("padding", 0)
    runtime += bytes([pad]) + bytes(m.get("padding_bytes", [0] * pad))[:pad].ljust(pad, b"\0")
    # four model bounding boxes and one per bone: 8 floats each, given as bit patterns (default 0)
    boxes = m.get("box_bits") or [0] * (32 + 8 * len(bone_offs))
    boxes = (list(boxes) + [0] * (32 + 8 * len(bone_offs)))[:32 + 8 * len(bone_offs)]
    runtime += struct.pack("<%dI" % len(boxes), *boxes)

    data_offset = 0x44 + len(decl_bytes) + len(runtime)
    data = bytearray()
    voff, ioff, vsize, isize = [0, 0, 0], [0, 0, 0], [0, 0, 0], [0, 0, 0]
    lod_recs = []
    mi = 0
    mesh_recs = []
    for li in range(3):
        if li >= lod_count:
            lod_recs.append(struct.pack("<HHff8HIII4xIIII", 0, 0, 0.0, 0.0, *([0] * 8), 0, 0, 0, 0, 0, 0, 0))
            continue
        lod = m["lods"][li]
        vstart = len(data)
        vb_off = 0
        for mesh in lod["meshes"]:
            offsets = [0, 0, 0]
            for s in range(mesh["streams"]):
                offsets[s] = vb_off
                buf = mesh["vdata"][s]
                assert len(buf) == mesh["vcount"] * mesh["strides"][s]
                data += buf
                vb_off += len(buf)
            mesh["_vb_offsets"] = offsets
        vlen = len(data) - vstart
        istart = len(data)
        nidx = 0
        for mesh in lod["meshes"]:
            # index ranges follow each other in mesh order, possibly with gaps (game files align some starts)
            assert mesh["start_index"] >= nidx, "index ranges of a LOD's meshes must not overlap"
            data += b"\0\0" * (mesh["start_index"] - nidx)
            data += struct.pack("<%dH" % len(mesh["indices"]), *mesh["indices"])
            nidx = mesh["start_index"] + len(mesh["indices"])
        ilen = index_pad(2 * nidx)
        data += b"\0" * (ilen - 2 * nidx)
        voff[li], vsize[li] = data_offset + vstart, vlen
        ioff[li], isize[li] = data_offset + istart, ilen
        lq = (list((oq.get("lods") or [[]] * 3)[li]) + [0] * 12)[:12]      # ranges (bit patterns), water / shadow / fog words, polygon count
        lod_recs.append(struct.pack("<HHII8HIII4xIIII", mi, len(lod["meshes"]), lq[0], lq[1], *[x & 0xFFFF for x in lq[2:10]], 0, ioff[li], lq[10],
                                    vlen, ilen, voff[li], ioff[li]))
        for mesh in lod["meshes"]:
            mesh_recs.append(struct.pack("<H2xIHHHHI3I3BB", mesh["vcount"], len(mesh["indices"]), mesh["material"],
                                         mesh["_submesh_index"], len(mesh["submeshes"]), mesh.get("bone_table", 0),
                                         mesh["start_index"], *mesh["_vb_offsets"], *mesh["strides"], mesh["streams"]))
            mi += 1
    runtime[lod_pos:lod_pos + 180] = b"".join(lod_recs)
    runtime[mesh_pos:mesh_pos + 36 * len(meshes)] = b"".join(mesh_recs)
    header = struct.pack("<IIIHH3I3I3I3IBBBx", version, len(decl_bytes), len(runtime), ndecl, len(mat_offs),
                         *voff, *ioff, *vsize, *isize, lod_count, 0, 0)
    assert len(header) == 0x44
    return header + bytes(decl_bytes) + bytes(runtime) + bytes(data)
