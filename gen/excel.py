"""Independent EXH / EXD writer from the public Excel format description (all big-endian)."""
import struct

WIDTH = {0: 4, 1: 1, 2: 1, 3: 1, 4: 2, 5: 2, 6: 4, 7: 4, 9: 4, 10: 8, 11: 8}
for _t in range(25, 33):
    WIDTH[_t] = 1
TAG = {0: "str", 1: "bool", 2: "i8", 3: "u8", 4: "i16", 5: "u16", 6: "i32", 7: "u32", 9: "f32", 10: "i64", 11: "u64"}
for _t in range(25, 33):
    TAG[_t] = "bool"
LANG = ["", "ja", "en", "de", "fr", "chs", "cht", "ko"]


def exh(data_offset, variant, columns, pages, langs, row_count):
    b = b"EXHF" + struct.pack(">HHHHH", 3, data_offset, len(columns), len(pages), len(langs))
    b += struct.pack(">HBBH", 0, 0, variant, 0) + struct.pack(">I", row_count) + b"\0" * 8
    for t, o in columns:
        b += struct.pack(">HH", t, o)
    for s, c in pages:
        b += struct.pack(">II", s, c)
    for l in langs:
        b += bytes([l, 0])
    return b


def record(data_offset, columns, cells, heap0=0):
    """cells: list of {"t": tag, "b": [bytes]} in column order; returns (fixed, heap)"""
    fixed = bytearray(data_offset)
    heap = bytearray()
    for (t, o), c in zip(columns, cells):
        v = bytes(c["b"])
        if t == 0:
            fixed[o:o + 4] = struct.pack(">I", heap0 + len(heap))
            heap += v + b"\0"
        elif 25 <= t <= 32:
            fixed[o] |= (v[0] & 1) << (t - 25)
        else:
            fixed[o:o + len(v)] = v
    return bytes(fixed), bytes(heap)


def exd(data_offset, variant, columns, rows):
    """rows: list of (id, [records]) ; record = list of cells"""
    bodies = []
    for rid, subs in rows:
        if variant == 2:
            # strings of sub-rows (layout as the library reads it - undocumented): one heap behind the last sub-row; a
            # string offset counts from the end of its own sub-row's fixed-size region
            total = len(subs) * (data_offset + 2)
            heap = b""
            body = b""
            for k, rec in enumerate(subs):
                base = k * (data_offset + 2) + 2 + data_offset
                f, h = record(data_offset, columns, rec, heap0=total + len(heap) - base)
                heap += h
                body += struct.pack(">H", k) + f
            body += heap
            bodies.append(struct.pack(">IH", len(body), len(subs)) + body)
        else:
            f, h = record(data_offset, columns, subs[0])
            bodies.append(struct.pack(">IH", len(f) + len(h), 1) + f + h)
    off = 32 + 8 * len(rows)
    index = b""
    for (rid, _), body in zip(rows, bodies):
        index += struct.pack(">II", rid, off)
        off += len(body)
    # header: version, unknown, index size, data section size, 16 reserved bytes
    return b"EXDF" + struct.pack(">HHII", 2, 0, len(index), sum(len(b) for b in bodies)) + b"\0" * 16 + index + b"".join(bodies)
