"""Independent ZiPatch encoder / decoder, written from the format description
used by XIVLauncher's patcher (12-byte magic, big-endian chunk size, 4-byte tag,
body, CRC-32; SQPK inner size + command byte; big-endian ids; 128-byte block
units; 16-byte data block headers with 128-byte alignment inside F/AddFile).

Abstract chunk (also the shape logged in events, data run-length encoded):
  {"k":"T","plat":0}  {"k":"A","main","sub","file","off","data":rle,"del"}
  {"k":"D"|"E","main","sub","file","off","n"}  {"k":"H","fk","hk","main","sub","file","data":rle}
  {"k":"FA","path":bytes,"off","data":rle,"blocks":[[comp,len],..]}  {"k":"FD","path"}  {"k":"FR","ex"}
  {"k":"FM","path"}  {"k":"X"} {"k":"I"} {"k":"ADIR","name"} {"k":"DELD","name"} {"k":"APLY","opt"}
  {"k":"FHDR","v"}  {"k":"EOF"}
"""
import struct
import zlib

MAGIC = b"\x91ZIPATCH\r\n\x1a\n"


# ---------------------------------------------------------------- run-length coding of contents
def rle(b):
    from itertools import groupby
    return [[k, sum(1 for _ in g)] for k, g in groupby(bytes(b))]


def unrle(r):
    return b"".join(bytes([x]) * n for x, n in r)


rle_fast = rle


# ---------------------------------------------------------------- encoder
def _chunk(tag, body):
    return struct.pack(">I", len(body)) + tag + body + struct.pack(">I", zlib.crc32(tag + body) & 0xFFFFFFFF)


def _sqpk(cmd, body):
    inner = struct.pack(">I", 5 + len(body)) + cmd + body
    return _chunk(b"SQPK", inner)


def _ids(c):
    return struct.pack(">HHI", c["main"], c["sub"], c["file"])


def raw_deflate(data, mode="dynamic"):
    if mode == "stored":
        co = zlib.compressobj(0, zlib.DEFLATED, -15)
    elif mode == "fixed":
        co = zlib.compressobj(9, zlib.DEFLATED, -15, 9, zlib.Z_FIXED)
    else:
        co = zlib.compressobj(9, zlib.DEFLATED, -15)
    return co.compress(data) + co.flush()


def data_block(data, comp):
    """one data block as embedded in F/AddFile: 16-byte header, payload, padded to 128.
    comp: False | "raw" -> raw; True | "dynamic" | "fixed" | "stored" -> raw deflate of that flavour."""
    if comp is True:
        comp = "dynamic"
    z = raw_deflate(data, comp) if comp and comp != "raw" else None
    if z is not None and len(z) < 32000:
        body = struct.pack("<IIii", 16, 0, len(z), len(data)) + z
    else:
        body = struct.pack("<IIii", 16, 0, 32000, len(data)) + data
    total = (len(body) - 16 + 143) & ~127
    return body + b"\0" * (total - len(body))


def encode_chunk(c):
    k = c["k"]
    if k == "FHDR":
        if c.get("v", 2) == 2:
            return _chunk(b"FHDR", b"\0\0\x02\0" + b"DIFF" + b"\0" * 8 + struct.pack(">I", 0x1234))
        return _chunk(b"FHDR", b"\0\0\x03\0" + b"DIFF" + struct.pack(">13I", *range(1, 14)) + b"\0" * 0xB8)
    if k == "APLY":
        return _chunk(b"APLY", struct.pack(">I", c.get("opt", 1)) + b"\0" * 4 + struct.pack(">I", c.get("val", 0)))
    if k in ("ADIR", "DELD"):
        name = bytes(c["name"])
        return _chunk(k.encode(), struct.pack(">I", len(name)) + name)
    if k == "EOF":
        return _chunk(b"EOF_", b"")
    if k == "T":
        return _sqpk(b"T", b"\0" * 3 + struct.pack(">HhHH", c["plat"], c.get("region", -1), 0, 0)
                     + struct.pack("<QQ", c.get("deleted", 0), c.get("seeks", 0)) + b"\0" * 96)
    if k == "X":
        return _sqpk(b"X", bytes([0, 1, 0]) + struct.pack(">Q", c.get("install", 123456789)))
    if k == "I":
        return _sqpk(b"I", b"A" + bytes([0, 0]) + struct.pack(">QII", c.get("hash", 0x1122334455667788), 3, 1) + b"\0" * 8)
    if k == "A":
        data = unrle(c["data"])
        assert len(data) % 128 == 0
        return _sqpk(b"A", b"\0" * 3 + _ids(c) + struct.pack(">III", c["off"], len(data) // 128, c["del"]) + data)
    if k in ("D", "E"):
        return _sqpk(k.encode(), b"\0" * 3 + _ids(c) + struct.pack(">II", c["off"], c["n"]) + b"\0" * 4)
    if k == "H":
        data = unrle(c["data"])
        assert len(data) == 1024
        return _sqpk(b"H", c["fk"].encode() + c["hk"].encode() + b"\0" + _ids(c) + data)
    if k in ("FA", "FD", "FR", "FM"):
        op = k[1].encode()
        path = bytes(c.get("path", b"")) + b"\0"
        data = unrle(c["data"]) if k == "FA" else b""
        blocks = b""
        if k == "FA":
            pos = 0
            for comp, ln in c["blocks"]:
                blocks += data_block(data[pos:pos + ln], comp)
                pos += ln
            assert pos == len(data)
        body = (op + b"\0\0" + struct.pack(">QQIH", c.get("off", 0), len(data), len(path), c.get("ex", 0))
                + b"\0\0" + path + blocks)
        return _sqpk(b"F", body)
    raise ValueError(k)


def encode_patch(chunks):
    return MAGIC + b"".join(encode_chunk(c) for c in chunks)


# ---------------------------------------------------------------- structure-driven decoder
class DecodeError(Exception):
    pass


def decode_patch(b):
    """Decodes a patch into abstract chunks by structure (not by the size
    fields, which the library's writer leaves 0).  Only the chunk kinds a
    creator may emit are needed here: F (A/D/M/R) and EOF; the others are
    decoded too for cross-checks of the encoder."""
    if b[1:8] != b"ZIPATCH" or len(b) < 12:
        raise DecodeError("magic")
    pos = 12
    out = []
    while True:
        if pos + 8 > len(b):
            raise DecodeError("truncated chunk header")
        tag = b[pos + 4:pos + 8]
        pos += 8
        if tag == b"EOF_":
            out.append({"k": "EOF"})
            return out, pos
        if tag == b"SQPK":
            cmd = b[pos + 4:pos + 5]
            pos += 5
            if cmd == b"F":
                op = b[pos:pos + 1].decode()
                off, size, plen, ex = struct.unpack(">QQIH", b[pos + 3:pos + 25])
                path = b[pos + 27:pos + 27 + plen].rstrip(b"\0")
                pos += 27 + plen
                if op == "A":
                    data = b""
                    blocks = []
                    while len(data) < size:
                        hsize, _, x, y = struct.unpack("<IIii", b[pos:pos + 16])
                        pos += 16
                        if x >= 32000:
                            data += b[pos:pos + y]
                            blocks.append([False, y])
                            pos += y + (((y + 143) & ~127) - hsize - y)
                        else:
                            clen = ((x + 143) & ~127) - hsize
                            data += zlib.decompress(b[pos:pos + clen], -15)
                            blocks.append([True, y])
                            pos += clen
                    out.append({"k": "FA", "path": list(path), "off": off, "data": rle_fast(data), "blocks": blocks})
                elif op == "D":
                    out.append({"k": "FD", "path": list(path)})
                elif op == "M":
                    out.append({"k": "FM", "path": list(path)})
                elif op == "R":
                    out.append({"k": "FR", "ex": ex})
                else:
                    raise DecodeError("file op " + op)
                pos += 4  # crc
            else:
                raise DecodeError("unexpected sqpk command %r from a creator" % cmd)
        else:
            raise DecodeError("unexpected chunk %r" % tag)
