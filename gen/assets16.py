"""Independent builders for the auxiliary assets of C16: SKLB + Havok binary tag file, PBD, CMP, TERA."""
import struct


# ---------------------------------------------------------------- Havok binary tag file (version 3)
def packed(n):
    neg = 1 if n < 0 else 0
    n = abs(n)
    first = ((n & 0x3F) << 1) | neg
    n >>= 6
    out = bytearray()
    if n:
        first |= 0x80
    out.append(first)
    while n:
        b = n & 0x7F
        n >>= 7
        if n:
            b |= 0x80
        out.append(b)
    return bytes(out)


class TagWriter:
    def __init__(self):
        self.out = bytearray(struct.pack("<II", 0xCAB00D1E, 0xD011FACE))
        self.strings = ["string", ""]
        self.out += packed(1) + packed(3)          # file info, version 3

    def string(self, s):
        if s in self.strings and s != "string":
            return packed(-self.strings.index(s))
        self.strings.append(s)
        b = s.encode()
        return packed(len(b)) + b

    def type(self, name, members, parent=0, version=0):
        """members: list of (name, type bits, class name or None)"""
        self.out += packed(2) + self.string(name) + packed(version) + packed(parent) + packed(len(members))
        for (mn, bits, cls) in members:
            self.out += self.string(mn) + packed(bits)
            if bits & 0x20:
                self.out += packed(0)
            if bits & 0x0F in (8, 9):
                self.out += self.string(cls)

    def bitfield(self, flags):
        out = bytearray((len(flags) + 7) // 8)
        for i, f in enumerate(flags):
            if f:
                out[i // 8] |= 1 << (i % 8)
        return bytes(out)

    def object(self, type_index, present, payload):
        self.out += packed(4) + packed(type_index) + self.bitfield(present) + payload

    def end(self):
        self.out += packed(7)
        return bytes(self.out)


INT, REAL, OBJECT, STRUCT, STRING, BYTE = 2, 3, 8, 9, 10, 1
VEC4, VEC8, VEC12, VEC16 = 4, 5, 6, 7
ARRAY = 0x10
TUPLE = 0x20


class TagFile:
    """A type table (with single inheritance) and remembered objects, written as a version-3 binary tag file.
    types: name -> (parent name or None, [(member name, bits, class name or None)]); objects: [(type name, {member: value})];
    a member missing from the dict is absent (presence bit off).  Values: ints, f32 bit patterns (REAL), str, object
    indices (OBJECT), lists (arrays), lists of bit patterns (VEC*), dicts (elements of struct arrays)."""

    def __init__(self, rng, pad_ints=0.0):
        self.w = TagWriter()
        self.rng = rng
        self.pad = pad_ints
        self.types = {}
        self.index = {}

    def pk(self, n):
        """packed integer, now and then with redundant zero groups (a reader must not care)"""
        e = bytearray(packed(n))
        if self.pad and self.rng.random() < self.pad:
            for _ in range(self.rng.randint(1, 2)):
                if len(e) < 5:            # a 32-bit reader shifts at most four continuation groups
                    e[-1] |= 0x80
                    e.append(0)
        return bytes(e)

    def string(self, s):
        w = self.w
        if s in w.strings and s != "string":
            return self.pk(-w.strings.index(s))
        w.strings.append(s)
        b = s.encode()
        return self.pk(len(b)) + b

    def flat(self, name):
        parent, members = self.types[name]
        return (self.flat(parent) if parent else []) + list(members)

    def declare(self, name, parent, members, version=0):
        self.types[name] = (parent, members)
        out = self.pk(2) + self.string(name) + self.pk(version) + self.pk(self.index[parent] if parent else 0) + self.pk(len(members))
        for (mn, bits, cls) in members:
            out += self.string(mn) + self.pk(bits)
            if bits & TUPLE:
                out += self.pk(3)
            if bits & 0x0F in (OBJECT, STRUCT):
                out += self.string(cls)
        self.index[name] = len(self.index) + 1
        self.w.out += out

    def array(self, base, cls, vals):
        if base == STRING:
            return b"".join(self.string(v) for v in vals)
        if base == OBJECT:
            return b"".join(self.pk(v) for v in vals)
        if base == BYTE:
            return bytes(vals)
        if base == INT:
            return self.pk(self.rng.choice([0, 4, 2])) + b"".join(self.pk(v) for v in vals)
        if base == REAL:
            return b"".join(struct.pack("<I", v) for v in vals)
        if base in (VEC4, VEC8, VEC12, VEC16):
            return b"".join(struct.pack("<%dI" % len(v), *v) for v in vals)
        if base == STRUCT:
            ms = self.flat(cls)
            present = [all(m[0] in v for v in vals) and len(vals) > 0 or (len(vals) == 0 and self.rng.random() < 0.5) for m in ms]
            out = self.w.bitfield(present)
            for m, pr in zip(ms, present):
                if pr:
                    out += self.array(m[1] & 0x0F, m[2], [v[m[0]] for v in vals])
            return out
        raise ValueError(base)

    def value(self, bits, cls, v):
        if bits & ARRAY:
            return self.pk(len(v)) + self.array(bits & 0x0F, cls, v)
        if bits == BYTE:
            return bytes([v])
        if bits == INT:
            return self.pk(v)
        if bits == REAL:
            return struct.pack("<I", v)
        if bits == STRING:
            return self.string(v)
        if bits == OBJECT:
            return self.pk(v)
        raise ValueError(bits)

    def object(self, tname, vals):
        ms = self.flat(tname)
        out = self.pk(4) + self.pk(self.index[tname]) + self.w.bitfield([m[0] in vals for m in ms])
        for m in ms:
            if m[0] in vals:
                out += self.value(m[1], m[2], vals[m[0]])
        self.w.out += out

    def end(self):
        self.w.out += self.pk(7)
        return bytes(self.w.out)


def skeleton_tagfile(skeletons, rng, rich=True, pad_ints=0.0):
    """skeletons: list of bone lists [(name, parent index, [12 f32 bit patterns])]; the first one is what a reader returns.
    rich: inheritance, unused types, extra present and absent members of every readable kind, decoy variants and objects."""
    f = TagFile(rng, pad_ints)
    r32 = lambda: rng.getrandbits(32)
    T = {"hkRootLevelContainerNamedVariant": (None, [("name", STRING, None), ("className", STRING, None), ("variant", OBJECT, "hkReferencedObject")]),
         "hkRootLevelContainer": (None, [("namedVariants", ARRAY | STRUCT, "hkRootLevelContainerNamedVariant")]),
         "hkaAnimationContainer": ("hkReferencedObject" if rich else None,
                                   [("skeletons", ARRAY | OBJECT, "hkaSkeleton"), ("animations", ARRAY | OBJECT, "hkaAnimation"),
                                    ("bindings", ARRAY | OBJECT, "hkaAnimationBinding"), ("attachments", ARRAY | OBJECT, "hkaBoneAttachment"),
                                    ("skins", ARRAY | OBJECT, "hkaMeshBinding")]),
         "hkaBone": (None, [("name", STRING, None), ("lockTranslation", BYTE, None)]),
         "hkaSkeleton": ("hkReferencedObject" if rich else None,
                         [("name", STRING, None), ("parentIndices", ARRAY | INT, None), ("bones", ARRAY | STRUCT, "hkaBone"),
                          ("referencePose", ARRAY | VEC12, None), ("referenceFloats", ARRAY | REAL, None), ("floatSlots", ARRAY | STRING, None)])}
    if rich:
        T["hkBaseObject"] = (None, [])
        T["hkReferencedObject"] = ("hkBaseObject", [("memSizeAndFlags", INT, None), ("referenceCount", INT, None)] if rng.random() < 0.6 else [])
        T["hkaSkeletonPartition"] = ("hkaPartitionBase" if rng.random() < 0.5 else None,
                                     [("name", STRING, None), ("startBoneIndex", INT, None), ("numBones", INT, None)])
        if T["hkaSkeletonPartition"][0]:
            deep = rng.random() < 0.5       # a third level: the column presence bits cover every inherited member
            T["hkaPartitionBase"] = ("hkaPartitionRoot" if deep else None, [("tag", BYTE, None), ("weight", REAL, None)])
            if deep:
                T["hkaPartitionRoot"] = (None, [("serial", INT, None)])
        T["hkaSkeleton"][1].extend([("partitions", ARRAY | STRUCT, "hkaSkeletonPartition"), ("bounds", ARRAY | VEC4, None),
                                     ("lodFlags", ARRAY | BYTE, None), ("tupleThing", TUPLE | INT, None), ("scaleHint", REAL, None),
                                     ("revision", INT, None), ("quality", BYTE, None), ("matrix", ARRAY | VEC16, None), ("pairs", ARRAY | VEC8, None)])
        T["hkaBone"][1].append(("unusedFlag", INT, None))
        # member counts around the byte boundaries of the presence bit field (7 / 8 / 9, 15 / 16 / 17): filler members
        for cls, target in (("hkaSkeleton", rng.choice([0, 16, 16, 17, 24])), ("hkaAnimationContainer", rng.choice([0, 8, 8, 9])),
                            ("hkaBone", rng.choice([0, 7, 8, 8, 9, 16]))):
            have = len(T[cls][1]) + (len(T["hkReferencedObject"][1]) if T[cls][0] == "hkReferencedObject" else 0)
            for k in range(max(0, target - have)):
                T[cls][1].append(("filler%d" % k, rng.choice([INT, BYTE, ARRAY | INT, ARRAY | REAL]), None))
        T["hkUnusedThing"] = (None, [("a", INT, None), ("b", ARRAY | STRING, None), ("c", OBJECT, "hkUnusedThing")])
    # emission order: any order in which a parent precedes its children
    names = list(T)
    rng.shuffle(names)
    done = []
    def emit(n):
        if n in done:
            return
        if T[n][0]:
            emit(T[n][0])
        f.declare(n, T[n][0], T[n][1], version=rng.choice([0, 1, 3]))
        done.append(n)
    for n in names:
        emit(n)

    def ref_fields():
        return {"memSizeAndFlags": rng.choice([0, -1, 70000, 63, 64]), "referenceCount": rng.randint(-3, 3)} \
            if rich and T["hkReferencedObject"][1] and rng.random() < 0.7 else {}
    # object numbering: 1 root, 2 container, 3.. skeletons, then decoys
    nsk = len(skeletons)
    ndecoy = rng.randint(0, 2) if rich else 0
    variants = [{"name": "Merged Animation Container", "className": "hkaAnimationContainer", "variant": 2}]
    if rich and rng.random() < 0.5:
        variants.insert(0, {"name": "Scene Data", "className": "hkxScene", "variant": 0})
    if ndecoy and rng.random() < 0.5:
        variants.append({"name": "Resource Data", "className": "hkMemoryResourceContainer", "variant": 3 + nsk})
    if ndecoy and rng.random() < 0.5:        # a second container variant: the first one wins
        variants.append({"name": "Other", "className": "hkaAnimationContainer", "variant": 3 + nsk})
    f.object("hkRootLevelContainer", {"namedVariants": variants})
    cont = {"skeletons": list(range(3, 3 + nsk))}
    cont.update(ref_fields())
    if rich and rng.random() < 0.5:
        cont["bindings"] = []
    if rich and rng.random() < 0.5:
        cont["animations"] = []
    f.object("hkaAnimationContainer", cont)
    for bones in skeletons:
        sk = {"name": rng.choice(["skeleton", "root", "n_root"]), "parentIndices": [b[1] for b in bones],
              "bones": [dict([("name", b[0])] + ([("lockTranslation", rng.randrange(2))] if rich else [])) for b in bones],
              "referencePose": [b[2] for b in bones]}
        if rich and rng.random() < 0.5:
            for b in sk["bones"]:
                b["unusedFlag"] = rng.choice([0, -5, 8191, 8192])
        if rich:
            sk.update(ref_fields())
            opt = {"referenceFloats": lambda: [r32() for _ in range(rng.randint(0, 3))],
                   "floatSlots": lambda: [rng.choice(["slotA", "slotB", "n_root", ""]) for _ in range(rng.randint(0, 3))],
                   "partitions": lambda: [dict([("name", "p%d" % k), ("startBoneIndex", rng.randint(0, 9)), ("numBones", rng.randint(0, 200))]
                                               + ([("tag", rng.randrange(256)), ("weight", r32())] if T["hkaSkeletonPartition"][0] else [])
                                               + ([("serial", rng.randint(-9, 9))] if "hkaPartitionRoot" in T else []))
                                          for k in range(rng.randint(0, 3))],
                   "bounds": lambda: [[r32() for _ in range(4)] for _ in range(rng.randint(0, 2))],
                   "lodFlags": lambda: [rng.randrange(256) for _ in range(rng.randint(0, 5))],
                   "scaleHint": r32, "revision": lambda: rng.choice([0, 1, -1, 63, 64, -64, 8191, 8192, 1048575, 1048576, 2**30 - 1, -(2**30 - 1)]),
                   "quality": lambda: rng.randrange(256),
                   "matrix": lambda: [[r32() for _ in range(16)] for _ in range(rng.randint(0, 2))],
                   "pairs": lambda: [[r32() for _ in range(8)] for _ in range(rng.randint(0, 2))]}
            for k, g in opt.items():
                if rng.random() < 0.5:
                    sk[k] = g()
        f.object("hkaSkeleton", sk)
    if rich:
        for k in range(ndecoy):
            f.object("hkUnusedThing", {"a": rng.randint(-100, 100), "b": ["x", "skeleton", "y%d" % k], "c": rng.randint(0, 2)})
    return f.end()


def sklb(version, tag, gap=b""):
    """version 1: 0x31323030 with 16-bit offsets; 2 / 3: 0x31333030 / 0x31333031 with 32-bit offsets.
    gap: bytes between the fixed header and the Havok payload (layer data in real files)"""
    if version == 1:
        hdr = struct.pack("<IIHHIIII", 0x736B6C62, 0x31323030, 28, 28 + len(gap), 101, 0, 0, 0)
        assert len(hdr) == 28
    else:
        hdr = struct.pack("<IIIIIIIII", 0x736B6C62, 0x31333030 if version == 2 else 0x31333031, 36, 36 + len(gap), 0, 101, 0, 0, 0)
        assert len(hdr) == 36
    return hdr + gap + tag


# ---------------------------------------------------------------- pre-bone deformer
def pbd(items, perm=None, name_order=None, slack=None):
    """items: list of dict(body_id, parent (item index or -1), bones [(name, [12 f32 bits])]).
    perm: item i is described by link perm[i] (default identity); parent / child / sibling fields are link indices."""
    n = len(items)
    perm = perm or list(range(n))
    children = {i: [j for j in range(n) if items[j]["parent"] == i] for i in range(-1, n)}
    head = 4 + 12 * n + 8 * n
    blobs, offs = [], []
    pos = head
    for it in items:
        nb = len(it["bones"])
        fixed = 4 + 2 * nb + (2 if nb % 2 else 0) + 48 * nb
        order = list(range(nb))
        if name_order:
            name_order(order)             # the heap need not be in bone order
        names = b""
        name_offs = [0] * nb
        for k in order:
            name_offs[k] = fixed + len(names)
            names += it["bones"][k][0].encode() + b"\0"
        blob = struct.pack("<i", nb) + b"".join(struct.pack("<H", o) for o in name_offs) + (b"\0\0" if nb % 2 else b"")
        blob += b"".join(struct.pack("<12I", *m) for (_, m) in it["bones"]) + names
        # records lie where their offsets say: with `slack` (a function item index -> 0..3 bytes) they follow each other's names
        # directly or after a few bytes, so that a record need not start on a 4-byte boundary (its own padding is relative to itself)
        blob += b"\0" * ((-len(blob)) % 4) if slack is None else b"\xAA" * slack(len(blobs))
        offs.append(pos)
        blobs.append(blob)
        pos += len(blob)
    out = struct.pack("<i", n)
    for i, it in enumerate(items):
        out += struct.pack("<HhiI", it["body_id"], perm[i], offs[i], 0)
    L = lambda i: -1 if i == -1 else perm[i]
    links = [None] * n
    for i, it in enumerate(items):
        sibs = children[it["parent"]]
        k = sibs.index(i)
        nxt = sibs[k + 1] if k + 1 < len(sibs) else -1
        first = children[i][0] if children[i] else -1
        links[perm[i]] = struct.pack("<hhhH", L(it["parent"]), L(first), L(nxt), i)
    return out + b"".join(links) + b"".join(blobs)


def cmp_tail(rows):
    return b"".join(struct.pack("<14I", *r) for r in rows)


def tera(plate_size, positions, clip_bits=0, unknown_bits=0x3F800000):
    return struct.pack("<IIIII", 0x1000003, len(positions), plate_size, clip_bits, unknown_bits) + b"\0" * 32 + b"".join(struct.pack("<hh", x, y) for x, y in positions)
