// C10: file-info tables and patch lists.  C12: SHA-1 through FileInfo::new.
use crate::util::*;
use crate::{State, guarded};
use physis::fiin::FileInfo;
use physis::patchlist::{PatchEntry, PatchList, PatchListType};
use serde_json::{Value, json};

/// content is given either literally or as the pattern the specification
/// regenerates itself: byte i = (a*i + b + i/251) mod 256
pub fn content_of(f: &Value) -> Vec<u8> {
    if let Some(p) = f.get("pattern") {
        let (n, a, b) = (geti(p, "n") as usize, geti(p, "a") as usize, geti(p, "b") as usize);
        (0..n).map(|i| ((a * i + b + i / 251) % 256) as u8).collect()
    } else {
        get_bytes(&f["content"])
    }
}

fn kind(cmd: &Value) -> PatchListType {
    if cmd["kind"] == "boot" {
        PatchListType::Boot
    } else {
        PatchListType::Game
    }
}

fn digits(v: &Value) -> String {
    get_str(v)
}

fn project_list(pl: &PatchList) -> Value {
    json!({
        "total": sbytes(&pl.patch_length.to_string()),
        "patches": pl.patches.iter().map(|p| json!({
            "length": sbytes(&p.length.to_string()),
            "size": sbytes(&p.size_on_disk.to_string()),
            "version": sbytes(&p.version),
            "hbs": sbytes(&p.hash_block_size.to_string()),
            "hashes": p.hashes.iter().map(|h| sbytes(h)).collect::<Vec<Value>>(),
            "url": sbytes(&p.url),
        })).collect::<Vec<Value>>()
    })
}

pub fn run(st: &mut State, op: &str, cmd: &Value) -> Value {
    match op {
        "meta.fiin" => {
            let mut dir = st.workdir.clone();
            dir.push(format!("fiin{}", geti(cmd, "case")));
            let _ = std::fs::remove_dir_all(&dir);
            std::fs::create_dir_all(&dir).unwrap();
            let mut paths = vec![];
            for f in cmd["files"].as_array().cloned().unwrap_or_default() {
                let mut p = dir.clone();
                p.push(get_str(&f["name"]));
                std::fs::write(&p, content_of(&f)).unwrap();
                paths.push(p.to_str().unwrap().to_string());
            }
            let refs: Vec<&str> = paths.iter().map(|s| s.as_str()).collect();
            let r = guarded(|| {
                let Some(fi) = FileInfo::new(&refs) else {
                    return fail();
                };
                let Some(table) = fi.write_to_buffer() else {
                    return fail();
                };
                let parsed = FileInfo::from_existing(&table);
                let pv = opt(parsed.as_ref(), |p| {
                    Value::Array(p.entries.iter().map(|e| json!({
                        "size": e.file_size, "name": sbytes(&e.file_name), "sha1": bytes(&e.sha1)
                    })).collect())
                });
                let rewritten = opt(parsed.and_then(|p| p.write_to_buffer()), |b| bytes(&b));
                value(json!({"table": bytes(&table), "parsed": pv, "rewritten": rewritten}))
            });
            let _ = std::fs::remove_dir_all(&dir);
            r
        }
        "meta.fiin.parse" => {
            let b = get_bytes(&cmd["bytes"]);
            guarded(|| {
                let parsed = FileInfo::from_existing(&b);
                value(opt(parsed, |p| {
                    json!({"entries": p.entries.iter().map(|e| json!({
                        "size": e.file_size, "name": sbytes(&e.file_name), "sha1": bytes(&e.sha1)
                    })).collect::<Vec<Value>>(),
                    "rewritten": opt(p.write_to_buffer(), |b| bytes(&b))})
                }))
            })
        }
        "meta.plist.render" => {
            let mut total: u64 = 0;
            let patches: Vec<PatchEntry> = cmd["patches"].as_array().cloned().unwrap_or_default().iter().map(|p| {
                let length: i64 = digits(&p["length"]).parse().unwrap_or(0);
                total = total.wrapping_add(length as u64);
                PatchEntry {
                    url: get_str(&p["url"]),
                    version: get_str(&p["version"]),
                    hash_block_size: digits(&p["hbs"]).parse().unwrap_or(0),
                    length,
                    size_on_disk: digits(&p["size"]).parse().unwrap_or(0),
                    hashes: p["hashes"].as_array().cloned().unwrap_or_default().iter().map(get_str).collect(),
                    unknown_a: digits(&p["a"]).parse().unwrap_or(0),
                    unknown_b: digits(&p["b"]).parse().unwrap_or(0),
                }
            }).collect();
            let pl = PatchList {
                id: get_str(&cmd["id"]),
                patch_length: total,
                content_location: get_str(&cmd["loc"]),
                requested_version: String::new(),
                patches,
            };
            let text = guarded(|| value(sbytes(&pl.to_string(kind(cmd)))));
            let parsed = if text["outcome"] == "value" {
                let t = get_str(&text["v"]);
                guarded(|| value(project_list(&PatchList::from_string(kind(cmd), &t))))
            } else {
                json!({"outcome": "skipped"})
            };
            json!({"text": text, "parsed": parsed})
        }
        "meta.plist.parse" => {
            let t = get_str(&cmd["text"]);
            guarded(|| value(project_list(&PatchList::from_string(kind(cmd), &t))))
        }
        _ => toolerror(&format!("unknown op {op}")),
    }
}
