// C03 / C04: ZiPatch::apply and ZiPatch::create on real directory trees.
use crate::util::*;
use crate::{State, guarded};
use physis::patch::ZiPatch;
use serde_json::{Value, json};
use std::path::{Path, PathBuf};

pub fn unrle(v: &Value) -> Vec<u8> {
    let mut out = vec![];
    for run in v.as_array().cloned().unwrap_or_default() {
        let b = run[0].as_u64().unwrap_or(0) as u8;
        let n = run[1].as_u64().unwrap_or(0) as usize;
        out.extend(std::iter::repeat_n(b, n));
    }
    out
}

pub fn rle(b: &[u8]) -> Value {
    let mut out: Vec<Value> = vec![];
    let mut i = 0;
    while i < b.len() {
        let mut j = i + 1;
        while j < b.len() && b[j] == b[i] {
            j += 1;
        }
        out.push(json!([b[i], j - i]));
        i = j;
    }
    Value::Array(out)
}

pub fn unhex(s: &str) -> Vec<u8> {
    (0..s.len() / 2)
        .map(|i| u8::from_str_radix(&s[2 * i..2 * i + 2], 16).unwrap_or(0))
        .collect()
}

pub fn hex(b: &[u8]) -> String {
    let mut s = String::with_capacity(b.len() * 2);
    for x in b {
        s.push_str(&format!("{x:02x}"));
    }
    s
}

pub fn materialize(root: &Path, tree: &Value) {
    std::fs::create_dir_all(root).unwrap();
    for d in tree["dirs"].as_array().cloned().unwrap_or_default() {
        let mut p = root.to_path_buf();
        p.push(get_str(&d));
        std::fs::create_dir_all(&p).unwrap();
    }
    for f in tree["files"].as_array().cloned().unwrap_or_default() {
        let mut p = root.to_path_buf();
        p.push(get_str(&f["p"]));
        if let Some(parent) = p.parent() {
            std::fs::create_dir_all(parent).unwrap();
        }
        std::fs::write(&p, unrle(&f["c"])).unwrap();
    }
}

fn walk(root: &Path, dir: &Path, dirs: &mut Vec<String>, files: &mut Vec<(String, Vec<u8>)>) {
    let Ok(rd) = std::fs::read_dir(dir) else {
        return;
    };
    for e in rd.flatten() {
        let p = e.path();
        let rel = p.strip_prefix(root).unwrap().to_str().unwrap().to_string();
        let Ok(md) = std::fs::symlink_metadata(&p) else {
            continue;
        };
        if md.is_dir() {
            dirs.push(rel);
            walk(root, &p, dirs, files);
        } else if md.is_file() {
            files.push((rel, std::fs::read(&p).unwrap_or_default()));
        }
    }
}

pub fn snapshot(root: &Path) -> Value {
    let (mut dirs, mut files) = (vec![], vec![]);
    walk(root, root, &mut dirs, &mut files);
    dirs.sort();
    files.sort();
    json!({
        "dirs": dirs.iter().map(|d| sbytes(d)).collect::<Vec<Value>>(),
        "files": files.iter().map(|(p, c)| json!({"p": sbytes(p), "c": rle(c)})).collect::<Vec<Value>>(),
    })
}

fn result_str(r: Result<(), physis::patch::PatchError>) -> Value {
    match r {
        Ok(()) => json!({"outcome": "value", "v": "ok"}),
        Err(e) => json!({"outcome": "value", "v": format!("err:{e:?}")}),
    }
}

pub fn casedir(st: &State, cmd: &Value, tag: &str) -> PathBuf {
    let mut d = st.workdir.clone();
    d.push(format!("{tag}{}", geti(cmd, "case")));
    let _ = std::fs::remove_dir_all(&d);
    std::fs::create_dir_all(&d).unwrap();
    d
}

pub fn run(st: &mut State, op: &str, cmd: &Value) -> Value {
    match op {
        "patch.apply" => {
            let base = casedir(st, cmd, "apply");
            let mut data = base.clone();
            data.push("data");
            materialize(&data, &cmd["tree0"]);
            let via = cmd["via"].as_str().unwrap_or("zipatch");
            let mut results = vec![];
            for (i, ph) in cmd["_patches"].as_array().cloned().unwrap_or_default().iter().enumerate() {
                let mut pf = base.clone();
                pf.push(format!("p{i}.patch"));
                std::fs::write(&pf, unhex(ph.as_str().unwrap_or(""))).unwrap();
                let (d, p) = (data.to_str().unwrap().to_string(), pf.to_str().unwrap().to_string());
                let r = guarded(|| match via {
                    "gamedata" => {
                        match physis::gamedata::GameData::from_existing(physis::common::Platform::Win32, &d) {
                            Some(g) => result_str(g.apply_patch(&p)),
                            None => json!({"outcome": "value", "v": "err:nohandle"}),
                        }
                    }
                    "bootdata" => match physis::bootdata::BootData::from_existing(&d) {
                        Some(b) => result_str(b.apply_patch(&p)),
                        None => json!({"outcome": "value", "v": "err:nohandle"}),
                    },
                    _ => result_str(ZiPatch::apply(&d, &p)),
                });
                let stop = r["outcome"] != "value" || r["v"] != "ok";
                results.push(r);
                if stop {
                    break;
                }
            }
            let tree1 = snapshot(&data);
            let _ = std::fs::remove_dir_all(&base);
            json!({"results": results, "tree1": tree1})
        }
        "patch.create" => {
            let base = casedir(st, cmd, "create");
            let (mut a, mut b, mut c) = (base.clone(), base.clone(), base.clone());
            a.push("old");
            b.push("new");
            c.push("copy");
            materialize(&a, &cmd["a"]);
            materialize(&b, &cmd["b"]);
            materialize(&c, &cmd["a"]);
            let (sa, sb) = (a.to_str().unwrap().to_string(), b.to_str().unwrap().to_string());
            let created = guarded(|| value(opt(ZiPatch::create(&sa, &sb), |p| json!(hex(&p)))));
            let (a1, b1) = (snapshot(&a), snapshot(&b));
            let mut applied = json!({"outcome": "skipped"});
            if created["outcome"] == "value" && created["v"]["some"] == true {
                let mut pf = base.clone();
                pf.push("created.patch");
                std::fs::write(&pf, unhex(created["v"]["v"].as_str().unwrap_or(""))).unwrap();
                let (d, p) = (c.to_str().unwrap().to_string(), pf.to_str().unwrap().to_string());
                applied = guarded(|| result_str(ZiPatch::apply(&d, &p)));
            }
            let c1 = snapshot(&c);
            let _ = std::fs::remove_dir_all(&base);
            json!({"created": created, "a1": a1, "b1": b1, "applied": applied, "c1": c1})
        }
        _ => toolerror(&format!("unknown op {op}")),
    }
}
