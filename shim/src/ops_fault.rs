// C17 / C18: one entry point on one (possibly damaged) input, in the isolated worker.
// Records outcome (value / fail / panic), peak and residual heap, wall time.
use crate::alloc;
use crate::ops_patch::{casedir, materialize, unhex};
use crate::util::*;
use crate::{State, guarded};
use serde_json::{Value, json};
use std::time::Instant;

fn some_or_fail<T>(o: Option<T>) -> &'static str {
    match o {
        Some(x) => {
            drop(x);
            "value"
        }
        None => "fail",
    }
}

fn call(st: &mut State, entry: &str, input: &[u8], cmd: &Value) -> &'static str {
    use physis::common::Platform;
    match entry {
        // ---- C17: user and launcher files
        "cfg" => some_or_fail(physis::cfg::ConfigFile::from_existing(input)),
        "exl" => some_or_fail(physis::exl::EXL::from_existing(input)),
        "fiin" => some_or_fail(physis::fiin::FileInfo::from_existing(input)),
        "chardat" => some_or_fail(physis::chardat::CharacterData::from_existing(input)),
        "gearsets" => some_or_fail(physis::gearsets::GearSets::from_existing(input)),
        "log" => some_or_fail(physis::log::ChatLog::from_existing(input)),
        "patchlist.boot" | "patchlist.game" => {
            let kind = || if entry.ends_with("boot") { physis::patchlist::PatchListType::Boot } else { physis::patchlist::PatchListType::Game };
            let text = String::from_utf8_lossy(input).to_string();
            let pl = physis::patchlist::PatchList::from_string(kind(), &text);
            let _ = pl.to_string(kind());
            "value"
        }
        "patch.apply" => {
            let base = casedir(st, cmd, "fpatch");
            let mut data = base.clone();
            data.push("data");
            materialize(&data, &cmd["tree0"]);
            if let Some(ro) = cmd["readonly_dir"].as_str() {
                let mut p = data.clone();
                p.push(ro);
                let _ = std::fs::create_dir_all(&p);
            }
            if let Some(fd) = cmd["full_device"].as_str() {
                // the target is a device without room: every write to it fails (ENOSPC)
                let mut p = data.clone();
                p.push(fd);
                if let Some(parent) = p.parent() {
                    let _ = std::fs::create_dir_all(parent);
                }
                let _ = std::os::unix::fs::symlink("/dev/full", &p);
            }
            let mut pf = base.clone();
            pf.push("p.patch");
            std::fs::write(&pf, input).unwrap();
            let r = physis::patch::ZiPatch::apply(data.to_str().unwrap(), pf.to_str().unwrap());
            let _ = std::fs::remove_dir_all(&base);
            match r {
                Ok(()) => "value",
                Err(_) => "fail",
            }
        }
        "bootdata" | "gamedata.open" | "frontier_url" | "index.open" | "dat.read" => {
            // path based entry points: the input is written to a file / laid out as a directory first
            let base = casedir(st, cmd, "fpath");
            let r = match (entry, cmd["path_fault"].as_str().unwrap_or("none")) {
                ("bootdata", pf) => {
                    let mut d = base.clone();
                    d.push("boot");
                    if pf != "missing" {
                        std::fs::create_dir_all(&d).unwrap();
                        if pf != "nover" {
                            let mut v = d.clone();
                            v.push("ffxivboot.ver");
                            std::fs::write(&v, input).unwrap();
                        }
                    }
                    some_or_fail(physis::bootdata::BootData::from_existing(d.to_str().unwrap()))
                }
                ("frontier_url", pf) => {
                    let mut f = base.clone();
                    f.push("launcher.exe");
                    if pf == "directory" {
                        std::fs::create_dir_all(&f).unwrap();
                    } else if pf != "missing" {
                        std::fs::write(&f, input).unwrap();
                    }
                    some_or_fail(physis::execlookup::extract_frontier_url(f.to_str().unwrap()))
                }
                ("index.open", pf) => {
                    let mut f = base.clone();
                    f.push("000000.win32.index");
                    if pf != "missing" {
                        std::fs::write(&f, input).unwrap();
                    }
                    match physis::sqpack::SqPackIndex::from_existing(f.to_str().unwrap()) {
                        Some(ix) => {
                            // and the lookups a handle makes on it: two stored paths, an absent one
                            for p in ["exd/root.exl", "exd/a.exh", "exd/none.exh", "bg/x/y.lgb"] {
                                let _ = ix.exists(p);
                                let _ = ix.find_entry(p);
                            }
                            "value"
                        }
                        None => "fail",
                    }
                }
                ("dat.read", pf) => {
                    let mut f = base.clone();
                    f.push("000000.win32.dat0");
                    if pf != "missing" {
                        std::fs::write(&f, input).unwrap();
                    }
                    match physis::sqpack::SqPackData::from_existing(f.to_str().unwrap()) {
                        Some(mut d) => some_or_fail(d.read_from_offset(geti(cmd, "off") as u64)),
                        None => "fail",
                    }
                }
                _ => {
                    // gamedata.open: a directory tree given as _fs, then exists / extract on the listed paths
                    let mut g = base.clone();
                    g.push("game");
                    std::fs::create_dir_all(&g).unwrap();
                    crate::ops_archive::write_fs(&g, &cmd["_fs"]);
                    match physis::gamedata::GameData::from_existing(Platform::Win32, g.to_str().unwrap()) {
                        Some(mut gd) => {
                            let mut any = false;
                            for p in cmd["paths"].as_array().cloned().unwrap_or_default() {
                                let p = get_str(&p);
                                any |= gd.exists(&p);
                                any |= gd.extract(&p).is_some();
                                any |= gd.find_offset(&p).is_some();
                            }
                            if any { "value" } else { "fail" }
                        }
                        None => "fail",
                    }
                }
            };
            let _ = std::fs::remove_dir_all(&base);
            r
        }
        // ---- C18: game assets
        "mdl" => some_or_fail(physis::model::MDL::from_existing(input)),
        "mtrl" => some_or_fail(physis::mtrl::Material::from_existing(input)),
        "shpk" => match physis::shpk::ShaderPackage::from_existing(input) {
            Some(s) => {
                for sel in [0u32, 1, 0xFFFFFFFF, 0x12345678] {
                    let _ = s.find_node(sel);
                }
                // and the selectors the undamaged package carries (nodes and aliases)
                for sel in cmd["selectors"].as_array().cloned().unwrap_or_default() {
                    let _ = s.find_node(get_w32(&sel));
                }
                "value"
            }
            None => "fail",
        },
        "tex" => some_or_fail(physis::tex::Texture::from_existing(input)),
        "exh" => some_or_fail(physis::exh::EXH::from_existing(input)),
        "exd" => {
            // the damaged data file is read with its (valid) header: every listed id and a few more
            let Some(exh) = physis::exh::EXH::from_existing(&unhex(cmd["_exh"].as_str().unwrap_or(""))) else {
                return "toolerror";
            };
            match physis::exd::EXD::from_existing(input) {
                Some(d) => {
                    let mut any = false;
                    for id in cmd["ids"].as_array().cloned().unwrap_or_default() {
                        any |= d.read_row(&exh, id.as_u64().unwrap_or(0) as u32).is_some();
                    }
                    if any { "value" } else { "fail" }
                }
                None => "fail",
            }
        }
        "sklb" => some_or_fail(physis::skeleton::Skeleton::from_existing(input)),
        "pbd" => match physis::pbd::PreBoneDeformer::from_existing(input) {
            Some(p) => {
                let ids = [101u16, 201, 301, 401, 501, 601, 701, 9999, 0];
                for a in ids {
                    for b in ids {
                        let _ = p.get_deform_matrices(a, b);
                    }
                }
                "value"
            }
            None => "fail",
        },
        "cmp" => some_or_fail(physis::cmp::CMP::from_existing(input)),
        "tera" => some_or_fail(physis::tera::Terrain::from_existing(input)),
        "stm" => some_or_fail(physis::stm::StainingTemplate::from_existing(input)),
        "dic" => some_or_fail(physis::dic::Dictionary::from_existing(input)),
        "lgb" => some_or_fail(physis::layer::LayerGroup::from_existing(input)),
        "avfx" => some_or_fail(physis::avfx::Avfx::from_existing(input)),
        "uld" => some_or_fail(physis::uld::Uld::from_existing(input)),
        "sgb" => some_or_fail(physis::sgb::Sgb::from_existing(input)),
        "scd" => some_or_fail(physis::scd::Scd::from_existing(input)),
        "hwc" => some_or_fail(physis::hwc::Hwc::from_existing(input)),
        "iwc" => some_or_fail(physis::iwc::Iwc::from_existing(input)),
        "tmb" => some_or_fail(physis::tmb::Tmb::from_existing(input)),
        "skp" => some_or_fail(physis::skp::Skp::from_existing(input)),
        "schd" => some_or_fail(physis::schd::Schd::from_existing(input)),
        "phyb" => some_or_fail(physis::phyb::Phyb::from_existing(input)),
        "pap" => some_or_fail(physis::pap::Pap::from_existing(input)),
        "sqdb" => some_or_fail(physis::sqpack::SqPackDatabase::from_existing(input)),
        _ => "toolerror",
    }
}

pub fn run(st: &mut State, op: &str, cmd: &Value) -> Value {
    if op != "fault.run" {
        return toolerror(&format!("unknown op {op}"));
    }
    let entry = cmd["entry"].as_str().unwrap_or("").to_string();
    let input = unhex(cmd["_hex"].as_str().unwrap_or(""));
    // zlib-rs allocates its inflate state with libc's allocator directly (not through #[global_allocator]), so the
    // residual is taken from malloc's own accounting, which covers both
    let in_use = || unsafe { libc::mallinfo2().uordblks };
    let live0 = alloc::live();
    let m0 = in_use();
    alloc::reset_peak();
    let t0 = Instant::now();
    // nothing is allocated by the shim between the call and the measurements (the outcome is a static string)
    let out = std::panic::catch_unwind(std::panic::AssertUnwindSafe(|| call(st, &entry, &input, cmd)));
    let ms = t0.elapsed().as_millis() as u64;
    let peak = alloc::peak().saturating_sub(live0);
    let residual = alloc::live().saturating_sub(live0).max(in_use().saturating_sub(m0));
    let mut r = match out {
        Ok(code) => json!({"outcome": code}),
        Err(_) => guarded(|| std::panic::resume_unwind(Box::new(()))),
    };
    if let Some(o) = r.as_object_mut() {
        o.insert("ms".into(), json!(ms));
        o.insert("peak".into(), json!(peak.min(i32::MAX as usize)));
        o.insert("residual".into(), json!(residual.min(i32::MAX as usize)));
        if let Some(m) = o.get("msg").and_then(|m| m.as_str()).map(|s| s.to_string()) {
            // message with numbers normalised: part of the abstract signature of a finding
            let norm: String = m.chars().map(|c| if c.is_ascii_digit() { 'N' } else { c }).collect();
            let mut out = String::new();
            for c in norm.chars() {
                if !(c == 'N' && out.ends_with('N')) {
                    out.push(c);
                }
            }
            o.insert("sigmsg".into(), json!(out.chars().take(80).collect::<String>()));
        }
        if let Some(site) = o.get("site").and_then(|m| m.as_str()).map(|s| s.to_string()) {
            let file = site.split(':').next().unwrap_or("").rsplit("/src/").next().unwrap_or("").to_string();
            o.insert("sigfile".into(), json!(file));
        }
    }
    r
}
