// Isolated execution for C17 / C18: a supervisor feeds script lines to a child
// process; a case that kills the child (abort, stack overflow, out of memory,
// watchdog) is recorded as such and the child is restarted.
use serde_json::{Value, json};
use std::io::{BufRead, BufReader, BufWriter, Write};
use std::process::{Child, ChildStdin, ChildStdout, Command, Stdio};
use std::sync::mpsc;
use std::time::{Duration, Instant};

const CASE_TIMEOUT: Duration = Duration::from_secs(8);

pub fn main() {
    // child: one JSON command per line on stdin, one JSON event per line on stdout
    unsafe {
        // 4 GiB address space: a runaway allocation fails instead of taking the machine down
        let lim = libc::rlimit { rlim_cur: 4 << 30, rlim_max: 4 << 30 };
        libc::setrlimit(libc::RLIMIT_AS, &lim);
        // no single file above 512 MiB (a damaged patch can ask for terabytes of zeroes): the write fails like a
        // full disk would (EFBIG) instead of filling the sandbox
        let fl = libc::rlimit { rlim_cur: 512 << 20, rlim_max: 512 << 20 };
        libc::setrlimit(libc::RLIMIT_FSIZE, &fl);
        libc::signal(libc::SIGXFSZ, libc::SIG_IGN);
    }
    crate::install_panic_hook();
    let mut st = crate::State::new();
    let stdin = std::io::stdin();
    let stdout = std::io::stdout();
    let mut out = stdout.lock();
    for line in stdin.lock().lines() {
        let Ok(line) = line else { break };
        if line.trim().is_empty() {
            continue;
        }
        let cmd: Value = serde_json::from_str(&line).unwrap_or(json!({"op": "bad"}));
        let res = crate::dispatch(&mut st, &cmd);
        let _ = writeln!(out, "{}", res);
        let _ = out.flush();
    }
}

struct Worker {
    child: Child,
    stdin: ChildStdin,
    rx: mpsc::Receiver<Option<String>>,
}

fn spawn() -> Worker {
    let exe = std::env::current_exe().unwrap();
    let mut child = Command::new(exe).arg("worker").stdin(Stdio::piped()).stdout(Stdio::piped())
        .stderr(Stdio::null()).spawn().expect("cannot spawn worker");
    let stdin = child.stdin.take().unwrap();
    let stdout: ChildStdout = child.stdout.take().unwrap();
    let (tx, rx) = mpsc::channel();
    std::thread::spawn(move || {
        let rd = BufReader::new(stdout);
        for line in rd.lines() {
            match line {
                Ok(l) => {
                    if tx.send(Some(l)).is_err() {
                        return;
                    }
                }
                Err(_) => break,
            }
        }
        let _ = tx.send(None);
    });
    Worker { child, stdin, rx }
}

fn cleanup(pid: u32) {
    let mut d = std::env::temp_dir();
    d.push(format!("physis-shim-{pid}"));
    let _ = std::fs::remove_dir_all(&d);
}

fn strip(cmd: &mut Value, res: Value) {
    if let Some(o) = cmd.as_object_mut() {
        o.retain(|k, _| !k.starts_with('_'));
        o.insert("res".to_string(), res);
    }
}

pub fn supervise(script: &str, events: &str) {
    let rd = BufReader::new(std::fs::File::open(script).expect("script"));
    let mut wr = BufWriter::new(std::fs::File::create(events).expect("events"));
    let mut w = spawn();
    for line in rd.lines() {
        let line = line.unwrap();
        if line.trim().is_empty() {
            continue;
        }
        let mut cmd: Value = serde_json::from_str(&line).expect("bad script line");
        let t0 = Instant::now();
        let sent = writeln!(w.stdin, "{}", line).and_then(|_| w.stdin.flush());
        let res = if sent.is_err() {
            None
        } else {
            match w.rx.recv_timeout(CASE_TIMEOUT) {
                Ok(Some(l)) => serde_json::from_str::<Value>(&l).ok(),
                Ok(None) => None,                 // child died
                Err(_) => {
                    let pid = w.child.id();
                    let _ = w.child.kill();
                    let _ = w.child.wait();
                    cleanup(pid);
                    strip(&mut cmd, json!({"outcome": "hang", "ms": t0.elapsed().as_millis() as u64, "peak": 0, "residual": 0}));
                    writeln!(wr, "{}", cmd).unwrap();
                    w = spawn();
                    continue;
                }
            }
        };
        match res {
            Some(r) => {
                strip(&mut cmd, r);
            }
            None => {
                let pid = w.child.id();
                let status = w.child.wait().ok();
                cleanup(pid);
                let sig = status.and_then(|s| {
                    use std::os::unix::process::ExitStatusExt;
                    s.signal()
                }).unwrap_or(0);
                strip(&mut cmd, json!({"outcome": "crash", "signal": sig, "ms": t0.elapsed().as_millis() as u64, "peak": 0, "residual": 0}));
                w = spawn();
            }
        }
        writeln!(wr, "{}", cmd).unwrap();
    }
    wr.flush().unwrap();
    let pid = w.child.id();
    let _ = w.child.kill();
    let _ = w.child.wait();
    cleanup(pid);
}
