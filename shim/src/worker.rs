pub fn main() {
    eprintln!("worker: not built yet");
    std::process::exit(2);
}
pub fn supervise(_script: &str, _events: &str) {
    eprintln!("supervise: not built yet");
    std::process::exit(2);
}
