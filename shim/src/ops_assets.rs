use crate::State;
use crate::util::*;
use serde_json::Value;

pub fn run(_st: &mut State, op: &str, _cmd: &Value) -> Value {
    toolerror(&format!("unknown op {op}"))
}
