// C14 / C16: materials, shader packages and the auxiliary asset decoders.
use crate::State;
use crate::guarded;
use crate::util::*;
use serde_json::{Value, json};

/// Fields that the library keeps private are read from the Debug rendering (numbers only).
fn debug_numbers(s: &str) -> Vec<String> {
    let mut out = vec![];
    let mut cur = String::new();
    for c in s.chars() {
        if c.is_ascii_digit() || c == '.' || c == '-' || c == 'e' || c == 'E' || c == '+' {
            cur.push(c);
        } else {
            if cur.chars().any(|x| x.is_ascii_digit()) && !cur.starts_with('e') && !cur.starts_with('E') {
                out.push(cur.clone());
            }
            cur.clear();
        }
    }
    if cur.chars().any(|x| x.is_ascii_digit()) {
        out.push(cur);
    }
    out
}

/// The numbers of one named field of a Debug rendering (`name: 12`, `name: [1.0, 2.0]`), so that the projection does not
/// depend on the order or number of the struct's fields.
fn debug_field(d: &str, name: &str) -> Vec<String> {
    let pat = format!("{name}: ");
    let mut from = 0;
    while let Some(i) = d[from..].find(&pat) {
        let at = from + i;
        let boundary = at == 0 || !d[..at].chars().last().map(|c| c.is_alphanumeric() || c == '_').unwrap_or(false);
        if boundary {
            let rest = &d[at + pat.len()..];
            let end = if rest.starts_with('[') {
                rest.find(']').map(|e| e + 1).unwrap_or(rest.len())
            } else {
                rest.find([',', '}', '\n']).unwrap_or(rest.len())
            };
            return debug_numbers(&rest[..end]);
        }
        from = at + pat.len();
    }
    vec![]
}

fn num<T: std::str::FromStr + Default>(v: &[String], i: usize) -> T {
    v.get(i).and_then(|x| x.parse().ok()).unwrap_or_default()
}

fn half_slot(f: f32) -> Value {
    f32bits(f)
}

fn int_slot(n: u32) -> Value {
    w32(n)
}

fn mtrl(b: &[u8]) -> Value {
    use physis::mtrl::*;
    let Some(m) = Material::from_existing(b) else { return none(); };
    let table = match &m.color_table {
        None => json!({"k": "none"}),
        Some(ColorTable::LegacyColorTable(t)) => json!({"k": "legacy", "rows": t.rows.iter().map(|r| {
            let mut v = vec![];
            for x in r.diffuse_color { v.push(half_slot(x)); }
            v.push(half_slot(r.specular_strength));
            for x in r.specular_color { v.push(half_slot(x)); }
            v.push(half_slot(r.gloss_strength));
            for x in r.emissive_color { v.push(half_slot(x)); }
            v.push(int_slot(r.tile_set as u32));
            for x in r.material_repeat { v.push(half_slot(x)); }
            for x in r.material_skew { v.push(half_slot(x)); }
            Value::Array(v)
        }).collect::<Vec<Value>>()}),
        Some(ColorTable::DawntrailColorTable(t)) => json!({"k": "dawntrail", "rows": t.rows.iter().map(|r| {
            let mut v = vec![];
            for x in r.diffuse_color { v.push(half_slot(x)); }
            v.push(half_slot(r.unknown1));
            for x in r.specular_color { v.push(half_slot(x)); }
            v.push(half_slot(r.unknown2));
            for x in r.emissive_color { v.push(half_slot(x)); }
            for x in [r.unknown3, r.sheen_rate, r.sheen_tint, r.sheen_aperture, r.unknown4, r.roughness, r.unknown5, r.metalness,
                      r.anisotropy, r.unknown6, r.sphere_mask, r.unknown7, r.unknown8] { v.push(half_slot(x)); }
            v.push(int_slot(r.shader_index as u32));
            v.push(int_slot(r.tile_set as u32));
            v.push(half_slot(r.tile_alpha));
            v.push(int_slot(r.sphere_index as u32));
            for x in r.material_repeat { v.push(half_slot(x)); }
            for x in r.material_skew { v.push(half_slot(x)); }
            Value::Array(v)
        }).collect::<Vec<Value>>()}),
        Some(ColorTable::OpaqueColorTable(_)) => json!({"k": "opaque"}),
    };
    let dye = match &m.color_dye_table {
        None => json!({"k": "none"}),
        Some(ColorDyeTable::LegacyColorDyeTable(t)) => json!({"k": "legacy", "rows": t.rows.iter().map(|r| {
            json!([r.template, r.diffuse, r.specular, r.emissive, r.gloss, r.specular_strength])
        }).collect::<Vec<Value>>()}),
        Some(ColorDyeTable::DawntrailColorDyeTable(t)) => json!({"k": "dawntrail", "rows": t.rows.iter().map(|r| {
            json!([r.template, r.channel, r.diffuse, r.specular, r.emissive, r.scalar3, r.metalness, r.roughness, r.sheen_rate,
                   r.sheen_tint_rate, r.sheen_aperture, r.anisotropy, r.sphere_map_index, r.sphere_map_mask])
        }).collect::<Vec<Value>>()}),
        Some(ColorDyeTable::OpaqueColorDyeTable(_)) => json!({"k": "opaque"}),
    };
    // Constant { id, num_values, values: [f32; 4] } and Sampler { texture_usage, flags, texture_index, .. } are private
    let constants: Vec<Value> = m.constants.iter().map(|c| {
        let d = format!("{c:?}");
        let id: u32 = num(&debug_field(&d, "id"), 0);
        let nv: u32 = num(&debug_field(&d, "num_values"), 0);
        let v = debug_field(&d, "values");
        let vals: Vec<Value> = (0..4).map(|i| f32bits(num::<f32>(&v, i))).collect();
        json!({"id": w32(id), "n": nv, "values": vals})
    }).collect();
    let samplers: Vec<Value> = m.samplers.iter().map(|s| {
        let d = format!("{s:?}");
        let usage = d.split("texture_usage: ").nth(1).and_then(|x| x.split(',').next()).unwrap_or("").to_string();
        json!({"usage": usage, "flags": w32(num(&debug_field(&d, "flags"), 0)), "texture": num::<u32>(&debug_field(&d, "texture_index"), 0)})
    }).collect();
    some(json!({"shpk": sbytes(&m.shader_package_name),
                "textures": m.texture_paths.iter().map(|t| sbytes(t)).collect::<Vec<Value>>(),
                "keys": m.shader_keys.iter().map(|k| json!([w32(k.category), w32(k.value)])).collect::<Vec<Value>>(),
                "constants": constants, "samplers": samplers, "table": table, "dye": dye}))
}

fn shpk(b: &[u8], selectors: &Value) -> Value {
    use physis::shpk::*;
    let Some(p) = ShaderPackage::from_existing(b) else { return none(); };
    let params = |v: &Vec<ResourceParameter>| -> Value {
        Value::Array(v.iter().map(|r| json!({"name": sbytes(&r.name), "slot": r.slot})).collect())
    };
    let shader = |s: &Shader| -> Value {
        json!({"scalar": params(&s.scalar_parameters), "resource": params(&s.resource_parameters), "uav": params(&s.uav_parameters),
               "texture": params(&s.texture_parameters), "extra": bytes(&s.additional_data), "code": bytes(&s.bytecode)})
    };
    let keys = |v: &Vec<Key>| -> Value { Value::Array(v.iter().map(|k| json!([w32(k.id), w32(k.default_value)])).collect()) };
    let node = |n: &Node| -> Value {
        json!({"selector": w32(n.selector), "pass_indices": n.pass_indices.to_vec(),
               "sys": n.system_keys.iter().map(|x| w32(*x)).collect::<Vec<Value>>(),
               "scene": n.scene_keys.iter().map(|x| w32(*x)).collect::<Vec<Value>>(),
               "mat": n.material_keys.iter().map(|x| w32(*x)).collect::<Vec<Value>>(),
               "sub": n.subview_keys.iter().map(|x| w32(*x)).collect::<Vec<Value>>(),
               "passes": n.passes.iter().map(|ps| {
                   let d = format!("{ps:?}");
                   json!([w32(num(&debug_field(&d, "id"), 0)), w32(num(&debug_field(&d, "vertex_shader"), 0)), w32(num(&debug_field(&d, "pixel_shader"), 0))])
               }).collect::<Vec<Value>>()})
    };
    let found: Vec<Value> = selectors.as_array().cloned().unwrap_or_default().iter().map(|s| {
        let sel = get_w32(s);
        opt(p.find_node(sel), |n| w32(n.selector))
    }).collect();
    some(json!({"vs": p.vertex_shaders.iter().map(shader).collect::<Vec<Value>>(),
                "ps": p.pixel_shaders.iter().map(shader).collect::<Vec<Value>>(),
                "mat_params": p.material_parameters.iter().map(|m| {
                    let d = format!("{m:?}");
                    json!([w32(num(&debug_field(&d, "id"), 0)), num::<u32>(&debug_field(&d, "byte_offset"), 0), num::<u32>(&debug_field(&d, "byte_size"), 0)])
                }).collect::<Vec<Value>>(),
                "mat_params_size": p.material_parameters_size,
                "sys_keys": keys(&p.system_keys), "scene_keys": keys(&p.scene_keys), "mat_keys": keys(&p.material_keys),
                "sub": [w32(p.sub_view_key1_default), w32(p.sub_view_key2_default)],
                "nodes": p.nodes.iter().map(node).collect::<Vec<Value>>(), "found": found}))
}

pub fn run(_st: &mut State, op: &str, cmd: &Value) -> Value {
    match op {
        "assets.mtrl" => {
            let b = get_bytes(&cmd["bytes"]);
            guarded(|| value(mtrl(&b)))
        }
        "assets.shpk" => {
            let b = get_bytes(&cmd["bytes"]);
            guarded(|| value(shpk(&b, &cmd["selectors"])))
        }
        "assets.selector" => {
            use physis::shpk::ShaderPackage;
            let lists: Vec<Vec<u32>> = cmd["lists"].as_array().cloned().unwrap_or_default().iter()
                .map(|l| l.as_array().cloned().unwrap_or_default().iter().map(get_w32).collect()).collect();
            guarded(|| {
                let single: Vec<Value> = lists.iter().map(|l| w32(ShaderPackage::build_selector(l))).collect();
                let all = if lists.len() >= 4 {
                    w32(ShaderPackage::build_selector_from_all_keys(&lists[0], &lists[1], &lists[2], &lists[3]))
                } else { w32(0) };
                let from_keys = if lists.len() >= 4 {
                    let s: Vec<u32> = lists.iter().map(|l| ShaderPackage::build_selector(l)).collect();
                    w32(ShaderPackage::build_selector_from_keys(s[0], s[1], s[2], s[3]))
                } else { w32(0) };
                value(json!({"single": single, "all": all, "from_keys": from_keys}))
            })
        }
        "assets.sklb" => {
            let b = get_bytes(&cmd["bytes"]);
            guarded(|| value(opt(physis::skeleton::Skeleton::from_existing(&b), |s| {
                Value::Array(s.bones.iter().map(|x| json!({
                    "name": sbytes(&x.name), "parent": x.parent_index,
                    "pos": x.position.iter().map(|f| f32bits(*f)).collect::<Vec<Value>>(),
                    "rot": x.rotation.iter().map(|f| f32bits(*f)).collect::<Vec<Value>>(),
                    "scale": x.scale.iter().map(|f| f32bits(*f)).collect::<Vec<Value>>()})).collect())
            })))
        }
        "assets.pbd" => {
            let b = get_bytes(&cmd["bytes"]);
            guarded(|| value(opt(physis::pbd::PreBoneDeformer::from_existing(&b), |p| {
                Value::Array(cmd["queries"].as_array().cloned().unwrap_or_default().iter().map(|q| {
                    let (f, t) = (q[0].as_u64().unwrap_or(0) as u16, q[1].as_u64().unwrap_or(0) as u16);
                    guarded(|| value(opt(p.get_deform_matrices(f, t), |m| {
                        Value::Array(m.bones.iter().map(|x| json!({"name": sbytes(&x.name),
                            "m": x.deform.iter().map(|f| f32bits(*f)).collect::<Vec<Value>>()})).collect())
                    })))
                }).collect())
            })))
        }
        "assets.cmp" => {
            // the table sits behind a fixed offset: the file is `prefix` filler bytes followed by the logged tail
            let mut b = vec![0xA5u8; geti(cmd, "prefix") as usize];
            b.extend(get_bytes(&cmd["tail"]));
            guarded(|| value(opt(physis::cmp::CMP::from_existing(&b), |c| {
                Value::Array(c.parameters.iter().map(|r| {
                    let f = [r.male_min_size, r.male_max_size, r.male_min_tail, r.male_max_tail, r.female_min_size, r.female_max_size,
                             r.female_min_tail, r.female_max_tail, r.bust_min_x, r.bust_min_y, r.bust_min_z, r.bust_max_x, r.bust_max_y, r.bust_max_z];
                    Value::Array(f.iter().map(|x| f32bits(*x)).collect())
                }).collect())
            })))
        }
        "assets.tera" => {
            let b = get_bytes(&cmd["bytes"]);
            let plates = |t: &physis::tera::Terrain| -> Value {
                Value::Array(t.plates.iter().map(|p| json!({"x": f32bits(p.position.0), "y": f32bits(p.position.1), "file": sbytes(&p.filename)})).collect())
            };
            guarded(|| {
                let t = physis::tera::Terrain::from_existing(&b);
                let parsed = opt(t.as_ref(), |t| plates(t));
                let written = opt(t.as_ref().and_then(|t| t.write_to_buffer()), |w| bytes(&w));
                let reparsed = if written["some"] == true {
                    opt(physis::tera::Terrain::from_existing(&get_bytes(&written["v"])), |t| plates(&t))
                } else { none() };
                value(json!({"parsed": parsed, "written": written, "reparsed": reparsed}))
            })
        }
        "assets.lgb" => {
            use physis::layer::{LayerChunk, LayerGroup};
            let g = LayerGroup { file_id: get_w32(&cmd["file_id"]), chunks: vec![LayerChunk {
                chunk_id: get_w32(&cmd["chunk_id"]), layer_group_id: get_w32(&cmd["group"]) as i32, name: get_str(&cmd["name"]), layers: Vec::new() }] };
            guarded(|| {
                let w = g.write_to_buffer();
                let re = w.as_ref().and_then(|b| LayerGroup::from_existing(b));
                value(json!({"written": opt(w, |b| bytes(&b)),
                             "reparsed": opt(re, |r| json!({"file_id": w32(r.file_id), "chunks": r.chunks.iter().map(|c| json!({
                                 "chunk_id": w32(c.chunk_id), "group": w32(c.layer_group_id as u32), "name": sbytes(&c.name), "layers": c.layers.len()})).collect::<Vec<Value>>()}))}))
            })
        }
        "assets.lgbread" => {
            // beyond the list: a layer group with layers and instance objects
            use physis::layer::{LayerEntryData, LayerGroup};
            let b = crate::ops_patch::unhex(cmd["_hex"].as_str().unwrap_or(""));
            guarded(|| {
                value(opt(LayerGroup::from_existing(&b), |g| {
                    json!({"file_id": w32(g.file_id), "chunks": g.chunks.iter().map(|c| json!({
                        "chunk_id": w32(c.chunk_id), "group": w32(c.layer_group_id as u32), "name": sbytes(&c.name),
                        "layers": c.layers.iter().map(|l| {
                            // the layer header's type is private: its fields are read from the Debug rendering by name
                            let d = format!("{:?}", l);
                            let d = d.split(", objects: [").next().unwrap_or("").to_string();
                            let f = |n: &str| -> String { d.split(&format!("{n}: ")).nth(1).map(|r| r.chars().take_while(|c| *c != ',' && *c != ' ' && *c != '}').collect()).unwrap_or_default() };
                            let num = |n: &str| -> u64 { f(n).parse::<u64>().unwrap_or(u64::MAX) };
                            let name = d.split("value: \"").nth(1).map(|r| r.split('"').next().unwrap_or("")).unwrap_or("").to_string();
                            json!({
                            "id": w32(num("layer_id") as u32), "name": sbytes(&name),
                            "flags": [f("tool_mode_visible") == "true", f("tool_mode_read_only") == "true", f("is_bush_layer") == "true", f("ps3_visible") == "true"],
                            "festival": [num("festival_id"), num("festival_phase_id")], "temporary": num("is_temporary"), "housing": num("is_housing"), "mask": num("version_mask"),
                            "objects": l.objects.iter().map(|o| { let t = &o.transform; json!({
                                "id": w32(o.instance_id), "name": sbytes(&o.name),
                                "transform": t.translation.iter().chain(t.rotation.iter()).chain(t.scale.iter()).map(|f| f32bits(*f)).collect::<Vec<Value>>(),
                                "data": match &o.data {
                                    LayerEntryData::PositionMarker(m) => json!({"k": "marker", "kind": format!("{:?}", m.position_marker_type),
                                                                                "w": [w32(m.comment_jp_offset), w32(m.comment_en_offset)]}),
                                    LayerEntryData::PopRange(p) => json!({"k": "pop", "kind": format!("{:?}", p.pop_type),
                                                                          "w": [f32bits(p.inner_radius_ratio)], "index": p.index,
                                                                          "rel": debug_numbers(&format!("{:?}", p.relative_positions))}),
                                    LayerEntryData::BG(x) => json!({"k": "bg", "collision": format!("{:?}", x.collision_type),
                                                                    "flags": [x.is_visible, x.render_shadow_enabled, x.render_light_shadow_enabeld],
                                                                    "w": [w32(x.asset_path_string_offset), w32(x.collision_asset_path_string_offset), w32(x.attribute_mask),
                                                                          w32(x.attribute), w32(x.collision_config as u32), f32bits(x.render_model_clip_range)]}),
                                    LayerEntryData::SharedGroup(x) => json!({"k": "shared", "door": format!("{:?}", x.initial_door_state),
                                                                             "rotation": format!("{:?}", x.initial_rotation_state),
                                                                             "flags": [x.random_timeline_auto_play, x.random_timeline_loop_playback,
                                                                                       x.collision_controllable_without_eobj, x.not_create_navimesh_door],
                                                                             "transform": format!("{:?}", x.initial_transform_state), "colour": format!("{:?}", x.initial_color_state),
                                                                             "w": [w32(x.asset_path_offset), w32(x.overriden_members as u32), w32(x.overriden_members_count as u32),
                                                                                   w32(x.bound_client_path_instance_id), w32(x.move_path_settings as u32)]}),
                                    LayerEntryData::EnvSet(x) => json!({"k": "env", "shape": format!("{:?}", x.shape), "flag": x.is_env_map_shooting_point,
                                                                        "priority": x.priority,
                                                                        "w": [w32(x.asset_path_offset), w32(x.bound_instance_id), f32bits(x.effective_range),
                                                                              w32(x.interpolation_time as u32), f32bits(x.reverb), f32bits(x.filter), w32(x.sound_asset_path_offset)]}),
                                    LayerEntryData::ExitRange(x) => json!({"k": "exit", "shape": format!("{:?}", x.parent_data.trigger_box_shape),
                                                                           "priority": x.parent_data.priority, "enabled": x.parent_data.enabled,
                                                                           "kind": format!("{:?}", x.exit_type), "zone": x.zone_id, "territory": x.territory_type,
                                                                           "w": [w32(x.index as u32), w32(x.destination_instance_id), w32(x.return_instance_id),
                                                                                 f32bits(x.player_running_direction)]}),
                                    other => json!({"k": "other", "debug": format!("{:?}", other).chars().take(40).collect::<String>()}),
                                }}) }).collect::<Vec<Value>>()}) }).collect::<Vec<Value>>()})).collect::<Vec<Value>>()})
                }))
            })
        }
        "assets.dic" => {
            // beyond the list: the word dictionary; words as UTF-16 code units
            let b = crate::ops_patch::unhex(cmd["_hex"].as_str().unwrap_or(""));
            guarded(|| {
                value(opt(physis::dic::Dictionary::from_existing(&b), |d| {
                    Value::Array(d.words.iter().map(|w| Value::Array(w.encode_utf16().map(Value::from).collect())).collect())
                }))
            })
        }
        "assets.log" => {
            // beyond the list: the chat log; enum values by their Debug names, messages as bytes
            let b = crate::ops_patch::unhex(cmd["_hex"].as_str().unwrap_or(""));
            guarded(|| {
                value(opt(physis::log::ChatLog::from_existing(&b), |l| {
                    Value::Array(l.entries.iter().map(|e| json!({"filter": format!("{:?}", e.filter), "channel": format!("{:?}", e.channel),
                                                                 "message": sbytes(&e.message)})).collect())
                }))
            })
        }
        _ => toolerror(&format!("unknown op {op}")),
    }
}
