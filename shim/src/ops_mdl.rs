use crate::State;
use crate::util::*;
use serde_json::Value;

#[derive(Default)]
pub struct MdlState {}

pub fn run(_st: &mut State, op: &str, _cmd: &Value) -> Value {
    toolerror(&format!("unknown op {op}"))
}
