// C06 / C07: model parsing, editing and writing.
use crate::util::*;
use crate::{State, guarded};
use physis::model::{MDL, NewShapeValue, Vertex};
use serde_json::{Value, json};
use std::collections::HashMap;

#[derive(Default)]
pub struct MdlState {
    pub models: HashMap<i64, MDL>,
}

fn fw(x: f32) -> Value {
    w32(x.to_bits())
}

fn vertex(v: &Vertex) -> Value {
    let mut f = vec![];
    for x in v.position.iter().chain(v.uv0.iter()).chain(v.uv1.iter()).chain(v.normal.iter())
        .chain(v.bitangent.iter()).chain(v.color.iter()).chain(v.bone_weight.iter()) {
        f.push(fw(*x));
    }
    json!({"f": f, "bi": v.bone_id.to_vec()})
}

fn get_vertex(v: &Value) -> Vertex {
    let f: Vec<f32> = v["f"].as_array().unwrap().iter().map(|w| f32::from_bits(get_w32(w))).collect();
    let bi = get_bytes(&v["bi"]);
    Vertex {
        position: [f[0], f[1], f[2]],
        uv0: [f[3], f[4]],
        uv1: [f[5], f[6]],
        normal: [f[7], f[8], f[9]],
        bitangent: [f[10], f[11], f[12], f[13]],
        color: [f[14], f[15], f[16], f[17]],
        bone_weight: [f[18], f[19], f[20], f[21]],
        bone_id: [bi[0], bi[1], bi[2], bi[3]],
    }
}

pub fn project(m: &MDL, with_vertices: bool) -> Value {
    let lods: Vec<Value> = m.lods.iter().map(|l| {
        json!({"parts": l.parts.iter().map(|p| json!({
            "nv": p.vertices.len(),
            "vertices": if with_vertices { Value::Array(p.vertices.iter().map(vertex).collect()) } else { json!([]) },
            "indices": p.indices,
            "material": p.material_index,
            "subs": p.submeshes.iter().map(|s| json!([s.index_count, s.index_offset])).collect::<Vec<Value>>(),
            "shapes": p.shapes.iter().map(|s| sbytes(&s.name)).collect::<Vec<Value>>(),
            "streams": p.vertex_streams.iter().map(|s| bytes(s)).collect::<Vec<Value>>(),
            "strides": p.vertex_stream_strides,
        })).collect::<Vec<Value>>()})
    }).collect();
    json!({"lods": lods,
           "materials": m.material_names.iter().map(|s| sbytes(s)).collect::<Vec<Value>>(),
           "bones": m.affected_bone_names.iter().map(|s| sbytes(s)).collect::<Vec<Value>>()})
}

fn input_bytes(cmd: &Value) -> Vec<u8> {
    if let Some(h) = cmd.get("_hex") {
        crate::ops_patch::unhex(h.as_str().unwrap_or(""))
    } else if let Some(p) = cmd.get("_file") {
        std::fs::read(p.as_str().unwrap_or("")).unwrap_or_default()
    } else {
        get_bytes(&cmd["bytes"])
    }
}

/// write the handle's model, log the bytes and what parsing them gives
fn same_vertex(a: &Vertex, b: &Vertex) -> bool {
    let fa: Vec<u32> = a.position.iter().chain(a.uv0.iter()).chain(a.uv1.iter()).chain(a.normal.iter())
        .chain(a.bitangent.iter()).chain(a.color.iter()).chain(a.bone_weight.iter()).map(|x| x.to_bits()).collect();
    let fb: Vec<u32> = b.position.iter().chain(b.uv0.iter()).chain(b.uv1.iter()).chain(b.normal.iter())
        .chain(b.bitangent.iter()).chain(b.color.iter()).chain(b.bone_weight.iter()).map(|x| x.to_bits()).collect();
    fa == fb && a.bone_id == b.bone_id
}

/// Writes the handle's model; logs the bytes (only the first `head` bytes + the length for big files) and what
/// parsing them gives.  For big geometry the only comparison the shim ever makes is this bit-exact echo test:
/// the re-parsed vertices of (lod, part) equal the ones that were passed in.
fn write_and_reparse(m: &MDL, echo: Option<(usize, usize, &[Vertex])>) -> Value {
    let mut raw: Vec<u8> = vec![];
    let w = guarded(|| {
        let b = m.write_to_buffer();
        let v = opt(b.as_ref(), |b| json!(b.len()));
        raw = b.unwrap_or_default();
        value(v)
    });
    if w["outcome"] != "value" || w["v"]["some"] != true {
        return json!({"written": w, "reparsed": {"outcome": "skipped"}});
    }
    let big = raw.len() > 70000;
    let head = if big { raw.len().min(20000) } else { raw.len() };
    let wl = json!({"outcome": "value", "v": {"some": true, "v": bytes(&raw[..head]), "len": raw.len()}});
    let mut echo_same = json!({"some": false});
    let r = guarded(|| {
        let m2 = MDL::from_existing(&raw);
        if let (Some(m2), Some((lod, part, verts))) = (m2.as_ref(), echo) {
            let ok = m2.lods.get(lod).and_then(|l| l.parts.get(part)).map(|p| {
                p.vertices.len() == verts.len() && p.vertices.iter().zip(verts.iter()).all(|(a, b)| same_vertex(a, b))
            }).unwrap_or(false);
            echo_same = json!({"some": true, "v": ok});
        }
        value(opt(m2, |m2| project(&m2, !big)))
    });
    json!({"written": wl, "reparsed": r, "echo_same": echo_same})
}

pub fn run(st: &mut State, op: &str, cmd: &Value) -> Value {
    let h = geti(cmd, "h");
    match op {
        "mdl.parse" => {
            let b = input_bytes(cmd);
            guarded(|| value(opt(MDL::from_existing(&b), |m| project(&m, true))))
        }
        "mdl.open" => {
            let b = input_bytes(cmd);
            st.mdl.models.remove(&h);
            let mut parsed = None;
            let r = guarded(|| {
                let m = MDL::from_existing(&b);
                let v = opt(m.as_ref(), |m| project(m, true));
                parsed = m;
                value(v)
            });
            if let Some(m) = parsed {
                st.mdl.models.insert(h, m);
            }
            r
        }
        "mdl.write" => {
            let Some(m) = st.mdl.models.get(&h) else { return json!({"outcome": "nohandle"}); };
            write_and_reparse(m, None)
        }
        "mdl.replace" => {
            let Some(m) = st.mdl.models.get_mut(&h) else { return json!({"outcome": "nohandle"}); };
            let (lod, part) = (geti(cmd, "lod") as usize, geti(cmd, "part") as usize);
            let verts: Vec<Vertex> = if let Some(t) = cmd.get("_template") {
                // big geometry: nv vertices cycling through the template
                let t: Vec<Vertex> = t.as_array().cloned().unwrap_or_default().iter().map(get_vertex).collect();
                (0..geti(cmd, "nv") as usize).map(|i| t[i % t.len()]).collect()
            } else {
                cmd["vertices"].as_array().cloned().unwrap_or_default().iter().map(get_vertex).collect()
            };
            let idx: Vec<u16> = cmd["indices"].as_array().cloned().unwrap_or_default().iter().map(|x| x.as_u64().unwrap_or(0) as u16).collect();
            let e = guarded(|| {
                // the caller's SubMesh values may come from any part of the model (they are only carriers of the ranges)
                let mut subs = match cmd.get("subs_from") {
                    Some(f) => m.lods[f[0].as_u64().unwrap_or(0) as usize].parts[f[1].as_u64().unwrap_or(0) as usize].submeshes.clone(),
                    None => m.lods[lod].parts[part].submeshes.clone(),
                };
                for (i, s) in cmd["subs"].as_array().cloned().unwrap_or_default().iter().enumerate() {
                    if i < subs.len() {
                        subs[i].index_count = s[0].as_u64().unwrap_or(0) as u32;
                        subs[i].index_offset = s[1].as_u64().unwrap_or(0) as u32;
                    }
                }
                m.replace_vertices(lod, part, &verts, &idx, &subs);
                value(json!(true))
            });
            let mut r = if cmd.get("_template").is_some() {
                write_and_reparse(m, Some((lod, part, &verts)))
            } else {
                write_and_reparse(m, None)
            };
            r["edit"] = e;
            r
        }
        "mdl.remove_shapes" => {
            let Some(m) = st.mdl.models.get_mut(&h) else { return json!({"outcome": "nohandle"}); };
            let e = guarded(|| {
                m.remove_shape_meshes();
                value(json!(true))
            });
            let mut r = write_and_reparse(m, None);
            r["edit"] = e;
            r
        }
        "mdl.add_shape" => {
            let Some(m) = st.mdl.models.get_mut(&h) else { return json!({"outcome": "nohandle"}); };
            let vals: Vec<NewShapeValue> = cmd["values"].as_array().cloned().unwrap_or_default().iter().map(|v| NewShapeValue {
                base_index: v["base"].as_u64().unwrap_or(0) as u32,
                replacing_vertex: get_vertex(&v["vertex"]),
            }).collect();
            let e = guarded(|| {
                m.add_shape_mesh(geti(cmd, "lod") as usize, geti(cmd, "shape") as usize, geti(cmd, "shape_mesh") as usize,
                                 geti(cmd, "part") as usize, &vals);
                value(json!(true))
            });
            let mut r = write_and_reparse(m, None);
            r["edit"] = e;
            r
        }
        _ => toolerror(&format!("unknown op {op}")),
    }
}
