// C11-C13: pure codecs (hashes, cipher, textures).
use crate::util::*;
use crate::{State, guarded};
use serde_json::{Value, json};

pub fn run(_st: &mut State, op: &str, cmd: &Value) -> Value {
    match op {
        "codec.hash" => {
            // an empty index file of the first kind (from the script), to ask for the two-part key of a path
            let index1 = cmd["_index1"].as_str().and_then(|h| {
                let mut p = std::env::temp_dir();
                p.push(format!("physis-shim-hash-{}.index", std::process::id()));
                std::fs::write(&p, crate::ops_patch::unhex(h)).ok()?;
                let i = physis::sqpack::SqPackIndex::from_existing(p.to_str()?);
                let _ = std::fs::remove_file(&p);
                i
            });
            let mut out = vec![];
            for s in cmd["ss"].as_array().cloned().unwrap_or_default() {
                let b = get_bytes(&s);
                let Ok(text) = String::from_utf8(b) else {
                    out.push(json!({"outcome": "notutf8"}));
                    continue;
                };
                out.push(guarded(|| {
                    let mut v = json!({
                        "partial": w32(physis::sqpack::SqPackIndex::calculate_partial_hash(&text)),
                        "shcrc": w32(physis::shpk::ShaderPackage::crc(&text)),
                    });
                    if let (Some(ix), true) = (index1.as_ref(), text.contains('/')) {
                        if let physis::sqpack::Hash::SplitPath { name, path } = ix.calculate_hash(&text) {
                            v["split"] = json!([w32(name), w32(path)]);
                        }
                    }
                    value(v)
                }));
            }
            Value::Array(out)
        }
        "codec.blowfish" => {
            // one key, many messages: ciphertext and the decryption of the ciphertext
            let key = get_bytes(&cmd["key"]);
            let msgs = cmd["msgs"].as_array().cloned().unwrap_or_default();
            guarded(|| {
                let bf = physis::blowfish::Blowfish::new(&key);
                let mut out = vec![];
                for m in &msgs {
                    let m = get_bytes(m);
                    let enc = bf.encrypt(&m);
                    let dec = enc.as_ref().and_then(|e| bf.decrypt(e));
                    out.push(json!({"enc": opt(enc, |e| bytes(&e)), "dec": opt(dec, |d| bytes(&d))}));
                }
                value(Value::Array(out))
            })
        }
        "codec.tex" => {
            let b = if cmd.get("_hex").is_some() {
                crate::ops_patch::unhex(cmd["_hex"].as_str().unwrap_or(""))
            } else {
                get_bytes(&cmd["bytes"])
            };
            guarded(|| {
                value(opt(physis::tex::Texture::from_existing(&b), |t| {
                    json!({"w": t.width, "h": t.height, "d": t.depth,
                           "three_d": matches!(t.texture_type, physis::tex::TextureType::ThreeDimensional),
                           "rgba": bytes(&t.rgba)})
                }))
            })
        }
        "codec.blowfish.tables" => {
            #[cfg(physis_verif)]
            {
                let (p, s) = physis::blowfish::Blowfish::verif_initial_tables();
                value(json!({"p": p.iter().map(|x| w32(*x)).collect::<Vec<Value>>(),
                             "s": s.iter().map(|b| Value::Array(b.iter().map(|x| w32(*x)).collect())).collect::<Vec<Value>>()}))
            }
            #[cfg(not(physis_verif))]
            {
                json!({"outcome": "nohook"})
            }
        }
        _ => toolerror(&format!("unknown op {op}")),
    }
}
