// C11-C13: pure codecs (hashes, cipher, textures).
use crate::util::*;
use crate::{State, guarded};
use serde_json::{Value, json};

pub fn run(_st: &mut State, op: &str, cmd: &Value) -> Value {
    match op {
        "codec.hash" => {
            let mut out = vec![];
            for s in cmd["ss"].as_array().cloned().unwrap_or_default() {
                let b = get_bytes(&s);
                let Ok(text) = String::from_utf8(b) else {
                    out.push(json!({"outcome": "notutf8"}));
                    continue;
                };
                out.push(guarded(|| {
                    value(json!({
                        "partial": w32(physis::sqpack::SqPackIndex::calculate_partial_hash(&text)),
                        "shcrc": w32(physis::shpk::ShaderPackage::crc(&text)),
                    }))
                }));
            }
            Value::Array(out)
        }
        _ => toolerror(&format!("unknown op {op}")),
    }
}
