// C05: EXH / EXD decoding, directly and through a GameData handle.
use crate::util::*;
use crate::{State, guarded};
use physis::common::Language;
use physis::exd::{ColumnData, EXD, ExcelRow};
use physis::exh::EXH;
use serde_json::{Value, json};

fn cell(c: &ColumnData) -> Value {
    match c {
        ColumnData::String(s) => json!({"t": "str", "b": s.chars().map(|c| c as u32).collect::<Vec<u32>>()}),
        ColumnData::Bool(b) => json!({"t": "bool", "b": [*b as u8]}),
        ColumnData::Int8(v) => json!({"t": "i8", "b": bytes(&v.to_be_bytes())}),
        ColumnData::UInt8(v) => json!({"t": "u8", "b": bytes(&v.to_be_bytes())}),
        ColumnData::Int16(v) => json!({"t": "i16", "b": bytes(&v.to_be_bytes())}),
        ColumnData::UInt16(v) => json!({"t": "u16", "b": bytes(&v.to_be_bytes())}),
        ColumnData::Int32(v) => json!({"t": "i32", "b": bytes(&v.to_be_bytes())}),
        ColumnData::UInt32(v) => json!({"t": "u32", "b": bytes(&v.to_be_bytes())}),
        ColumnData::Float32(v) => json!({"t": "f32", "b": bytes(&v.to_bits().to_be_bytes())}),
        ColumnData::Int64(v) => json!({"t": "i64", "b": bytes(&v.to_be_bytes())}),
        ColumnData::UInt64(v) => json!({"t": "u64", "b": bytes(&v.to_be_bytes())}),
    }
}

fn rows(r: &[ExcelRow]) -> Value {
    Value::Array(r.iter().map(|x| Value::Array(x.data.iter().map(cell).collect())).collect())
}

pub fn project_exh(h: &EXH) -> Value {
    json!({
        "data_offset": h.header.data_offset,
        "row_count": h.header.row_count,
        "columns": h.column_definitions.iter().map(|c| json!([c.data_type.clone() as u16, c.offset])).collect::<Vec<Value>>(),
        "pages": h.pages.iter().map(|p| json!([p.start_id, p.row_count])).collect::<Vec<Value>>(),
        "nlangs": h.languages.len(),
        "lang1": h.languages.first().map(|l| *l as i64).unwrap_or(-1),
    })
}

fn language(i: i64) -> Language {
    match i {
        1 => Language::Japanese,
        2 => Language::English,
        3 => Language::German,
        4 => Language::French,
        5 => Language::ChineseSimplified,
        6 => Language::ChineseTraditional,
        7 => Language::Korean,
        _ => Language::None,
    }
}

fn read_ids(exd: &EXD, exh: &EXH, ids: &Value) -> Value {
    let mut out = vec![];
    for id in ids.as_array().cloned().unwrap_or_default() {
        let id = id.as_u64().unwrap_or(0) as u32;
        out.push(json!({"id": id, "res": guarded(|| value(opt(exd.read_row(exh, id), |r| rows(&r))))}));
    }
    Value::Array(out)
}

pub fn run(st: &mut State, op: &str, cmd: &Value) -> Value {
    match op {
        "excel.read" => {
            let (hb, db) = (get_bytes(&cmd["exh"]), get_bytes(&cmd["exd"]));
            let mut exh = None;
            let hres = guarded(|| {
                let h = EXH::from_existing(&hb);
                let v = opt(h.as_ref(), project_exh);
                exh = h;
                value(v)
            });
            let Some(exh) = exh else {
                return json!({"exh": hres, "rows": []});
            };
            let mut exd = None;
            let dres = guarded(|| {
                let d = EXD::from_existing(&db);
                let ok = d.is_some();
                exd = d;
                value(json!(ok))
            });
            let rows = match &exd {
                Some(d) => read_ids(d, &exh, &cmd["ids"]),
                None => json!([]),
            };
            json!({"exh": hres, "exd": dres, "rows": rows})
        }
        "excel.sheet" => {
            let h = geti(cmd, "h");
            let Some(g) = st.archive.handles.get_mut(&h) else {
                return json!({"outcome": "nohandle"});
            };
            let name = get_str(&cmd["name"]);
            let names = guarded(|| {
                value(opt(g.get_all_sheet_names(), |n| {
                    Value::Array(n.iter().map(|s| sbytes(s)).collect())
                }))
            });
            let mut exh = None;
            let header = guarded(|| {
                let hd = g.read_excel_sheet_header(&name);
                let v = opt(hd.as_ref(), project_exh);
                exh = hd;
                value(v)
            });
            let mut page = json!({"outcome": "skipped"});
            if let Some(exh) = &exh {
                let pi = geti(cmd, "page") as usize;
                if pi < exh.pages.len() {
                    page = guarded(|| {
                        let d = g.read_excel_sheet(&name, exh, language(geti(cmd, "lang")), pi);
                        value(opt(d, |d| read_ids(&d, exh, &cmd["ids"])))
                    });
                }
            }
            let fname = guarded(|| {
                let p = physis::exh::ExcelDataPagination { start_id: geti(cmd, "start") as u32, row_count: 0 };
                value(sbytes(&EXD::calculate_filename(&name, language(geti(cmd, "lang")), &p)))
            });
            json!({"names": names, "header": header, "page": page, "fname": fname})
        }
        _ => toolerror(&format!("unknown op {op}")),
    }
}
