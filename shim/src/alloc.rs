// Counting global allocator: live / peak bytes, used by the isolated worker
// (C17/C18).  zlib-rs allocates through the Rust allocator because Physis
// enables its `rust-allocator` feature, so inflate state is counted too.
use std::alloc::{GlobalAlloc, Layout, System};
use std::sync::atomic::{AtomicUsize, Ordering};

pub struct Counting;

pub static LIVE: AtomicUsize = AtomicUsize::new(0);
pub static PEAK: AtomicUsize = AtomicUsize::new(0);

unsafe impl GlobalAlloc for Counting {
    unsafe fn alloc(&self, l: Layout) -> *mut u8 {
        let p = unsafe { System.alloc(l) };
        if !p.is_null() {
            let live = LIVE.fetch_add(l.size(), Ordering::Relaxed) + l.size();
            PEAK.fetch_max(live, Ordering::Relaxed);
        }
        p
    }
    unsafe fn dealloc(&self, p: *mut u8, l: Layout) {
        unsafe { System.dealloc(p, l) };
        LIVE.fetch_sub(l.size(), Ordering::Relaxed);
    }
    unsafe fn alloc_zeroed(&self, l: Layout) -> *mut u8 {
        let p = unsafe { System.alloc_zeroed(l) };
        if !p.is_null() {
            let live = LIVE.fetch_add(l.size(), Ordering::Relaxed) + l.size();
            PEAK.fetch_max(live, Ordering::Relaxed);
        }
        p
    }
    unsafe fn realloc(&self, p: *mut u8, l: Layout, new: usize) -> *mut u8 {
        let q = unsafe { System.realloc(p, l, new) };
        if !q.is_null() {
            if new >= l.size() {
                let live = LIVE.fetch_add(new - l.size(), Ordering::Relaxed) + (new - l.size());
                PEAK.fetch_max(live, Ordering::Relaxed);
            } else {
                LIVE.fetch_sub(l.size() - new, Ordering::Relaxed);
            }
        }
        q
    }
}

pub fn live() -> usize {
    LIVE.load(Ordering::Relaxed)
}
pub fn reset_peak() {
    PEAK.store(LIVE.load(Ordering::Relaxed), Ordering::Relaxed);
}
pub fn peak() -> usize {
    PEAK.load(Ordering::Relaxed)
}
