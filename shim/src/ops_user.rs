// C09: character presets and gear-set files.
use crate::ops_patch::unrle;
use crate::util::*;
use crate::{State, guarded};
use physis::chardat::{CharacterData, CustomizeData};
use physis::gearsets::{GearSet, GearSets, GearSlot, GearSlotType};
use physis::race::{Gender, Race, Tribe};
use serde_json::{Value, json};

fn project_char(c: &CharacterData) -> Value {
    let z = &c.customize;
    let f: Vec<u8> = vec![
        z.race as u8, z.gender.clone() as u8, z.age, z.height, z.tribe as u8, z.face, z.hair, z.enable_highlights as u8,
        z.skin_tone, z.right_eye_color, z.hair_tone, z.highlights, z.facial_features, z.facial_feature_color,
        z.eyebrows, z.left_eye_color, z.eyes, z.nose, z.jaw, z.mouth, z.lips_tone_fur_pattern, z.race_feature_size,
        z.race_feature_type, z.bust, z.face_paint, z.face_paint_color, z.voice,
    ];
    json!({"version": c.version, "fields": f, "timestamp": bytes(&c.timestamp.to_le_bytes()), "comment": sbytes(&c.comment)})
}

fn build_char(cmd: &Value) -> Option<CharacterData> {
    let f = get_bytes(&cmd["fields"]);
    if f.len() != 27 {
        return None;
    }
    let ts = get_bytes(&cmd["timestamp"]);
    Some(CharacterData {
        version: geti(cmd, "version") as u32,
        customize: CustomizeData {
            race: Race::try_from(f[0]).ok()?,
            gender: Gender::try_from(f[1]).ok()?,
            age: f[2], height: f[3],
            tribe: Tribe::try_from(f[4]).ok()?,
            face: f[5], hair: f[6], enable_highlights: f[7] == 1, skin_tone: f[8], right_eye_color: f[9],
            hair_tone: f[10], highlights: f[11], facial_features: f[12], facial_feature_color: f[13],
            eyebrows: f[14], left_eye_color: f[15], eyes: f[16], nose: f[17], jaw: f[18], mouth: f[19],
            lips_tone_fur_pattern: f[20], race_feature_size: f[21], race_feature_type: f[22], bust: f[23],
            face_paint: f[24], face_paint_color: f[25], voice: f[26],
        },
        timestamp: u32::from_le_bytes([ts[0], ts[1], ts[2], ts[3]]),
        comment: get_str(&cmd["comment"]),
    })
}

fn slot_type(i: usize) -> Option<GearSlotType> {
    GearSlotType::try_from(i).ok()
}

fn project_gear(g: &GearSets) -> Value {
    let sets: Vec<Value> = g.gearsets.iter().map(|s| match s {
        None => json!({"some": false}),
        Some(s) => {
            let mut slots = vec![];
            for i in 0..14 {
                if let Some(t) = slot_type(i) {
                    if let Some(sl) = s.slots.get(&t) {
                        slots.push(json!({"s": i + 1, "id": w32(sl.id), "glam": w32(sl.glamour_id.unwrap_or(0))}));
                    }
                }
            }
            json!({"some": true, "index": s.index, "name": sbytes(&s.name), "slots": slots, "facewear": w32(s.facewear.unwrap_or(0))})
        }
    }).collect();
    json!({"current": g.current_gearset, "n": g.gearsets.len(), "sets": sets})
}

pub fn run(_st: &mut State, op: &str, cmd: &Value) -> Value {
    match op {
        "user.chardat.write" => {
            let Some(c) = build_char(cmd) else {
                return toolerror("bad character record");
            };
            guarded(|| {
                let Some(b) = c.write_to_buffer() else { return fail(); };
                let parsed = CharacterData::from_existing(&b);
                let pv = opt(parsed.as_ref(), project_char);
                let rew = opt(parsed.and_then(|p| p.write_to_buffer()), |x| bytes(&x));
                value(json!({"bytes": bytes(&b), "parsed": pv, "rewritten": rew}))
            })
        }
        "user.chardat.parse" => {
            let b = get_bytes(&cmd["bytes"]);
            guarded(|| {
                let parsed = CharacterData::from_existing(&b);
                let pv = opt(parsed.as_ref(), project_char);
                let rew = opt(parsed.and_then(|p| p.write_to_buffer()), |x| bytes(&x));
                value(json!({"parsed": pv, "rewritten": rew}))
            })
        }
        "user.gear.parse" => {
            let b = get_bytes(&cmd["file"]);
            guarded(|| {
                let parsed = GearSets::from_existing(&b);
                let pv = opt(parsed.as_ref(), project_gear);
                let rew = opt(parsed.and_then(|p| p.write_to_buffer()), |x| json!(x == b));
                value(json!({"parsed": pv, "rewritten_same": rew}))
            })
        }
        "user.gear.write" => {
            // a table set through the public fields of a handle parsed from a blank file
            let blank = unrle(&cmd["_blank"]);
            guarded(|| {
                let Some(mut g) = GearSets::from_existing(&blank) else { return fail(); };
                g.current_gearset = geti(cmd, "current") as u8;
                let mut sets: Vec<Option<GearSet>> = vec![None; 100];
                for s in cmd["sets"].as_array().cloned().unwrap_or_default() {
                    let k = geti(&s, "k") as usize;
                    let mut gs = GearSet::default();
                    gs.index = geti(&s, "index") as u8;
                    gs.name = get_str(&s["name"]);
                    for sl in s["slots"].as_array().cloned().unwrap_or_default() {
                        let Some(t) = slot_type(geti(&sl, "s") as usize - 1) else { continue; };
                        let mut x = GearSlot::default();
                        x.id = get_w32(&sl["id"]);
                        let gl = get_w32(&sl["glam"]);
                        x.glamour_id = if gl == 0 { None } else { Some(gl) };
                        gs.slots.insert(t, x);
                    }
                    let fw = get_w32(&s["facewear"]);
                    gs.facewear = if fw == 0 { None } else { Some(fw) };
                    if k >= 1 && k <= 100 {
                        sets[k - 1] = Some(gs);
                    }
                }
                g.gearsets = sets;
                let Some(b) = g.write_to_buffer() else { return fail(); };
                let parsed = GearSets::from_existing(&b);
                value(json!({"file": bytes(&b), "parsed": opt(parsed.as_ref(), project_gear)}))
            })
        }
        _ => toolerror(&format!("unknown op {op}")),
    }
}
