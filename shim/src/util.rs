use serde_json::{Value, json};

pub fn bytes(b: &[u8]) -> Value {
    Value::Array(b.iter().map(|x| Value::from(*x)).collect())
}

pub fn sbytes(s: &str) -> Value {
    bytes(s.as_bytes())
}

pub fn get_bytes(v: &Value) -> Vec<u8> {
    v.as_array()
        .map(|a| a.iter().map(|x| x.as_u64().unwrap_or(0) as u8).collect())
        .unwrap_or_default()
}

/// string argument logged as byte array (TLC cannot look into strings)
pub fn get_str(v: &Value) -> String {
    String::from_utf8_lossy(&get_bytes(v)).to_string()
}

pub fn w32(x: u32) -> Value {
    json!([x >> 16, x & 0xFFFF])
}

pub fn w64(x: u64) -> Value {
    json!([(x >> 48) & 0xFFFF, (x >> 32) & 0xFFFF, (x >> 16) & 0xFFFF, x & 0xFFFF])
}

pub fn get_w32(v: &Value) -> u32 {
    let a = v.as_array().unwrap();
    ((a[0].as_u64().unwrap() as u32) << 16) | (a[1].as_u64().unwrap() as u32)
}

pub fn get_w64(v: &Value) -> u64 {
    let a = v.as_array().unwrap();
    a.iter().fold(0u64, |acc, x| (acc << 16) | x.as_u64().unwrap())
}

pub fn value(v: Value) -> Value {
    json!({"outcome": "value", "v": v})
}

pub fn fail() -> Value {
    json!({"outcome": "fail"})
}

pub fn some(v: Value) -> Value {
    json!({"some": true, "v": v})
}

pub fn none() -> Value {
    json!({"some": false})
}

pub fn opt<T, F: FnOnce(T) -> Value>(o: Option<T>, f: F) -> Value {
    match o {
        Some(x) => some(f(x)),
        None => none(),
    }
}

pub fn toolerror(msg: &str) -> Value {
    json!({"outcome": "toolerror", "msg": msg})
}

pub fn f32bits(f: f32) -> Value {
    w32(f.to_bits())
}

pub fn geti(v: &Value, k: &str) -> i64 {
    v[k].as_i64().unwrap_or(0)
}
