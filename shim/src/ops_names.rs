// C15: dumps of the real name / code tables.
use crate::util::*;
use crate::{State, guarded};
use physis::common::Platform;
use physis::equipment::*;
use physis::race::*;
use physis::repository::{Category, Repository, RepositoryType};
use serde_json::{Value, json};

pub fn platform(i: i64) -> Platform {
    match i {
        0 => Platform::Win32,
        1 => Platform::PS3,
        2 => Platform::PS4,
        3 => Platform::PS5,
        _ => Platform::Xbox,
    }
}

pub fn category(code: i64) -> Option<Category> {
    use Category::*;
    Some(match code {
        0x00 => Common,
        0x01 => BackgroundCommon,
        0x02 => Background,
        0x03 => Cutscene,
        0x04 => Character,
        0x05 => Shader,
        0x06 => UI,
        0x07 => Sound,
        0x08 => VFX,
        0x09 => UIScript,
        0x0A => EXD,
        0x0B => GameScript,
        0x0C => Music,
        0x12 => SqPackTest,
        0x13 => Debug,
        _ => return None,
    })
}

fn slot(i: i64) -> Slot {
    match i {
        0 => Slot::Head,
        1 => Slot::Hands,
        2 => Slot::Legs,
        3 => Slot::Feet,
        4 => Slot::Body,
        5 => Slot::Earring,
        6 => Slot::Neck,
        7 => Slot::Wrists,
        8 => Slot::RingLeft,
        _ => Slot::RingRight,
    }
}

fn slot_index(s: &Slot) -> i64 {
    match s {
        Slot::Head => 0,
        Slot::Hands => 1,
        Slot::Legs => 2,
        Slot::Feet => 3,
        Slot::Body => 4,
        Slot::Earring => 5,
        Slot::Neck => 6,
        Slot::Wrists => 7,
        Slot::RingLeft => 8,
        Slot::RingRight => 9,
    }
}

fn charcat(i: i64) -> CharacterCategory {
    match i {
        0 => CharacterCategory::Body,
        1 => CharacterCategory::Hair,
        2 => CharacterCategory::Face,
        3 => CharacterCategory::Tail,
        _ => CharacterCategory::Ear,
    }
}

fn rtg(cmd: &Value) -> Option<(Race, Tribe, Gender)> {
    Some((
        Race::try_from(geti(cmd, "r") as u8).ok()?,
        Tribe::try_from(geti(cmd, "t") as u8).ok()?,
        Gender::try_from(geti(cmd, "g") as u8).ok()?,
    ))
}

pub fn repo(n: i64, plat: Platform) -> Repository {
    if n == 0 {
        Repository {
            name: "ffxiv".to_string(),
            platform: plat,
            repo_type: RepositoryType::Base,
            version: None,
        }
    } else {
        Repository {
            name: format!("ex{n}"),
            platform: plat,
            repo_type: RepositoryType::Expansion { number: n as i32 },
            version: None,
        }
    }
}

pub fn repo_num(r: &Repository) -> i64 {
    match r.repo_type {
        RepositoryType::Base => 0,
        RepositoryType::Expansion { number } => number as i64,
    }
}

pub fn run(st: &mut State, op: &str, cmd: &Value) -> Value {
    match op {
        "names.race" => {
            let Some((r, t, g)) = rtg(cmd) else {
                return toolerror("bad race triple");
            };
            let tribes = guarded(|| {
                value(json!(
                    get_supported_tribes(r)
                        .iter()
                        .map(|x| *x as u8)
                        .collect::<Vec<u8>>()
                ))
            });
            let code = guarded(|| value(opt(get_race_id(r, t, g.clone()), |c| json!(c))));
            let skel = guarded(|| value(sbytes(&build_skeleton_path(r, t, g.clone()))));
            json!({"tribes": tribes, "code": code, "skel": skel})
        }
        "names.equip" => {
            let Some((r, t, g)) = rtg(cmd) else {
                return toolerror("bad race triple");
            };
            let s = geti(cmd, "slot");
            let ids = cmd["ids"].as_array().cloned().unwrap_or_default();
            let mut out = vec![];
            for id in ids {
                let id = id.as_i64().unwrap_or(0);
                let path = guarded(|| {
                    value(sbytes(&build_equipment_path(
                        id as i32,
                        r,
                        t,
                        g.clone(),
                        slot(s),
                    )))
                });
                let mut fname = Value::Array(vec![]);
                let mut dec = json!({"outcome": "skipped"});
                if path["outcome"] == "value" {
                    let p = get_str(&path["v"]);
                    let f = p.rsplit('/').next().unwrap_or("").to_string();
                    fname = sbytes(&f);
                    dec = guarded(|| {
                        value(opt(deconstruct_equipment_path(&f), |(i, sl)| {
                            json!([i, slot_index(&sl)])
                        }))
                    });
                }
                out.push(json!({"id": id, "path": path, "fname": fname, "dec": dec}));
            }
            Value::Array(out)
        }
        "names.charpath" => {
            let Some((r, t, g)) = rtg(cmd) else {
                return toolerror("bad race triple");
            };
            let c = geti(cmd, "cat");
            let vers = cmd["vers"].as_array().cloned().unwrap_or_default();
            let mut out = vec![];
            for v in vers {
                let v = v.as_i64().unwrap_or(0);
                out.push(guarded(|| {
                    value(sbytes(&build_character_path(
                        charcat(c),
                        v as i32,
                        r,
                        t,
                        g.clone(),
                    )))
                }));
            }
            Value::Array(out)
        }
        "names.files" => {
            let Some(cat) = category(geti(cmd, "cat")) else {
                return toolerror("bad category");
            };
            let rp = repo(geti(cmd, "ex"), platform(geti(cmd, "plat")));
            let mut out = vec![];
            for chunk in cmd["chunks"].as_array().cloned().unwrap_or_default() {
                let chunk = chunk.as_i64().unwrap_or(0) as u8;
                let index = guarded(|| value(sbytes(&rp.index_filename(chunk, cat))));
                let index2 = guarded(|| value(sbytes(&rp.index2_filename(chunk, cat))));
                let mut dats = vec![];
                for d in cmd["dats"].as_array().cloned().unwrap_or_default() {
                    let d = d.as_i64().unwrap_or(0) as u32;
                    dats.push(guarded(|| value(sbytes(&rp.dat_filename(chunk, cat, d)))));
                }
                out.push(json!({"chunk": chunk, "index": index, "index2": index2, "dats": dats}));
            }
            Value::Array(out)
        }
        "names.sort" => {
            let seq = cmd["seq"].as_array().cloned().unwrap_or_default();
            guarded(|| {
                let mut v: Vec<Repository> = seq
                    .iter()
                    .map(|n| repo(n.as_i64().unwrap_or(0), Platform::Win32))
                    .collect();
                v.sort();
                value(json!(v.iter().map(repo_num).collect::<Vec<i64>>()))
            })
        }
        "names.discover" => {
            // directories created in the given order; the listing order is the
            // file system's business, the result must not depend on it
            let mut dir = st.workdir.clone();
            dir.push(format!("disc{}", geti(cmd, "case")));
            let _ = std::fs::remove_dir_all(&dir);
            let mut sq = dir.clone();
            sq.push("sqpack");
            std::fs::create_dir_all(&sq).unwrap();
            for n in cmd["order"].as_array().cloned().unwrap_or_default() {
                let n = n.as_i64().unwrap_or(0);
                let mut d = sq.clone();
                d.push(if n == 0 {
                    "ffxiv".to_string()
                } else {
                    format!("ex{n}")
                });
                std::fs::create_dir_all(&d).unwrap();
            }
            let res = guarded(|| {
                let gd = physis::gamedata::GameData::from_existing(
                    platform(geti(cmd, "plat")),
                    dir.to_str().unwrap(),
                );
                value(opt(gd, |g| {
                    json!(g.repositories.iter().map(repo_num).collect::<Vec<i64>>())
                }))
            });
            let _ = std::fs::remove_dir_all(&dir);
            res
        }
        "names.patchfiles" => {
            // files touched by ZiPatch::apply for one target-info chunk + one `A` command per (chunk, dat)
            let base = crate::ops_patch::casedir(st, cmd, "pf");
            let mut data = base.clone();
            data.push("data");
            std::fs::create_dir_all(&data).unwrap();
            let mut pf = base.clone();
            pf.push("p.patch");
            std::fs::write(&pf, crate::ops_patch::unhex(cmd["_patch"].as_str().unwrap_or(""))).unwrap();
            let (d, p) = (data.to_str().unwrap().to_string(), pf.to_str().unwrap().to_string());
            let r = guarded(|| match physis::patch::ZiPatch::apply(&d, &p) {
                Ok(()) => {
                    let snap = crate::ops_patch::snapshot(&data);
                    let files: Vec<Value> = snap["files"].as_array().unwrap().iter().map(|f| f["p"].clone()).collect();
                    value(json!(files))
                }
                Err(e) => json!({"outcome": "error", "v": format!("{e:?}")}),
            });
            let _ = std::fs::remove_dir_all(&base);
            r
        }
        _ => toolerror(&format!("unknown op {op}")),
    }
}
