// C01 / C02: GameData handles on synthetic installations, raw dat reads.
use crate::ops_patch::{casedir, rle, unhex};
use crate::util::*;
use crate::{State, guarded};
use physis::gamedata::GameData;
use physis::sqpack::SqPackData;
use serde_json::{Value, json};
use std::collections::HashMap;

#[derive(Default)]
pub struct ArchiveState {
    pub handles: HashMap<i64, GameData>,
    pub dirs: HashMap<i64, std::path::PathBuf>,
}

pub fn write_fs(root: &std::path::Path, fs: &Value) {
    for f in fs.as_array().cloned().unwrap_or_default() {
        let mut p = root.to_path_buf();
        if let Some(h) = f["p_hex"].as_str() {
            // a path given as bytes: names that are not UTF-8
            use std::os::unix::ffi::OsStrExt;
            p.push(std::ffi::OsStr::from_bytes(&unhex(h)));
        } else {
            p.push(f["p"].as_str().unwrap_or("x"));
        }
        if let Some(parent) = p.parent() {
            std::fs::create_dir_all(parent).unwrap();
        }
        if let Some(h) = f["hex"].as_str() {
            std::fs::write(&p, unhex(h)).unwrap();
        } else {
            std::fs::create_dir_all(&p).unwrap();
        }
    }
}

pub fn run(st: &mut State, op: &str, cmd: &Value) -> Value {
    let h = geti(cmd, "h");
    match op {
        "archive.open" => {
            if let Some(old) = st.archive.dirs.remove(&h) {
                st.archive.handles.remove(&h);
                let _ = std::fs::remove_dir_all(old);
            }
            let base = casedir(st, cmd, &format!("arch{h}_"));
            let mut game = base.clone();
            game.push("game");
            std::fs::create_dir_all(&game).unwrap();
            write_fs(&game, &cmd["_fs"]);
            let dir = game.to_str().unwrap().to_string();
            let mut opened = None;
            let r = guarded(|| {
                let g = GameData::from_existing(crate::ops_names::platform(geti(cmd, "plat")), &dir);
                let v = opt(g.as_ref(), |g| {
                    json!(g.repositories.iter().map(crate::ops_names::repo_num).collect::<Vec<i64>>())
                });
                opened = g;
                value(v)
            });
            if let Some(g) = opened {
                st.archive.handles.insert(h, g);
            }
            st.archive.dirs.insert(h, base);
            r
        }
        "archive.close" => {
            st.archive.handles.remove(&h);
            if let Some(old) = st.archive.dirs.remove(&h) {
                let _ = std::fs::remove_dir_all(old);
            }
            value(json!(true))
        }
        "archive.query" => {
            let Some(g) = st.archive.handles.get_mut(&h) else {
                return json!({"outcome": "nohandle"});
            };
            let path = get_str(&cmd["path"]);
            match cmd["q"].as_str().unwrap_or("") {
                "exists" => guarded(|| value(json!(g.exists(&path)))),
                "find_offset" => guarded(|| {
                    value(opt(g.find_offset(&path), |o| json!({"q": o / 128, "r": o % 128})))
                }),
                "extract" => guarded(|| value(opt(g.extract(&path), |b| rle(&b)))),
                _ => toolerror("bad query"),
            }
        }
        "archive.read" => {
            // SqPackData::read_from_offset on a dat file given in the script
            let base = casedir(st, cmd, "dat");
            let mut p = base.clone();
            p.push("000000.win32.dat0");
            std::fs::write(&p, unhex(cmd["_dat"].as_str().unwrap_or(""))).unwrap();
            let ps = p.to_str().unwrap().to_string();
            let off = geti(cmd, "off") as u64;
            let r = guarded(|| {
                let Some(mut d) = SqPackData::from_existing(&ps) else {
                    return fail();
                };
                value(opt(d.read_from_offset(off), |b| rle(&b)))
            });
            let _ = std::fs::remove_dir_all(&base);
            r
        }
        // ---- life cycle on one handle (spec/Lifecycle.tla): patch and repair change the disk under the handle
        "archive.reopen" => {
            let Some(base) = st.archive.dirs.get(&h).cloned() else {
                return json!({"outcome": "nohandle"});
            };
            let mut game = base.clone();
            game.push("game");
            let dir = game.to_str().unwrap().to_string();
            let mut opened = None;
            let r = guarded(|| {
                let g = GameData::from_existing(crate::ops_names::platform(geti(cmd, "plat")), &dir);
                let v = opt(g.as_ref(), |g| {
                    json!(g.repositories.iter().map(crate::ops_names::repo_num).collect::<Vec<i64>>())
                });
                opened = g;
                value(v)
            });
            st.archive.handles.remove(&h);
            if let Some(g) = opened {
                st.archive.handles.insert(h, g);
            }
            r
        }
        "archive.patch" | "archive.needs_repair" | "archive.perform_repair" | "archive.disk" => {
            let Some(base) = st.archive.dirs.get(&h).cloned() else {
                return json!({"outcome": "nohandle"});
            };
            let Some(g) = st.archive.handles.get(&h) else {
                return json!({"outcome": "nohandle"});
            };
            let todo = |g: &GameData| -> Value {
                Value::Array(g.needs_repair().unwrap_or_default().iter().map(|(r, a)| {
                    json!({"repo": crate::ops_names::repo_num(r), "action": match a {
                        physis::gamedata::RepairAction::VersionFileMissing => "missing",
                        physis::gamedata::RepairAction::VersionFileCanRestore => "restore",
                    }})
                }).collect())
            };
            let mut res = match op {
                "archive.patch" => {
                    let mut pp = base.clone();
                    pp.push("life.patch");
                    std::fs::write(&pp, unhex(cmd["_patch"].as_str().unwrap_or(""))).unwrap();
                    let ps = pp.to_str().unwrap().to_string();
                    guarded(|| match g.apply_patch(&ps) {
                        Ok(()) => value(json!("ok")),
                        Err(e) => json!({"outcome": "fail", "err": format!("{e:?}")}),
                    })
                }
                "archive.needs_repair" => guarded(|| value(todo(g))),
                "archive.perform_repair" => guarded(|| {
                    let list = g.needs_repair().unwrap_or_default();
                    let t = todo(g);
                    match g.perform_repair(&list) {
                        Ok(()) => value(json!({"todo": t, "done": true})),
                        Err(_) => value(json!({"todo": t, "done": false})),
                    }
                }),
                _ => value(json!(true)),
            };
            // which of the probed files exist now (relative to the game directory)
            let mut game = base.clone();
            game.push("game");
            let present: Vec<Value> = cmd["probe"].as_array().cloned().unwrap_or_default().iter().map(|p| {
                let mut f = game.clone();
                f.push(p.as_str().unwrap_or("x"));
                json!(f.exists())
            }).collect();
            res["present"] = Value::Array(present);
            res
        }
        _ => toolerror(&format!("unknown op {op}")),
    }
}
