// C08: configuration files and Excel lists at byte level.
use crate::util::*;
use crate::{State, guarded};
use physis::cfg::{ConfigFile, ConfigMap};
use physis::exl::EXL;
use serde_json::{Value, json};
use std::collections::HashMap;

#[derive(Default)]
pub struct TextState {
    pub cfgs: HashMap<i64, ConfigFile>,
}

fn project(c: &ConfigFile) -> Value {
    let mut cats = vec![];
    for name in &c.categories {
        let pairs: Vec<Value> = c
            .settings
            .get(name)
            .map(|m| {
                m.keys
                    .iter()
                    .map(|(k, v)| json!([sbytes(k), sbytes(v)]))
                    .collect()
            })
            .unwrap_or_default();
        cats.push(json!({"name": sbytes(name), "pairs": pairs}));
    }
    let orphans = c
        .settings
        .keys()
        .filter(|k| !c.categories.contains(k))
        .count();
    json!({"cats": cats, "orphans": orphans})
}

pub fn run(st: &mut State, op: &str, cmd: &Value) -> Value {
    let h = geti(cmd, "h");
    match op {
        "text.cfg.build" => {
            let mut c = ConfigFile {
                categories: vec![],
                settings: HashMap::new(),
            };
            for cat in cmd["cats"].as_array().cloned().unwrap_or_default() {
                let name = get_str(&cat["name"]);
                c.categories.push(name.clone());
                let pairs = cat["pairs"].as_array().cloned().unwrap_or_default();
                if !pairs.is_empty() {
                    let m = c
                        .settings
                        .entry(name)
                        .or_insert_with(|| ConfigMap { keys: vec![] });
                    for p in pairs {
                        m.keys.push((get_str(&p[0]), get_str(&p[1])));
                    }
                }
            }
            let v = project(&c);
            st.text.cfgs.insert(h, c);
            value(v)
        }
        "text.cfg.parse" => {
            let b = get_bytes(&cmd["bytes"]);
            st.text.cfgs.remove(&h);
            let mut parsed = None;
            let r = guarded(|| {
                let c = ConfigFile::from_existing(&b);
                let v = opt(c.as_ref(), project);
                parsed = c;
                value(v)
            });
            if let Some(c) = parsed {
                st.text.cfgs.insert(h, c);
            }
            r
        }
        "text.cfg.set" => {
            let Some(c) = st.text.cfgs.get_mut(&h) else {
                return json!({"outcome": "nohandle"});
            };
            let (k, v) = (get_str(&cmd["key"]), get_str(&cmd["val"]));
            guarded(|| {
                c.set_value(&k, &v);
                value(project(c))
            })
        }
        "text.cfg.haskey" => {
            let Some(c) = st.text.cfgs.get(&h) else {
                return json!({"outcome": "nohandle"});
            };
            let k = get_str(&cmd["key"]);
            guarded(|| value(json!(c.has_key(&k))))
        }
        "text.cfg.hascat" => {
            let Some(c) = st.text.cfgs.get(&h) else {
                return json!({"outcome": "nohandle"});
            };
            let k = get_str(&cmd["cat"]);
            guarded(|| value(json!(c.has_category(&k))))
        }
        "text.cfg.write" => {
            let Some(c) = st.text.cfgs.get(&h) else {
                return json!({"outcome": "nohandle"});
            };
            guarded(|| value(opt(c.write_to_buffer(), |b| bytes(&b))))
        }
        "text.cfg.reparse" => {
            let Some(c) = st.text.cfgs.get(&h) else {
                return json!({"outcome": "nohandle"});
            };
            let mut parsed = None;
            let r = guarded(|| {
                let Some(b) = c.write_to_buffer() else {
                    return fail();
                };
                let c2 = ConfigFile::from_existing(&b);
                let v = json!({"bytes": bytes(&b), "parsed": opt(c2.as_ref(), project)});
                parsed = c2;
                value(v)
            });
            if let Some(c2) = parsed {
                st.text.cfgs.insert(h, c2);
            }
            r
        }
        "text.exl.parse" => {
            let b = get_bytes(&cmd["bytes"]);
            guarded(|| {
                let x = EXL::from_existing(&b);
                value(opt(x, |x| {
                    let contains: Vec<bool> = cmd["probe"]
                        .as_array()
                        .cloned()
                        .unwrap_or_default()
                        .iter()
                        .map(|n| x.contains(&get_str(n)))
                        .collect();
                    let rewritten = opt(x.write_to_buffer(), |b| bytes(&b));
                    json!({"version": x.version,
                           "entries": x.entries.iter().map(|(n, i)| json!([sbytes(n), i])).collect::<Vec<Value>>(),
                           "contains": contains, "rewritten": rewritten})
                }))
            })
        }
        "text.exl.write" => {
            let x = EXL {
                version: geti(cmd, "version") as i32,
                entries: cmd["entries"]
                    .as_array()
                    .cloned()
                    .unwrap_or_default()
                    .iter()
                    .map(|e| (get_str(&e[0]), e[1].as_i64().unwrap_or(0) as i32))
                    .collect(),
            };
            guarded(|| value(opt(x.write_to_buffer(), |b| bytes(&b))))
        }
        _ => toolerror(&format!("unknown op {op}")),
    }
}
