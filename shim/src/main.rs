// physis-shim: executes a script of API calls against the real library and
// records one NDJSON event per call.  It contains no oracle; every verdict is
// made by TLC on the recorded trace.
//
//   physis-shim run <script.ndjson> <events.ndjson>
//   physis-shim worker                (isolated mode, see worker.rs)

use serde_json::{Value, json};
use std::cell::RefCell;
use std::io::{BufRead, BufReader, BufWriter, Write};
use std::panic::{AssertUnwindSafe, catch_unwind};

mod alloc;
mod ops_archive;
mod ops_assets;
mod ops_codec;
mod ops_excel;
mod ops_fault;
mod ops_mdl;
mod ops_meta;
mod ops_names;
mod ops_patch;
mod ops_text;
mod ops_user;
mod util;
mod worker;

#[global_allocator]
static GLOBAL: alloc::Counting = alloc::Counting;

thread_local! {
    pub static LAST_PANIC: RefCell<(String, String)> = const { RefCell::new((String::new(), String::new())) };
}

pub struct State {
    pub archive: ops_archive::ArchiveState,
    pub text: ops_text::TextState,
    pub mdl: ops_mdl::MdlState,
    pub workdir: std::path::PathBuf,
}

impl State {
    pub fn new() -> Self {
        let mut workdir = std::env::temp_dir();
        workdir.push(format!("physis-shim-{}", std::process::id()));
        let _ = std::fs::remove_dir_all(&workdir);
        std::fs::create_dir_all(&workdir).unwrap();
        State {
            archive: Default::default(),
            text: Default::default(),
            mdl: Default::default(),
            workdir,
        }
    }
}

impl Drop for State {
    fn drop(&mut self) {
        let _ = std::fs::remove_dir_all(&self.workdir);
    }
}

pub fn install_panic_hook() {
    std::panic::set_hook(Box::new(|info| {
        let site = info
            .location()
            .map(|l| format!("{}:{}", l.file(), l.line()))
            .unwrap_or_default();
        let msg = if let Some(s) = info.payload().downcast_ref::<&str>() {
            s.to_string()
        } else if let Some(s) = info.payload().downcast_ref::<String>() {
            s.clone()
        } else {
            String::new()
        };
        LAST_PANIC.with(|p| *p.borrow_mut() = (site, msg));
    }));
}

/// Runs one scripted call; a panic inside the library is data.
pub fn guarded<F: FnOnce() -> Value>(f: F) -> Value {
    match catch_unwind(AssertUnwindSafe(f)) {
        Ok(v) => v,
        Err(_) => {
            let (site, msg) = LAST_PANIC.with(|p| p.borrow().clone());
            let msg: String = msg.chars().take(160).collect();
            json!({"outcome": "panic", "site": site, "msg": msg})
        }
    }
}

pub fn dispatch(st: &mut State, cmd: &Value) -> Value {
    let op = cmd["op"].as_str().unwrap_or("");
    let group = op.split('.').next().unwrap_or("");
    match group {
        "mark" => json!({"outcome": "mark"}),
        "names" => ops_names::run(st, op, cmd),
        "text" => ops_text::run(st, op, cmd),
        "meta" => ops_meta::run(st, op, cmd),
        "patch" => ops_patch::run(st, op, cmd),
        "archive" => ops_archive::run(st, op, cmd),
        "excel" => ops_excel::run(st, op, cmd),
        "mdl" => ops_mdl::run(st, op, cmd),
        "codec" => ops_codec::run(st, op, cmd),
        "user" => ops_user::run(st, op, cmd),
        "assets" => ops_assets::run(st, op, cmd),
        "fault" => ops_fault::run(st, op, cmd),
        _ => json!({"outcome": "toolerror", "msg": format!("unknown op {op}")}),
    }
}

fn run_script(script: &str, events: &str) -> std::io::Result<()> {
    let rd = BufReader::new(std::fs::File::open(script)?);
    let mut wr = BufWriter::new(std::fs::File::create(events)?);
    let mut st = State::new();
    for line in rd.lines() {
        let line = line?;
        if line.trim().is_empty() {
            continue;
        }
        let mut cmd: Value = match serde_json::from_str(&line) {
            Ok(v) => v,
            Err(e) => {
                eprintln!("bad script line: {e}");
                std::process::exit(2);
            }
        };
        let res = dispatch(&mut st, &cmd);
        // an op may return {"__event": {...}} to control the whole event
        if let Some(ev) = res.get("__event") {
            writeln!(wr, "{}", ev)?;
            continue;
        }
        // fields starting with '_' are instructions for the shim only (bulky
        // inputs already summarised in the result) and are not logged
        if let Some(o) = cmd.as_object_mut() {
            o.retain(|k, _| !k.starts_with('_'));
            o.insert("res".to_string(), res);
        }
        writeln!(wr, "{}", cmd)?;
    }
    wr.flush()?;
    Ok(())
}

fn main() {
    let args: Vec<String> = std::env::args().collect();
    if args.get(1).map(|s| s.as_str()) != Some("supervise") {
        install_panic_hook();
    }
    match args.get(1).map(|s| s.as_str()) {
        Some("run") if args.len() == 4 => {
            if let Err(e) = run_script(&args[2], &args[3]) {
                eprintln!("shim: {e}");
                std::process::exit(2);
            }
        }
        Some("worker") => worker::main(),
        Some("supervise") if args.len() == 4 => worker::supervise(&args[2], &args[3]),
        _ => {
            eprintln!("usage: physis-shim run|supervise <script> <events> | worker");
            std::process::exit(2);
        }
    }
}
