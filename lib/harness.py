"""Common machinery of every check (see DESIGN.md section 2).

pipeline:  MC configs (TLC, exhaustive bounded model)      -> states / transitions
           generator (TLC enumeration / seeded random)      -> cases (script lines)
           shim (real library built from /repo)             -> events.ndjson
           TLC trace validation                             -> MISMATCH lines, acceptance
           verdict, evidence/<id>.json, VIOLATION / KNOWN-FINDING lines, exit code
"""
import hashlib
import json
import os
import re
import shutil
import subprocess
import sys
import time
from concurrent.futures import ThreadPoolExecutor

ROOT = os.path.dirname(os.path.dirname(os.path.abspath(__file__)))
SPEC = os.path.join(ROOT, "spec")
SHIM_DIR = os.path.join(ROOT, "shim")
WORK = os.path.join(ROOT, "work")
REPLAYS = os.path.join(ROOT, "replays")
EVIDENCE = os.path.join(ROOT, "evidence")
if os.environ.get("VERIF_REPO", "/repo") != "/repo":
    # development runs against a scratch copy of the library (seeded changes, refactors): own scratch area per process,
    # so that they neither disturb a run on /repo nor overwrite its evidence
    WORK = os.path.join(ROOT, "work", "scratch-%d" % os.getpid())
    REPLAYS = os.path.join(WORK, "replays")
    EVIDENCE = os.path.join(WORK, "evidence")
KNOWN = os.path.join(ROOT, "known_findings.txt")
TLA_JAR = "/opt/veriftools/tla/tla2tools.jar:/opt/veriftools/tla/CommunityModules-deps.jar"
REPO = os.environ.get("VERIF_REPO", "/repo")


class ToolError(Exception):
    pass


def log(*a):
    print(*a, file=sys.stderr, flush=True)


# --------------------------------------------------------------------------- shim
def shim_manifest_dir():
    """The shim is built against /repo's working tree.  VERIF_REPO (used only by
    the development self-tests with scratch copies) switches to a generated
    manifest with another source path and its own target directory."""
    if REPO == "/repo":
        return SHIM_DIR
    d = os.path.join(REPO, ".verif-shim")
    os.makedirs(os.path.join(d, ".cargo"), exist_ok=True)
    man = open(os.path.join(SHIM_DIR, "Cargo.toml")).read().replace('path = "/repo"', 'path = "%s"' % REPO)
    open(os.path.join(d, "Cargo.toml"), "w").write(man)
    shutil.copy(os.path.join(SHIM_DIR, ".cargo", "config.toml"), os.path.join(d, ".cargo", "config.toml"))
    if not os.path.exists(os.path.join(d, "Cargo.lock")):
        shutil.copy(os.path.join(SHIM_DIR, "Cargo.lock"), os.path.join(d, "Cargo.lock"))
    if os.path.islink(os.path.join(d, "src")):
        os.unlink(os.path.join(d, "src"))
    os.symlink(os.path.join(SHIM_DIR, "src"), os.path.join(d, "src"))
    return d


_shim_bin = None


def build_shim():
    global _shim_bin
    if _shim_bin:
        return _shim_bin
    d = shim_manifest_dir()
    env = dict(os.environ, CARGO_NET_OFFLINE="true")
    t0 = time.time()
    p = subprocess.run(["cargo", "build", "--offline", "--quiet"], cwd=d, env=env,
                       stdout=subprocess.PIPE, stderr=subprocess.STDOUT, text=True)
    if p.returncode != 0:
        tail = "\n".join(l for l in p.stdout.splitlines() if "warning" not in l)[-3000:]
        raise ToolError("shim build failed:\n" + tail)
    log("[shim] built in %.1fs" % (time.time() - t0))
    _shim_bin = os.path.join(d, "target", "debug", "physis-shim")
    return _shim_bin


def run_shim(script_path, events_path, mode="run", timeout=3600):
    b = build_shim()
    p = subprocess.run([b, mode, script_path, events_path], stdout=subprocess.PIPE,
                       stderr=subprocess.PIPE, text=True, timeout=timeout)
    if p.returncode != 0:
        raise ToolError("shim failed (%d): %s" % (p.returncode, p.stderr[-2000:]))
    return events_path


# --------------------------------------------------------------------------- TLC
def _java(args, env_extra, timeout, xmx="4g", xss=None):
    opts = "-DTLA-Library=%s" % SPEC
    if "-metadir" in args:
        # TLC unpacks its standard modules into java.io.tmpdir on every start: keep that inside the run's own
        # scratch directory (removed by the caller) instead of littering /tmp
        opts += " -Djava.io.tmpdir=%s" % args[args.index("-metadir") + 1]
    if xss:
        opts += " -Xss%s" % xss
    env = dict(os.environ, JAVA_TOOL_OPTIONS=(opts + " " + env_extra.pop("_JTO", "")).strip())
    env.update(env_extra)
    cmd = ["java", "-XX:+UseParallelGC", "-Xmx" + xmx, "-cp", TLA_JAR, "tlc2.TLC"] + args
    try:
        p = subprocess.run(cmd, env=env, stdout=subprocess.PIPE, stderr=subprocess.STDOUT,
                           text=True, timeout=timeout, cwd=SPEC)
    except subprocess.TimeoutExpired:
        raise ToolError("TLC timeout: " + " ".join(args))
    return p.returncode, p.stdout


_metaseq = [0]


def _metadir(tag):
    _metaseq[0] += 1
    d = os.path.join(WORK, "tlc", "%s-%d-%d" % (tag, os.getpid(), _metaseq[0]))
    os.makedirs(d, exist_ok=True)
    return d


RE_STATES = re.compile(r"(\d+) states generated, (\d+) distinct states found, (\d+) states left")
RE_COV = re.compile(r"^<(\w+) line (\d+), col \d+ to line \d+, col \d+ of module (\w+)>: (\d+):(\d+)")


def tlc_mc(module, cfg, workers=8, timeout=1800, coverage=True, xmx="8g", extra=None):
    """Exhaustive model checking of a bounded config.  Returns dict with
    states (distinct), transitions (generated), actions coverage, ok."""
    md = _metadir(os.path.basename(cfg))
    args = ["-workers", str(workers), "-metadir", md, "-cleanup", "-noGenerateSpecTE",
            "-config", os.path.join(SPEC, cfg)]
    if coverage:
        args += ["-coverage", "1"]
    if extra:
        args += extra
    args.append(os.path.join(SPEC, module))
    t0 = time.time()
    rc, out = _java(args, {}, timeout, xmx=xmx, xss="64m")
    shutil.rmtree(md, ignore_errors=True)
    m = RE_STATES.findall(out)
    res = {"module": module, "cfg": cfg, "rc": rc, "wall_s": round(time.time() - t0, 1),
           "states": int(m[-1][1]) if m else 0, "transitions": int(m[-1][0]) if m else 0,
           "actions": {}, "ok": rc == 0 and "No error has been found" in out, "out": out}
    for line in out.splitlines():
        c = RE_COV.match(line.strip())
        if c:
            res["actions"][c.group(1)] = max(res["actions"].get(c.group(1), 0), int(c.group(4)))
    if not res["ok"]:
        raise ToolError("model checking of %s/%s failed:\n%s" % (module, cfg, out[-4000:]))
    return res


def tlc_generate(module, cfg, prefix="REPLAY|", workers=8, timeout=1800, xmx="8g", simulate=None, seed=None, env=None):
    """Runs a generator config; collects the payloads of PrintT("REPLAY|..json..") lines."""
    md = _metadir(os.path.basename(cfg))
    args = ["-workers", str(workers), "-metadir", md, "-cleanup", "-noGenerateSpecTE",
            "-config", os.path.join(SPEC, cfg)]
    if simulate:
        args += ["-simulate", simulate]
        if seed is not None:
            args += ["-seed", str(seed)]
    args.append(os.path.join(SPEC, module))
    rc, out = _java(args, dict(env or {}), timeout, xmx=xmx, xss="64m")
    shutil.rmtree(md, ignore_errors=True)
    if not simulate and (rc != 0 or "No error has been found" not in out):
        raise ToolError("generator %s/%s failed:\n%s" % (module, cfg, out[-4000:]))
    cases = []
    for line in out.splitlines():
        line = line.strip()
        if line.startswith('"' + prefix):
            body = line[1 + len(prefix):-1]
            body = body.replace('\\"', '"').replace("\\\\", "\\")
            cases.append(json.loads(body))
    m = RE_STATES.findall(out)
    return cases, {"states": int(m[-1][1]) if m else 0, "transitions": int(m[-1][0]) if m else 0}


def tlc_trace(module, cfg, events_path, timeout=1800, xmx="4g", consts=None):
    """Trace validation of one NDJSON file.  Returns dict(mismatches, drifts,
    badcases, tags, accepted, n)."""
    md = _metadir("trace-" + os.path.basename(events_path))
    args = ["-workers", "1", "-metadir", md, "-cleanup", "-noGenerateSpecTE", "-nowarning",
            "-config", os.path.join(SPEC, cfg), os.path.join(SPEC, module)]
    env = {"TRACE": events_path, "_JTO": "-Dtlc2.tool.queue.IStateQueue=StateDeque"}
    rc, out = _java(args, env, timeout, xmx=xmx, xss="1g")
    shutil.rmtree(md, ignore_errors=True)
    res = {"mismatches": [], "drifts": [], "badcases": [], "tags": [], "accepted": False, "out": out}
    for line in out.splitlines():
        line = line.strip()
        if not line.startswith('"'):
            continue
        body = line[1:-1] if line.endswith('"') else line[1:]
        parts = body.split(";;;")
        if parts[0] == "MISMATCH" and len(parts) >= 6:
            res["mismatches"].append({"l": int(parts[1]), "kind": parts[2], "sig": parts[3],
                                      "expected": parts[4][:400], "observed": ";;;".join(parts[5:])[:400]})
        elif parts[0] == "DRIFT" and len(parts) >= 6:
            res["drifts"].append({"l": int(parts[1]), "kind": parts[2], "sig": parts[3],
                                  "expected": parts[4][:200], "observed": parts[5][:200]})
        elif parts[0] == "BADCASE":
            res["badcases"].append({"l": int(parts[1]), "why": ";;;".join(parts[2:])})
        elif parts[0] == "TAG" and len(parts) >= 3:
            res["tags"].append((int(parts[1]), parts[2]))
        elif parts[0] == "REJECTED":
            res["rejected"] = parts[1:]
    res["accepted"] = rc == 0 and "No error has been found" in out and "rejected" not in res
    if not res["accepted"] and "rejected" not in res:
        # evaluation error inside the trace spec: tool error
        err = ToolError("trace validation %s on %s aborted:\n%s" % (module, events_path, out[-4000:]))
        err.out = out
        raise err
    if "rejected" in res:
        raise ToolError("trace %s not fully consumed: %s" % (events_path, res["rejected"]))
    return res


# --------------------------------------------------------------------------- known findings
def load_known(prop):
    known, fixed = [], []
    if os.path.exists(KNOWN):
        for line in open(KNOWN):
            line = line.strip()
            if line.startswith("known:"):
                m = re.match(r"known: property=(\S+) key=(\S+) what=(.*)", line)
                if m and m.group(1) == prop:
                    known.append({"key": m.group(2), "what": m.group(3)})
            elif line.startswith("fixed:"):
                fixed.append(line)
    return known, fixed


# --------------------------------------------------------------------------- a check run
class Case:
    """One independent abstract case = a self-contained list of script lines."""
    __slots__ = ("lines", "desc", "nontrivial", "key", "first", "prelude")

    def __init__(self, lines, desc=None, nontrivial=True, key=None, prelude=False):
        self.lines = lines
        self.desc = desc if desc is not None else lines[0]
        self.nontrivial = nontrivial
        self.key = key
        self.prelude = prelude


class Run:
    def __init__(self, prop, tier, seed, level="model_checking"):
        self.prop, self.tier, self.seed, self.level = prop, tier, seed, level
        self.t0 = time.time()
        self.mc = []
        self.cases = []
        self.mismatches = []      # (case, mismatch dict)
        self.drifts = []
        self.events = 0
        self.traces = 0
        self.samples = []
        self.notes = {}
        self.assumptions = []
        self.exhaustive = False
        self.rule = ""
        self.work = os.path.join(WORK, prop)
        shutil.rmtree(self.work, ignore_errors=True)
        os.makedirs(self.work, exist_ok=True)
        self.violations = []
        self.known_hit = {}

    # -- model checking of bounded configs
    def model_check(self, module, cfg, **kw):
        r = tlc_mc(module, cfg, **kw)
        log("[mc] %s %s: %d distinct / %d generated states in %.1fs" %
            (module, cfg, r["states"], r["transitions"], r["wall_s"]))
        never = sorted(a for a, n in r["actions"].items() if n == 0)
        self.mc.append({"module": module, "cfg": cfg, "states": r["states"],
                        "transitions": r["transitions"], "wall_s": r["wall_s"],
                        "actions": r["actions"], "never_taken": never})
        return r

    # -- conformance: execute cases on the real library, validate with TLC
    def conform(self, cases, module, cfg, prelude=None, epilogue=None, shards=12, tag="t",
                mode="run", timeout=3000, xmx="3g", kinds=None, post=None):
        """cases: list[Case]; prelude/epilogue: script lines put around every shard."""
        prelude = prelude or []
        epilogue = epilogue or []
        if not cases:
            return
        shards = max(1, min(shards, len(cases)))
        jobs = []
        for s in range(shards):
            chunk = cases[s::shards]          # round-robin: expensive neighbours are spread
            if not chunk:
                continue
            sp = os.path.join(self.work, "%s%02d.script.ndjson" % (tag, s))
            ep = os.path.join(self.work, "%s%02d.events.ndjson" % (tag, s))
            index = []   # event number (1-based) -> case
            with open(sp, "w") as f:
                for ln in prelude:
                    f.write(json.dumps(ln, separators=(",", ":")) + "\n")
                    index.append(None)
                for c in chunk:
                    for ln in c.lines:
                        f.write(json.dumps(ln, separators=(",", ":")) + "\n")
                        index.append(c)
                for ln in epilogue:
                    f.write(json.dumps(ln, separators=(",", ":")) + "\n")
                    index.append(None)
            jobs.append((sp, ep, index, chunk))
        # the shim runs shards sequentially (cheap); TLC validations run in parallel
        t0 = time.time()
        for sp, ep, index, chunk in jobs:
            try:
                run_shim(sp, ep, mode=mode)
            except ToolError as e:
                if mode != "run":
                    raise
                # the library took the whole process down (abort, stack overflow, out of memory) on one of the calls:
                # run the shard again under the supervisor, which isolates every call in a worker process, records the
                # crash as that call's outcome and carries on; the trace specification then rejects that event
                log("[conform] %s: %s - re-running the shard under the supervisor" % (os.path.basename(sp), str(e)[:80]))
                run_shim(sp, ep, mode="supervise")
            if post:
                # pure re-encoding of bulky observed fields (e.g. patch bytes -> abstract chunk list)
                lines = [json.dumps(post(json.loads(x)), separators=(",", ":")) for x in open(ep)]
                open(ep, "w").write("\n".join(lines) + "\n")
        t1 = time.time()

        def validate(job):
            """Trace validation of one shard.  An event whose shape the specification cannot even evaluate (a field the
            library normally returns is missing, a value has another type) aborts TLC: that event is not explained by the
            specification - a rejection in the sense of trace validation, not a tool error.  It is recorded as a mismatch
            of kind trace-unexplained for its case, the case is taken out and the rest of the shard is validated."""
            sp, ep, index, chunk = job
            cur_ep, cur_index, extra = ep, index, []
            for attempt in range(5):
                try:
                    return tlc_trace(module, cfg, cur_ep, timeout=timeout, xmx=xmx), cur_index, extra
                except ToolError as e:
                    out = getattr(e, "out", None)
                    at = re.findall(r"^/\\ l = (\d+)\s*$", out or "", re.M)
                    if not at:
                        raise
                    L = int(at[-1])
                    c = cur_index[L - 1] if 0 < L <= len(cur_index) else None
                    if c is None:
                        raise
                    why = re.search(r"(Attempted to [^\n]*|The exception was[^\n]*\n[^\n]*|Error: [^\n]*evaluat[^\n]*)", out)
                    extra.append((c, {"l": L, "kind": "trace-unexplained", "sig": "<<%s>>" % c.lines[0].get("case", "?"),
                                      "expected": "an event the specification can evaluate",
                                      "observed": (why.group(1) if why else "TLC evaluation error")[:300].replace("\n", " ")}))
                    lines = open(cur_ep).read().splitlines()
                    keep = [i for i in range(len(cur_index)) if cur_index[i] is not c]
                    cur_ep = "%s.retry%d" % (ep, attempt + 1)
                    open(cur_ep, "w").write("\n".join(lines[i] for i in keep) + "\n")
                    cur_index = [cur_index[i] for i in keep]
            # too many unexplained events in this shard: report those found, leave the rest of the shard unvalidated
            self.notes.setdefault("shards_abandoned_after_unexplained_events", []).append(os.path.basename(ep))
            return {"mismatches": [], "drifts": [], "badcases": [], "tags": [], "accepted": False, "out": ""}, cur_index, extra
        with ThreadPoolExecutor(max_workers=min(len(jobs), 14)) as ex:
            results = list(ex.map(validate, jobs))
        log("[conform] %s: %d cases, shim %.1fs, TLC %.1fs" % (tag, len(cases), t1 - t0, time.time() - t1))
        for (sp, ep, index0, chunk), (r, index, extra) in zip(jobs, results):
            for (c, m) in extra:
                self.mismatches.append((c, m, prelude, epilogue))
            if r["badcases"]:
                raise ToolError("generator/spec disagreement: %s" % r["badcases"][:3])
            self.events += len(index)
            self.traces += len(chunk)
            for m in r["mismatches"]:
                if kinds is not None and not kinds(m["kind"]):
                    continue
                c = index[m["l"] - 1] if 0 < m["l"] <= len(index) else None
                self.mismatches.append((c, m, prelude, epilogue))
            self.drifts += r["drifts"]
        self.cases += cases
        self.last_conform = {"module": module, "cfg": cfg, "events": [ep for (sp, ep, index, chunk) in jobs], "xmx": xmx, "timeout": timeout}
        for c in cases:
            if len(self.samples) < 4:
                self.samples.append(c.desc)

    # -- demonstration of the binding (./check <id> --selftest; not a registered command)
    def selftest(self, per_shard=12):
        """Corrupts recorded results of the last conformance run (one scalar per chosen event: an integer + 1, a boolean
        flipped) and validates the corrupted traces: the specification has to reject events it accepted before.  Prints
        one SELFTEST line; exit 0 when at least a third of the corrupted events are reported."""
        lc = getattr(self, "last_conform", None)
        if not lc:
            raise ToolError("no conformance run to corrupt")

        def leaves(v, path=()):
            """paths of the boolean / integer leaves of a result (measurements excluded)"""
            if isinstance(v, bool) or isinstance(v, int):
                yield path
            elif isinstance(v, list):
                for i, x in enumerate(v):
                    yield from leaves(x, path + (i,))
            elif isinstance(v, dict):
                for k in v:
                    if k not in ("ms", "peak", "residual"):
                        yield from leaves(v[k], path + (k,))

        def damaged(v, path):
            if not path:
                return (not v) if isinstance(v, bool) else v + 1
            if isinstance(v, list):
                return v[:path[0]] + [damaged(v[path[0]], path[1:])] + v[path[0] + 1:]
            return dict(v, **{path[0]: damaged(v[path[0]], path[1:])})

        def corrupt(v, salt):
            ps = list(leaves(v))
            if ps:
                return damaged(v, ps[(salt * 7919) % len(ps)]), True
            if isinstance(v, dict) and isinstance(v.get("outcome"), str):        # nothing else to damage: the outcome itself
                return dict(v, outcome="crash"), True
            return v, False
        corrupted, reported = 0, 0
        for ep in lc["events"][:3]:
            lines = [json.loads(x) for x in open(ep)]
            step = max(1, len(lines) // per_shard)
            touched = set()
            for i in range(0, len(lines), step):
                if "res" in lines[i]:
                    new, ok = corrupt(lines[i]["res"], i)
                    if ok:
                        lines[i]["res"] = new
                        touched.add(i + 1)
            cp = ep + ".selftest"
            open(cp, "w").write("\n".join(json.dumps(x, separators=(",", ":")) for x in lines) + "\n")
            hit = set()
            cur = cp
            for attempt in range(8):
                try:
                    r = tlc_trace(lc["module"], lc["cfg"], cur, timeout=lc["timeout"], xmx=lc["xmx"])
                    hit |= {m["l"] for m in r["mismatches"]} | {b["l"] for b in r["badcases"]}
                    break
                except ToolError as e:
                    at = re.findall(r"^/\\ l = (\d+)\s*$", getattr(e, "out", "") or "", re.M)
                    if not at:
                        raise
                    # the corrupted event cannot even be evaluated: rejected; neutralise it and go on
                    L = int(at[-1])
                    hit.add(L)
                    ls = open(cur).read().splitlines()
                    ls[L - 1] = json.dumps({"op": "mark", "res": {"outcome": "mark"}})
                    cur = cp + ".%d" % attempt
                    open(cur, "w").write("\n".join(ls) + "\n")
            corrupted += len(touched)
            reported += len(touched & hit) + len({x for x in hit if x not in touched and any(abs(x - t) <= 3 for t in touched)})
        print("SELFTEST property=%s corrupted=%d reported=%d" % (self.prop, corrupted, min(reported, corrupted)))
        return 0 if corrupted and reported * 3 >= corrupted else 1

    # -- verdict
    def finish(self):
        known, _fixed = load_known(self.prop)
        os.makedirs(REPLAYS, exist_ok=True)
        seen_sig = set()
        allkeys = {}
        per_kind = {}
        out_lines = []
        nviol = 0
        for (c, m, prelude, epilogue) in self.mismatches:
            # the signature reduced to a plain token (letters, digits and a little punctuation) so that
            # known_findings.txt can name it without quoting rules
            key = "%s:%s" % (m["kind"], re.sub(r"[^A-Za-z0-9_:.,<>/-]", "", m["sig"]))
            hit = None
            for k in known:
                if k["key"] == m["kind"] or k["key"] == key or re.fullmatch(k["key"], key):
                    hit = k
                    break
            if hit:
                self.known_hit.setdefault(hit["key"], [hit, 0])[1] += 1
                continue
            nviol += 1
            allkeys[key] = allkeys.get(key, 0) + 1
            if key in seen_sig or len(seen_sig) >= 25 or per_kind.get(m["kind"], 0) >= 3:
                continue
            per_kind[m["kind"]] = per_kind.get(m["kind"], 0) + 1
            seen_sig.add(key)
            h = hashlib.sha1(key.encode()).hexdigest()[:10]
            rp = os.path.join(REPLAYS, "%s-%s.json" % (self.prop, h))
            lines = list(prelude) + (c.lines if c else []) + list(epilogue)
            json.dump({"property": self.prop, "key": key, "mismatch": m,
                       "case": c.desc if c else None, "script": lines}, open(rp, "w"))
            out_lines.append("VIOLATION property=%s replay=%s" % (self.prop, rp))
            log("  mismatch %s expected=%s observed=%s" % (key, m["expected"][:160], m["observed"][:160]))
        if os.environ.get("VERIF_ALLKEYS"):      # triage aid: every unlisted key with its count
            for k, n in sorted(allkeys.items()):
                log("  key %5d %s" % (n, k))
        for k, (hit, n) in sorted(self.known_hit.items()):
            print("KNOWN-FINDING: property=%s %s (%d occurrences, key %s)" % (self.prop, hit["what"], n, k))
        for l in out_lines:
            print(l)
        self.write_evidence(nviol)
        sys.stdout.flush()
        return 1 if out_lines else 0

    def write_evidence(self, nviol):
        keys = set()
        nontrivial = 0
        for c in self.cases:
            k = c.key if c.key is not None else hashlib.sha1(
                json.dumps(c.lines, sort_keys=True).encode()).hexdigest()
            if k in keys:
                continue
            keys.add(k)
            if c.nontrivial:
                nontrivial += 1
        cov = {
            "states": sum(m["states"] for m in self.mc),
            "transitions": sum(m["transitions"] for m in self.mc),
            "traces_validated_against_impl": self.traces,
            "evaluations": self.events,
            "distinct_nontrivial": nontrivial,
            "rule": self.rule,
            "samples": self.samples[:4] or ["(none)"],
            "exhaustive": self.exhaustive,
            "model_checking": [{k: v for k, v in m.items()} for m in self.mc],
            "actions_never_taken": sorted({a for m in self.mc for a in m["never_taken"]}),
            "spec_drift": self.drifts[:20],
            "spec_drift_count": len(self.drifts),
            "known_findings_met": {k: v[1] for k, v in self.known_hit.items()},
        }
        cov.update(self.notes)
        ev = {"property_id": self.prop, "tier": self.tier, "seed": self.seed, "level": self.level,
              "coverage": cov, "assumptions": self.assumptions,
              "wall_s": round(time.time() - self.t0, 1), "violations": nviol}
        # evidence/ is for the listed properties; checks beyond the list (LIFECYCLE) keep theirs in the scratch area
        dest = EVIDENCE if re.fullmatch(r"C\d\d", self.prop) else os.path.join(WORK, "evidence")
        os.makedirs(dest, exist_ok=True)
        json.dump(ev, open(os.path.join(dest, "%s.json" % self.prop), "w"), indent=1)
