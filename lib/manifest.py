"""Regenerates MANIFEST.json from the table below (kept valid at all times)."""
import json, os
ROOT = os.path.dirname(os.path.dirname(os.path.abspath(__file__)))
CLAIMED = {
 "C15": dict(cat="model_checking", tech="TLC exhaustive check of Names.tla + TLC trace validation of the complete table dump",
             text="The domain is finite: TLC checks the structural laws (tribe partition, code injectivity on body types, "
                  "deconstruct-of-build for all 10x10000 names, read-side = patch-side file names on all 60000 combinations, "
                  "comparator-driven sort for every discovery order) on the specification, and the real library's complete "
                  "tables are dumped and validated against the specification event by event.",
             note="Trusts TLC, the shim's projection of results to JSON, the recalled game numbering of tribes and path formats.",
             ref="5 C15"),
 "C08": dict(cat="model_checking", tech="TLC model checking of the config-object state machine + transition-cover replay + TLC trace validation at byte level",
             text="TextFormats.tla gives the byte grammar (render/parse) and the object under set_value; TLC checks round-trip, "
                  "canonical reproduction, the all-and-only law of set_value and query agreement on every reachable state of a bounded "
                  "model (thorough: histories of every length, fixpoint); one history per transition of that model, random configurations and the fixtures are executed on the real "
                  "ConfigFile/EXL and every call's arguments and results are validated by TLC against the specification.",
             note="Trusts TLC, gen/text.py (independent renderer), the shim's projection; quantifier limited to distinct category names and text without structural characters.",
             ref="5 C08"),
 "C10": dict(cat="model_checking", tech="TLC check of Meta.tla round trips + TLC trace validation of tables/lists (SHA-1 evaluated in TLA+)",
             text="Meta.tla gives the 96-byte record layout and the patch-list grammar with decimal-string arithmetic for 63-bit totals; "
                  "TLC checks render/parse round trips on a small domain; FileInfo::new on real files of every length 0..300 plus padding "
                  "edges, and patch lists rendered by the library and by an independent concretiser, are validated event by event, "
                  "with the digest recomputed by the specification's own FIPS 180-1 SHA-1.",
             note="Trusts TLC, gen/meta.py, the shim's projection; FIIN layout corroborated by the repository fixture.",
             ref="5 C10"),
 "C12": dict(cat="model_checking", tech="TLC evaluation of Hashes.tla (CRC register machine, SHA-1) against published vectors + trace validation of the real hash functions",
             text="Hashes.tla defines the reflected CRC-32 bit-serially and table-driven (proved equal for every byte on three registers), JAMCRC, "
                  "the zero-initialised variant and SHA-1, checked against published values; every ASCII string of length <= 2, class "
                  "representatives to length 4, every length 0..300 in both cases and every SHA-1 content length 0..300 are hashed by the real "
                  "library and compared by TLC.",
             note="Trusts TLC and the Bitwise Java overrides; exhaustive only within the stated length bounds.",
             ref="5 C12"),
 "C03": dict(cat="model_checking", tech="TLC model checking of the patch state machine (ZiPatch.tla) + replay of every bounded chunk sequence + TLC trace validation at byte level",
             text="ZiPatch.tla is the reference semantics of a chunk stream on a directory tree (one action per chunk kind). TLC explores every "
                  "chunk sequence of length <= 3 with patch boundaries over a 30-op alphabet and 3 initial trees (frame condition, canonical names, "
                  "ok-iff-EOF, fold = step-wise). Every one of those sequences, a file-name sweep and random long patches / chains are encoded by an "
                  "independent encoder, applied by the real library, and the resulting tree is compared by TLC with the specification's Apply.",
             note="Trusts TLC, gen/zipatch.py (wire format recalled from XIVLauncher), the shim's tree snapshot; directories compared as 'required dirs exist'.",
             ref="5 C03"),
 "C04": dict(cat="model_checking", tech="TLC check of Apply(A, Create(A,B)) = NonEmpty(B) on all 65536 tree pairs + trace validation of real create/apply",
             text="The composition law is checked by TLC on the specification for every pair of trees over 4 paths; the same pairs (quick: 6561) and "
                  "random pairs with block-boundary sizes are given to the real ZiPatch::create, its output is decoded by an independent structure-driven "
                  "decoder, and TLC checks purity, the law on the decoded chunks, the real apply result and their agreement.",
             note="Trusts TLC, gen/zipatch.py's decoder, the shim's tree snapshot.",
             ref="5 C04"),
 "C01": dict(cat="model_checking", tech="TLC model checking of the GameData handle (disk, memo, reply) + transition-cover replay + TLC trace validation with the specification's own path hashing",
             text="SqPack.tla defines path resolution, keys and the reference answers; MC_SqPack explores every query history over 913 "
                  "layouts (quick: <= 3 calls; thorough: no bound - the memo saturates and TLC reaches the fixpoint over (layout, memo, last call) states) with the implementation-shaped memoised search and checks AnswerIsReference, HistoryFree, CaseFree, FallbackToBase. One history "
                  "per transition of that model and stratified random installations are written to disk by an independent SqPack writer, queried "
                  "through the real GameData, and TLC recomputes category, repository, file, JAMCRC key, entry and location for every answer and compares every answer of a handle with its earlier answers to the same question (incl. paths held by two chunks).",
             note="Trusts TLC, gen/sqpack.py (layout recalled from public docs), the shim; index-type position unverifiable offline (written at both candidates).",
             ref="5 C01"),
 "C02": dict(cat="model_checking", tech="TLC check of the reassembly laws (incl. model header) and inflate lifecycle machine + TLC trace validation of real extractions in a run-length payload algebra",
             text="The data side of SqPack.tla defines extraction per entry kind over an abstract payload algebra; TLC checks HeaderDescribesOutput on all 6561 "
                  "model block-count vectors and the block-reader lifecycle (no live inflate stream on return). Real extractions (standard/texture/model, "
                  "raw/stored/fixed/dynamic blocks, every payload length 1..300, class lengths to 16000, up to 70 blocks) via read_from_offset and "
                  "GameData::extract are compared by TLC with Extract(descriptor).",
             note="Trusts TLC, gen/sqpack.py, Python zlib for building inputs; inflate correctness itself is out of scope.",
             ref="5 C02"),
 "C05": dict(cat="model_checking", tech="TLC round trip of Excel.tla on every 1..2-column schema + TLC trace validation of real reads on the same bytes (direct and through a synthetic archive)",
             text="Excel.tla is the byte-level addressing (row index, sub-row stride, per-type width, packed-bool bit, string heap) with its own writer; TLC "
                  "checks ReadRow(Encode(rows)) = rows for all 18744 bounded schemas. The same schemas, random sheets and sheets stored in synthetic "
                  "archives are written by an independent Python encoder, decoded by the real EXH/EXD/GameData code, and TLC decodes the same bytes "
                  "and compares every cell, unknown ids, sheet names, header/page location and file names.",
             note="Trusts TLC, gen/excel.py, gen/sqpack.py; one known finding (single sub-row rows) is listed, not suppressed for other inputs.",
             ref="5 C05"),
 "C11": dict(cat="model_checking", tech="TLC evaluation of Blowfish.tla with pi-derived tables against the published ECB vectors + TLC trace validation of real encrypt/decrypt and of the constant tables",
             text="Blowfish.tla is the 16-round Feistel network and key schedule over tables generated from the hexadecimal digits of pi; TLC confirms the "
                  "seven classic vectors and the inversion/framing laws. Real Blowfish::new/encrypt/decrypt runs for vector keys, long keys with differing "
                  "tails and random keys over every message length 0..40 (plus KiB messages) are recomputed by TLC, and all 1042 constant words are "
                  "compared with the pi expansion through a guarded accessor.",
             note="Trusts TLC, gen/pi_hex.py's big-integer arithmetic (cross-checked by the published vectors), hook H1 (add-only, cfg(physis_verif)).",
             ref="5 C11"),
 "C13": dict(cat="model_checking", tech="TLC check of Tex.tla addressing/palette laws + TLC trace validation of every decoded pixel against the specification's integer BCn decoder",
             text="Tex.tla defines header, pixel <- (block, texel) addressing with stacked depth slices and the BC1/BC3/BC5/BGRA decode in integer arithmetic; "
                  "TLC checks the addressing bijection for all geometries 1..9 x 1..9 and the palette/mode laws. Per-block endpoint/selector sweeps, a geometry "
                  "sweep incl. non-multiples of 4 and depth, attribute words and random payloads are decoded by the real library and every pixel is "
                  "recomputed by TLC from the same file bytes.",
             note="Trusts TLC; BCn arithmetic conventions as recalled from the Direct3D description; BC1 black-entry alpha excluded by the property.",
             ref="5 C13"),
 "C09": dict(cat="model_checking", tech="TLC check of the documented position/checksum/marker laws + TLC trace validation of files written and parsed by the real library",
             text="UserFiles.tla holds the documented byte positions of the character preset, its checksum, the gear-set header, XOR mask, 100 x 452-byte "
                  "records and the +1 000 000 item-id marker; TLC checks position law, checksum (incl. a fixture value) and round trip on an enumerated "
                  "domain. Presets with every field swept over its byte values, timestamps, comment lengths and gear tables over every slot x id class "
                  "are written by the library, decoded by the specification (independent decoder), parsed back, and canonical files from an independent "
                  "encoder and the fixtures must be reproduced byte for byte.",
             note="Trusts TLC, gen/userfiles.py; layouts corroborated by the five repository fixtures. The 45 KB re-write comparison is the shim's bit-exact echo test.",
             ref="5 C09"),
 "C06": dict(cat="model_checking", tech="TLC check of the addressing formula and exact half->single conversion (all 65536 patterns) + TLC trace validation of real parses with the specification's byte-level reference reader",
             text="Mdl.tla is the structural reference reader (header chain, 17-slot declarations, attribute address = LOD offset + stream offset + element "
                  "offset + stride x k, typed decode with an exact bit-level half conversion and generated byte/255 tables). TLC checks that elements read their "
                  "own bytes for every declaration of the bounded family and the conversion laws for every half pattern. Every declaration of that family, "
                  "leaf sweeps over all half patterns and bytes, and random multi-LOD models built by an independent encoder are parsed by the real library and "
                  "every vertex, index, sub-mesh, raw stream and name is recomputed by TLC from the same bytes.",
             note="Trusts TLC, gen/mdl.py (layout recalled from public docs; accepted by the library), gen/float_tables.py; NaN payloads unconstrained.",
             ref="5 C06"),
 "C07": dict(cat="model_checking", tech="TLC model checking of the model-under-edit state machine (header recomputation invariants over all edit orders) + transition-cover replay + TLC trace validation of every written file",
             text="MdlEdit.tla models meshes under replace / add-shape / remove-shapes with the header recomputation as designed; TLC checks sections disjoint, in "
                  "bounds, count x stride, 16-padded, streams tiling and mesh index ranges over every history of <= 3 edits (268k states). Histories sampled from "
                  "its transition cover, random histories up to 65535 vertices, unedited writes for every writable encoding, codec sweeps over every finite half "
                  "and byte, and the sample model are executed on the real MDL; after every settled edit TLC re-reads the written bytes with Mdl.tla's reference "
                  "reader, checks the same conditions on the real header and that written and re-parsed geometry equal what was supplied.",
             note="Trusts TLC, gen/mdl.py; meshes above 2000 vertices are compared by the shim's bit-exact echo test; version 5 only (README declares Dawntrail writes broken).",
             ref="5 C07"),
 "C17": dict(cat="fault_enumeration", tech="fault space enumerated by TLC from Faults.tla (field maps x boundary values, truncation points) + isolated-worker execution + TLC validation of the outcome contract; patch machine OkIffEof model-checked",
             text="The specification contributes the fault space (every truncation point and every single-field corruption with boundary values over the field "
                  "maps of valid bases of each format, checked for its own laws by TLC) and the contract (outcome is fail or value, memory bound, a truncated or "
                  "unwritable patch never reports success; OkIffEof is model-checked on the patch state machine). Every (base, fault) pair, named text/path faults "
                  "and patch fault sequences run against the real entry points in an isolated worker with a counting allocator and a watchdog; TLC judges each "
                  "recorded outcome. Whether Rust code panics is observed, not proved.",
             note="Trusts TLC, the supervisor/worker (panic hook, RLIMIT_AS 4 GiB, RLIMIT_FSIZE 512 MiB, 8 s watchdog). Known findings listed per entry point and field.",
             ref="5 C17"),
 "C18": dict(cat="fault_enumeration", tech="fault space enumerated by TLC from Faults.tla over generated assets and archive files + isolated-worker execution + TLC validation of the outcome contract incl. residual heap; inflate lifecycle model-checked",
             text="Same construction as C17 over the game assets and the archive: field maps of generated valid bases (model, four texture formats, EXH, EXD with "
                  "read_row on every id, index, dat entries of each kind, materials, shader package, skeleton containers, deformer, terrain, layer group, staining template, effect file, word dictionary (a valid trie whose walk is specified in Dictionary.tla); all drawn from a fixed stream so that the run does not depend on VERIF_SEED), arbitrary and magic-prefixed blobs for every asset entry point, and installation fault "
                  "sequences (missing / truncated index and dat at structure boundaries, stray directories). The block reader's inflate lifecycle (no live stream on "
                  "return, also on failure) is model-checked; the real residual heap after a failed read is observed through malloc's accounting.",
             note="Trusts TLC, the supervisor/worker, mallinfo2 for residual heap (4 KiB slack). Formats without a generator yet are exercised with blobs only. Known findings listed per entry point.",
             ref="5 C18"),
 "C14": dict(cat="model_checking", tech="TLC check of the selector polynomial / modular multiplication / alias resolution laws + TLC trace validation of real material and shader-package parses against the byte-level grammar",
             text="MtrlShpk.tla is the byte-level grammar of both formats (conditional tables, dye bit fields, string heaps, variable-size shader and node records), "
                  "the selector table with first-match resolution and the base-31 selector polynomial in 16-bit limb arithmetic, checked by TLC against "
                  "hand-computed values. Generated materials (distinct halves in every colour-table component, every dye bit) and shader packages (aliases "
                  "incl. one shadowed by a node) are parsed by the real library and every reported component is recomputed by TLC from the same bytes.",
             note="Trusts TLC, gen/mtrlshpk.py; private fields are read through Debug formatting in the shim.",
             ref="5 C14"),
 "C16": dict(cat="model_checking", tech="TLC model checking of the tag-file reader and deformer-walk state machines against a TLA+ writer / a declarative chain + TLC trace validation of real skeleton, deformer, scaling, terrain and layer-group calls",
             text="HavokTag.tla is the version-3 binary tag file reader as a state machine (packed integers, remembered strings / types / objects, "
                  "inheritance-flattened members, presence bit fields, structure arrays stored column by column, defaults, reference resolution) and the "
                  "skeleton extraction; TLC explores it on every file of a small TLA+ writer (960 files: names, parents, decoys, absent members, padded "
                  "integers, type orders) with progress, monotone tables, termination and decode(encode) = model, plus packed-integer and bit-field codec laws. "
                  "Assets16.tla has the deformer walk as a state machine, checked on all forests of <= 4 items x all link permutations x all decided queries "
                  "against a declarative ancestor-chain reading, and the scaling / terrain / layer layouts with exact int->f32 positions. Generated files "
                  "are parsed (and terrains / layer groups written and re-parsed) by the real library and every result is recomputed by TLC from the bytes; "
                  "the generator's own abstract skeleton is a third opinion.",
             note="Trusts TLC and gen/assets16.py (independent writers); layouts recalled from public format descriptions; no-sibling and equal-id deformer queries unconstrained as the property states.",
             ref="5 C16"),
}
HOOK_COMMITS = ["5eeb305"]
REASON_PENDING = "check not built yet in this session (see DESIGN.md section 5); will be claimed when its trace specification exists"

def main():
    props = [json.loads(l) for l in open(os.path.join(ROOT, "properties.jsonl"))]
    man = json.load(open(os.path.join(ROOT, "MANIFEST.json")))
    man["checks"], man["not_applicable"] = [], []
    for p in props:
        i = p["id"]
        if i in CLAIMED:
            c = CLAIMED[i]
            man["checks"].append({
                "property_id": i, "quick_cmd": "./check %s --tier quick" % i,
                "thorough_cmd": "./check %s --tier thorough" % i,
                "evidence_file": "/verif/evidence/%s.json" % i,
                "replay_cmd_template": "./check %s --replay {path}" % i, "engine": "check",
                "level_claimed": {"category": c["cat"], "text": c["text"], "design_ref": "DESIGN.md section " + c["ref"]},
                "level_note": c["note"], "technique": c["tech"]})
        else:
            man["not_applicable"].append({"property_id": i, "reason": REASON_PENDING})
    man["engines"][0]["serves_properties"] = sorted(CLAIMED)
    man["hooks"]["source_commits"] = HOOK_COMMITS
    man["notes"] = ("fix: commits in /repo are listed in known_findings.txt; beyond the listed properties ./check LIFECYCLE | DICTIONARY | "
                    "LAYERGROUP | CHATLOG run further specification modules against the library (DESIGN.md 11.6; not registered: they decide "
                    "none of the 18 properties)")
    man["setup_cmd"] = "cd /verif && python3 gen/pi_hex.py && python3 gen/float_tables.py && cd shim && CARGO_NET_OFFLINE=true cargo build --offline --quiet"
    json.dump(man, open(os.path.join(ROOT, "MANIFEST.json"), "w"), indent=1)

if __name__ == "__main__":
    main()
