#!/bin/bash
# try_seed.sh <property> <patch.diff> [tier] : applies the seeded change to /repo, runs the check, undoes it
P=$1; D=$2; T=${3:-quick}
cd /repo && git apply $D || { echo "patch does not apply"; exit 2; }
cd /verif && ./check $P --tier $T > /tmp/try_$P.out 2> /tmp/try_$P.err; RC=$?
cd /repo && git checkout -q -- .
echo "TRY $P $D rc=$RC"; grep -E "VIOLATION|KNOWN" /tmp/try_$P.out | head -5; grep "mismatch" /tmp/try_$P.err | head -5
