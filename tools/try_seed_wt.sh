#!/bin/bash
# try_seed_wt.sh <property> <scratch worktree> <patch.diff> [tier] : applies the seeded change in a scratch worktree of /repo
# and runs the check against it (VERIF_REPO), leaving /repo untouched; the shim is built inside the worktree
P=$1; WT=$2; D=$3; T=${4:-quick}
cd $WT && git checkout -q -- . && git apply $D || { echo "patch does not apply"; exit 2; }
cd /verif && VERIF_REPO=$WT ./check $P --tier $T > /tmp/try_$P.out 2> /tmp/try_$P.err; RC=$?
cd $WT && git checkout -q -- .
echo "TRY $P $D rc=$RC"; grep -E "VIOLATION|KNOWN" /tmp/try_$P.out | head -3; grep "mismatch" /tmp/try_$P.err | head -4 | cut -c1-260
