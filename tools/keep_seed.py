#!/usr/bin/env python3
"""keep_seed.py <src mutation dir> <seed id> <detected-by text> : archives a confirmed seeded change under /verif/seeded/<id>/"""
import json, os, shutil, sys
src, sid, detected = sys.argv[1], sys.argv[2], sys.argv[3]
dst = os.path.join("/verif/seeded", sid)
os.makedirs(dst, exist_ok=True)
for f in ("patch.diff", "demo.rs"):
    shutil.copy(os.path.join(src, f), os.path.join(dst, f))
meta = json.load(open(os.path.join(src, "meta.json")))
meta["confirmed_by_me"] = ["tools/confirm_seed.sh in a scratch worktree: patch applies, 79 lib tests pass with it, demo fails with it and passes without"]
meta["check_result"] = detected
json.dump(meta, open(os.path.join(dst, "meta.json"), "w"), indent=1)
print("kept", dst)
