#!/bin/bash
# recheck_seeds.sh : applies every archived seeded change to a scratch worktree of /repo's HEAD and runs the quick check of its
# property against it (VERIF_REPO); prints one line per seed (rc=1 = detected).  /repo itself is never touched.  ~2.5 h.
WT=/tmp/reseed_wt
HEADC=$(git -C /repo rev-parse HEAD)
git -C /repo worktree add --detach $WT $HEADC >/dev/null 2>&1
for d in /verif/seeded/*/; do
  id=$(basename $d); p=${id%%-*}
  cd $WT && git reset -q --hard $HEADC
  git apply $d/patch.diff 2>/dev/null || { echo "$id NOAPPLY"; continue; }
  (cd /verif && VERIF_REPO=$WT ./check $p --tier quick > /tmp/rs_$id.out 2> /tmp/rs_$id.err); echo "$id rc=$?"
  rm -rf /verif/work/scratch-*
done
git -C /repo worktree remove --force $WT
