#!/usr/bin/env python3
"""status_table.py : one line per property from evidence/*.json (states explored by TLC, behaviours replayed, wall time)"""
import glob, json
for f in sorted(glob.glob("/verif/evidence/C*.json")):
    e = json.load(open(f)); c = e["coverage"]
    mc = ", ".join("%s %d" % (m["cfg"].split("/")[-1].replace(".cfg", ""), m["states"]) for m in c.get("model_checking", []))
    print("| %s | %s | %d traces / %d events | %d s (%s) | known findings met: %d |" % (
        e["property_id"], mc, c.get("traces_validated_against_impl", 0), c.get("evaluations", 0), e.get("wall_s", 0), e["tier"],
        len(c.get("known_findings_met", {}))))
