#!/bin/bash
# confirm_seed.sh <worktree> <mutation dir>  : confirms (a) compiles (b) suite passes (c) demo fails with / passes without
WT=$1; M=$2
set -u
cd $WT || exit 2
git checkout -q -- . ; rm -f tests/demo.rs
git apply $M/patch.diff || { echo "CONFIRM: patch does not apply"; exit 2; }
SUITE=$(cargo test --offline --lib -- --test-threads 1 2>&1 | grep -E "^test result" | head -1)
cp $M/demo.rs tests/demo.rs
cargo test --offline --test demo >/tmp/confirm_with.log 2>&1; WITH=$?
git checkout -q -- .
cargo test --offline --test demo >/tmp/confirm_without.log 2>&1; WITHOUT=$?
rm -f tests/demo.rs
echo "CONFIRM: suite-with-patch: $SUITE ; demo with patch rc=$WITH (want !=0) ; demo without rc=$WITHOUT (want 0)"
