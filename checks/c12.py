"""C12 - path hash (JAMCRC of lower-cased bytes), shader key hash, SHA-1."""
import itertools
import random
from lib.harness import Case

MODULE, CFG = "trace/MetaTrace.tla", "trace/MetaTrace.cfg"
KINDS = ("path-hash", "shader-key-hash", "sha1-digest", "hash-outcome", "fiin-outcome", "fiin-size")
REP = [0x00, 0x2F, 0x2E, 0x5F, 0x30, 0x39, 0x41, 0x61, 0x5A, 0x7A, 0x4D, 0x7F]   # class representatives


from gen import sqpack as _sqpack
EMPTY_INDEX1 = _sqpack.index_file(1, []).hex()


def batches(strings, n0, size, tag):
    out = []
    for i in range(0, len(strings), size):
        chunk = strings[i:i + size]
        out.append(Case([{"op": "codec.hash", "case": n0 + i // size, "ss": chunk, "_index1": EMPTY_INDEX1}],
                        desc={"hash-batch": tag, "first": chunk[0], "count": len(chunk)},
                        key="%s-%d" % (tag, i), nontrivial=any(len(s) > 0 for s in chunk)))
    return out


def check(run):
    rng = random.Random(run.seed)
    run.model_check("mc/MC_Hashes.tla", "mc/MC_Hashes.cfg")
    cases = []
    # exhaustive: all ASCII strings of length 0..2
    short = [[]] + [[a] for a in range(128)] + [[a, b] for a in range(128) for b in range(128)]
    cases += batches(short, 0, 600, "ascii<=2")
    l3 = [list(t) for t in itertools.product(REP, repeat=3)]
    cases += batches(l3, 1000, 600, "rep^3")
    if run.tier == "thorough":
        l4 = [list(t) for t in itertools.product(REP, repeat=4)]
        cases += batches(l4, 2000, 600, "rep^4")
    # every length 0..300 with random ASCII content, in both cases of the letters
    byl = []
    for ln in range(0, 301):
        s = [rng.randrange(128) for _ in range(ln)]
        byl.append(s)
        byl.append([c - 32 if 97 <= c <= 122 else (c + 32 if 65 <= c <= 90 else c) for c in s])
    cases += batches(byl, 5000, 60, "len0..300")
    longs = [[rng.randrange(128) for _ in range(4096)] for _ in range(2 if run.tier == "quick" else 12)]
    cases += batches(longs, 6000, 1, "len4096")
    paths = [list(p.encode()) for p in ["exd/root.exl", "EXD/ROOT.EXL", "chara/human/c0101/skeleton/base/b0001/skl_c0101b0001.sklb",
                                        "PASS_0", "DecodeDepthBuffer", "bg/ffxiv/sea_s1/twn/s1t1/level/planmap.lgb",
                                        "bg/ffxiv/", "bg//file.tex", "bg/a//b.tex", "/", "//", "/x", "x/", "BG/Odd/"]]
    cases += batches(paths, 7000, 10, "paths")
    # capitals outside ASCII (no ASCII capital, with ASCII capitals, already lower case): the hash is of the lower-cased text, whatever
    # the script; lower-case forms from Python's str.lower() (letters with context-dependent or multi-character mappings are left out)
    words = ["É", "ÉCOLE", "école", "École", "ÜBER", "über", "Über/Straße", "ЖУК", "жук", "ΩΜΈΓΑ", "ωμέγα", "ÀÉÎÕÜ.tex", "chara/ÉQUIP/é0001.mdl".replace("/", "_"),
             "Ñandú", "ÇA", "Ångström", "日本語ABC", "ｆｕｌｌ", "ＡＢＣ", "Æther", "ŁÓDŹ", "Đ", "Ÿ"]
    words = [w for w in words if "/" not in w]
    cases.append(Case([{"op": "codec.hash", "case": 7500, "ss": [list(w.encode()) for w in words], "lowered": [list(w.lower().encode()) for w in words],
                        "_index1": EMPTY_INDEX1}], desc={"hash-batch": "non-ascii capitals", "count": len(words)}, key="nonascii"))
    # SHA-1 through FileInfo::new: every length 0..300 and the padding edges
    n = 8000
    for ln in list(range(0, 301)) + [1024 - 64 + e for e in (55, 56, 63, 64)] + [4096 + 55, 65536 - 8, 65536 + 56]:
        if ln <= 300:
            f = {"name": list(b"f.bin"), "content": [rng.randrange(256) for _ in range(ln)]}
        else:
            f = {"name": list(b"f.bin"), "pattern": {"n": ln, "a": rng.randrange(1, 256), "b": rng.randrange(256)}}
        cases.append(Case([{"op": "meta.fiin", "case": n, "files": [f]}], desc={"sha1-of-length": ln}, key="sha-%d" % ln))
        n += 1
    # several files in one call (the hasher's state must not carry over from one file to the next): tails that shrink and grow
    for lens in ([30, 10], [100, 70], [64, 0, 1], [63, 62, 61, 5], [120, 55, 56, 119, 0], [200, 199, 65, 64, 63, 1, 0, 300]):
        fs = [{"name": list(b"f%d.bin" % i), "content": [rng.randrange(1, 256) for _ in range(ln)]} for i, ln in enumerate(lens)]
        cases.append(Case([{"op": "meta.fiin", "case": n, "files": fs}], desc={"sha1-of-lengths": lens}, key="sha-multi-%s" % lens))
        n += 1
    for _ in range(10 if run.tier == "quick" else 100):
        lens = [rng.choice([0, 1, 9, 54, 55, 56, 57, 63, 64, 65, 119, 120, 128, 250]) for _ in range(rng.randint(2, 6))]
        fs = [{"name": list(b"r%d.bin" % i), "content": [rng.randrange(1, 256) for _ in range(ln)]} for i, ln in enumerate(lens)]
        cases.append(Case([{"op": "meta.fiin", "case": n, "files": fs}], desc={"sha1-of-lengths": lens}, key="sha-multi-%d" % n))
        n += 1
    if run.tier == "thorough":
        for ln in (1048576 + 119, 3 * 1048576 + 63):
            f = {"name": list(b"big.bin"), "pattern": {"n": ln, "a": rng.randrange(1, 256), "b": rng.randrange(256)}}
            cases.append(Case([{"op": "meta.fiin", "case": n, "files": [f]}], desc={"sha1-of-length": ln}, key="sha-%d" % ln))
            n += 1
    run.rule = ("all ASCII strings of length 0..2 (16513), all strings of length 3 (thorough: 4) over 12 class representatives, "
                "every length 0..300 in both letter cases, 4096-byte strings; SHA-1 for every content length 0..300 and the "
                "padding edges through FileInfo::new; a case is one batch of strings or one file, distinct by content, "
                "non-trivial when some string is non-empty")
    run.exhaustive = True
    run.notes["exhaustive_scope"] = "ASCII strings of length <= 2; SHA-1 content lengths 0..300"
    run.conform(cases, MODULE, CFG, kinds=lambda k: k in KINDS, shards=14, xmx="5g")
    run.assumptions = ["inputs are ASCII (the property's quantifier); non-ASCII lower-casing is out of scope"]


def replay(run, rp):
    run.conform([Case(rp["script"])], MODULE, CFG, shards=1, kinds=lambda k: k in KINDS)
