"""C08 - config and Excel-list text files under parse / edit / write."""
import random
from lib.harness import Case, tlc_generate, REPO
from gen.text import render_cfg, render_exl

MODULE, CFG = "trace/TextTrace.tla", "trace/TextTrace.cfg"
SOME = lambda v: {"some": True, "v": v}
NONE = {"some": False}


def call_line(c, n):
    op = c["op"]
    if op == "set":
        return {"op": "text.cfg.set", "h": 1, "case": n, "key": c["key"], "val": c["val"]}
    if op == "haskey":
        return {"op": "text.cfg.haskey", "h": 1, "case": n, "key": c["key"]}
    if op == "hascat":
        return {"op": "text.cfg.hascat", "h": 1, "case": n, "cat": c["cat"]}
    if op == "write":
        return {"op": "text.cfg.write", "h": 1, "case": n}
    if op == "reparse":
        return {"op": "text.cfg.reparse", "h": 1, "case": n}
    raise ValueError(op)


def norm(cfg):
    return [{"name": list(c["name"]), "pairs": [[list(k), list(v)] for k, v in c["pairs"]]} for c in cfg]


def history_case(n, init, calls, via_build):
    init = norm(init)
    if via_build:
        first = {"op": "text.cfg.build", "h": 1, "case": n, "cats": init}
    else:
        first = {"op": "text.cfg.parse", "h": 1, "case": n, "bytes": list(render_cfg(init)), "abs": SOME(init)}
    lines = [first] + [call_line(c, n) for c in calls]
    return Case(lines, desc={"init": init, "calls": [{k: v for k, v in c.items() if k not in ("ans", "bytes")} for c in calls],
                             "via": "build" if via_build else "parse"},
                nontrivial=bool(init) and bool(calls))


ALPHA = [c for c in range(32, 127) if c not in (60, 62)] + [0xC3, 0xA9]  # printable ASCII without < >; 'é' bytes appended below


def rtext(rng, lo, hi, tab=0.0):
    n = rng.randint(lo, hi)
    out = []
    for _ in range(n):
        r = rng.random()
        if r < tab:
            out.append(9)                       # TAB: allowed inside category names and values, not in keys
        elif r < 0.06:
            out += list("é".encode())          # 2-byte UTF-8
        elif r < 0.09:
            out += list("日".encode())          # 3-byte UTF-8
        else:
            out.append(rng.choice([c for c in range(32, 127) if c not in (60, 62)]))
    return out


def random_cfg(rng):
    ncat = rng.choice([0, 1, 2, 3, 5, 8, 30]) if rng.random() < 0.3 else rng.randint(0, 6)
    names = set()
    cats = []
    keypool = [rtext(rng, 0 if rng.random() < 0.1 else 1, 12) for _ in range(rng.randint(1, 8))]
    for _ in range(ncat):
        nm = rtext(rng, 1, 16, tab=0.04 if rng.random() < 0.3 else 0.0)
        if tuple(nm) in names:
            continue
        names.add(tuple(nm))
        nl = rng.choice([0, 0, 1, 2, 3, 20]) if rng.random() < 0.4 else rng.randint(0, 6)
        pairs = []
        for _ in range(nl):
            k = rng.choice(keypool) if rng.random() < 0.6 else rtext(rng, 1, 10)
            pairs.append([k, rtext(rng, 0, 10, tab=0.04 if rng.random() < 0.3 else 0.0)])
        cats.append({"name": nm, "pairs": pairs})
    return cats, keypool


def random_history(rng, n):
    cats, keypool = random_cfg(rng)
    calls = []
    catnames = [c["name"] for c in cats] + [rtext(rng, 1, 5)]
    for _ in range(rng.randint(1, 8)):
        r = rng.random()
        if r < 0.45:
            calls.append({"op": "set", "key": rng.choice(keypool), "val": rtext(rng, 0, 8, tab=0.04 if rng.random() < 0.3 else 0.0)})
        elif r < 0.6:
            calls.append({"op": "haskey", "key": rng.choice(keypool)})
        elif r < 0.8:
            calls.append({"op": "hascat", "cat": rng.choice(catnames)})
        elif r < 0.9:
            calls.append({"op": "write"})
        else:
            calls.append({"op": "reparse"})
    return history_case(n, cats, calls, rng.random() < 0.3)


def exl_cases(rng, n0, count):
    out = []
    ids = [-2**31, -1, 0, 7, 2**31 - 1]
    for i in range(count):
        ne = rng.choice([0, 1, 2, 5, 40])
        entries = []
        for _ in range(ne):
            nm = [c for c in rtext(rng, 1, 14) if c != 44] or [65]
            if rng.random() < 0.25:
                ok = [i for i in range(1, len(nm) + 1) if i == len(nm) or nm[i] < 128 or nm[i] >= 192]
                nm.insert(rng.choice(ok), 35)               # '#' inside a name is ordinary text
            if nm[0] == 35:
                nm[0] = 81                                  # ... only a leading '#' makes a comment row
            if bytes(nm) == b"EXLT":
                nm = [65]
            entries.append([nm, rng.choice(ids) if rng.random() < 0.5 else rng.randint(-2**31, 2**31 - 1)])
        if len(entries) >= 2 and rng.random() < 0.3:
            entries.insert(rng.randrange(1, len(entries) + 1), [list(entries[0][0]), rng.choice(ids)])     # a name listed twice
        version = rng.choice(ids + [2])
        probe = [e[0] for e in entries[:3]] + [[110, 111, 112, 101]]
        canon = render_exl(version, entries)
        absx = {"version": version, "entries": entries}
        lines = [{"op": "text.exl.write", "case": n0 + i, "version": version, "entries": entries},
                 {"op": "text.exl.parse", "case": n0 + i, "bytes": list(canon), "probe": probe,
                  "canonical": True, "abs": SOME(absx)}]
        # comment rows are dropped; CRLF line ends are tolerated (non-canonical)
        ncom = rng.randint(1, 3)
        comments = [(rng.randint(1, len(entries) + 1), b"#" + bytes(rtext(rng, 0, 6)).replace(b",", b"") + b",1")
                    for _ in range(ncom)]
        withc = render_exl(version, entries, comments)
        lines.append({"op": "text.exl.parse", "case": n0 + i, "bytes": list(withc), "probe": probe,
                      "canonical": False, "abs": SOME(absx)})
        # the game's own lists end their lines with CRLF
        lines.append({"op": "text.exl.parse", "case": n0 + i, "bytes": list(canon.replace(b"\n", b"\r\n") + b"\r\n"), "probe": probe,
                      "canonical": False, "abs": SOME(absx)})
        out.append(Case(lines, desc={"exl": absx, "comments": ncom}, nontrivial=ne > 0))
    return out


def fixture_cases(n0):
    out = []
    cfgb = open(REPO + "/resources/tests/FFXIV.cfg", "rb").read()
    k = list(b"CutsceneMovieOpening")
    out.append(Case([{"op": "text.cfg.parse", "h": 1, "case": n0, "bytes": list(cfgb), "abs": NONE},
                     {"op": "text.cfg.write", "h": 1, "case": n0},
                     {"op": "text.cfg.haskey", "h": 1, "case": n0, "key": list(b"TextureFilterQuality")},
                     {"op": "text.cfg.hascat", "h": 1, "case": n0, "cat": list(b"Cutscene Settings")},
                     {"op": "text.cfg.hascat", "h": 1, "case": n0, "cat": list(b"CUSTOM CONFIGURATION")},
                     {"op": "text.cfg.set", "h": 1, "case": n0, "key": k, "val": [49]},
                     {"op": "text.cfg.reparse", "h": 1, "case": n0}],
                    desc="fixture FFXIV.cfg: parse, write, queries, set CutsceneMovieOpening=1, reparse"))
    exlb = open(REPO + "/resources/tests/test.exl", "rb").read()
    out.append(Case([{"op": "text.exl.parse", "case": n0 + 1, "bytes": list(exlb), "probe": [list(b"Foo"), list(b"foo")],
                      "canonical": True, "abs": NONE}], desc="fixture test.exl"))
    return out


def check(run):
    rng = random.Random(run.seed)
    run.model_check("mc/MC_Text.tla", "mc/MC_Text.cfg")
    if run.tier == "thorough":
        # no bound on the number of calls (history hidden by the VIEW): fixpoint over (object, last call) states
        r = run.model_check("mc/MC_Text.tla", "mc/MC_Text_all.cfg", coverage=False)
        run.notes["unbounded_histories"] = {"cfg": "mc/MC_Text_all.cfg", "distinct_states": r["states"], "fixpoint": True}
    hists, st = tlc_generate("mc/MC_Text.tla", "mc/Gen_Text_%s.cfg" % run.tier)
    run.notes["generator"] = {"cfg": "mc/Gen_Text_%s.cfg" % run.tier, "histories": len(hists), **st}
    cases = []
    for n, h in enumerate(hists):
        via_build = any(c["op"] in ("write", "reparse") for c in h["calls"]) and n % 2 == 0
        cases.append(history_case(n, h["init"], h["calls"], via_build))
    nr = 300 if run.tier == "quick" else 4000
    base = len(cases)
    for i in range(nr):
        cases.append(random_history(rng, base + i))
    cases += exl_cases(rng, base + nr, 100 if run.tier == "quick" else 1500)
    cases += fixture_cases(base + nr + 5000)
    run.rule = ("one history per transition (state before, call, state after) of the bounded config-object model "
                "(TLC VIEW hides the history variable), concretised to bytes by gen/text.py and replayed on a real "
                "ConfigFile; plus seeded random configurations (0..30 categories, printable text incl. UTF-8) with "
                "1..8 calls, random Excel lists with comment rows and extreme ids, and the repository fixtures; "
                "distinct by script content, non-trivial when the configuration is non-empty and at least one call follows")
    run.exhaustive = False
    run.conform(cases, MODULE, CFG)
    run.assumptions = ["category names are distinct, text is free of < > CR LF NUL and keys of TAB (the property's quantifier); names and values may hold TABs"]


def replay(run, rp):
    run.conform([Case(rp["script"])], MODULE, CFG, shards=1)
