"""DICTIONARY - beyond the listed properties: the word dictionary's trie walk (spec/Dictionary.tla).
Not registered in MANIFEST.json; `./check DICTIONARY [--tier thorough]`.  TLC explores the walk as a state machine over every small
trie (and, in the thorough tier, over every single damaged child pointer of deeper ones); generated dictionary files are parsed by
the real Dictionary::from_existing and TLC lists the words of the same bytes with the specification's walk."""
import random
from lib.harness import Case
from gen import dictionary

MODULE, CFG = "trace/DictionaryTrace.tla", "trace/DictionaryTrace.cfg"
UNITS = [0x61, 0x62, 0x63, 0x7A, 0x41, 0x20, 0xE9, 0x3042, 0x30A2, 0x4E00, 0xFF21, 0xFFFD, 0xD7FF, 0xE000, 1, 0x7F]
SOME = lambda v: {"some": True, "v": v}
NONE = {"some": False}


def dic_case(n, f, expected, desc):
    return Case([{"op": "assets.dic", "case": n, "_hex": f.hex(), "hdr": list(f[dictionary.HDR:0x8B50]), "data": list(f[dictionary.BASE:]),
                  "abs": SOME(expected) if expected is not None else NONE}], desc=desc)


def damage(f, rng):
    """one damaged table word: a child pointer, an entry field or a block length (the walk may then be 'bad')"""
    import struct
    b = bytearray(f)
    offs = struct.unpack("<5I", f[dictionary.HDR:dictionary.HDR + 20])
    lens = struct.unpack("<5I", f[dictionary.HDR + 20:dictionary.HDR + 40])
    nent = lens[4] // 16
    r = rng.random()
    if r < 0.5 and lens[1] >= 4:            # inner pointer -> any entry id (incl. one past the table): sharing, cycles, out of range
        k = rng.randrange(1, lens[1] // 2)
        struct.pack_into("<H", b, dictionary.BASE + offs[1] + 2 * k, rng.randrange(0, nent + 2))
        what = "pointer"
    elif r < 0.8:                           # entry field: sibling / child / offset
        e, fld = rng.randrange(1, max(2, nent)), rng.choice([4, 8, 12])
        v = rng.choice([0, 1, 2, 3, 5, lens[1] // 2 - 1, lens[1] // 2, lens[2] - 2, lens[2], lens[3], 2 * lens[3]])
        struct.pack_into("<I", b, dictionary.BASE + offs[4] + 16 * e + fld, max(0, v))
        what = "entry"
    else:                                   # a start slot -> any entry id
        k = rng.randrange(0, lens[0] // 2)
        struct.pack_into("<H", b, dictionary.BASE + offs[0] + 2 * k, rng.randrange(0, nent + 2))
        what = "start"
    return bytes(b), what


def check(run):
    rng = random.Random(run.seed)
    run.model_check("mc/MC_Dictionary.tla", "mc/MC_Dictionary.cfg", workers=12, coverage=False)
    if run.tier == "thorough":
        run.model_check("mc/MC_Dictionary.tla", "mc/MC_Dictionary_damage.cfg", workers=12, coverage=False)
    else:
        run.model_check("mc/MC_Dictionary.tla", "mc/MC_Dictionary_damage_quick.cfg", workers=12, coverage=False)
    cases, n = [], 0
    nvalid, ndamaged = (120, 200) if run.tier == "quick" else (1500, 4000)
    valid = []
    for i in range(nvalid):
        pages = rng.choice([1, 2, 2, 3, 4])
        classes = {rng.randrange(256): c for c in rng.sample(range(1, 5), rng.randint(0, 3))}
        if rng.random() < 0.2:
            classes[rng.randrange(256)] = 0x10000 + rng.randrange(1, 4)          # only the low 16 bits of a class word count
        slots = {}
        for _ in range(rng.randint(0, 5)):
            slots[rng.randrange(256 * pages)] = dictionary.random_tree(rng, rng.randint(0, 4), UNITS)
        order = rng.sample(range(5), 5)
        f, exp = dictionary.build(slots, classes, pages, rng, order)
        valid.append(f)
        cases.append(dic_case(n, f, exp, {"dictionary": {"slots": len(slots), "words": len(exp), "pages": pages, "order": order}})); n += 1
    import struct
    rich = [v for v in valid if struct.unpack('<I', v[dictionary.HDR + 36:dictionary.HDR + 40])[0] >= 48] or valid
    for i in range(ndamaged):
        f, what = damage(rng.choice(rich), rng)
        cases.append(dic_case(n, f, None, {"damaged dictionary": what})); n += 1
    run.rule = ("random prefix-free tries (depth <= 4, 1..4 children, tails of 1..4 units, BMP units incl. the surrogate borders) laid out "
                "by gen/dictionary.py with the five blocks in any order, gaps and slack, start tables of 1..4 pages with 0..3 classes; "
                "plus copies with one damaged pointer / entry field / start slot (sharing, cycles, out-of-range ids); TLC decodes the "
                "tables from the file bytes and lists the words with Dictionary.tla's walk; distinct by file bytes")
    run.exhaustive = False
    run.conform(cases, MODULE, CFG, shards=14, xmx="4g")
    run.assumptions = ["the table layout is as implemented (documented by the library only): regression level",
                       "code units are valid UTF-16 on their own (no surrogates); words never contain NUL except as the first-character placeholder"]


def replay(run, rp):
    run.conform([Case(rp["script"])], MODULE, CFG, shards=1)
