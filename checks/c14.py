"""C14 - materials and shader packages decode to what their files store."""
import random
from lib.harness import Case
from gen import mtrlshpk

MODULE, CFG = "trace/MtrlShpkTrace.tla", "trace/MtrlShpkTrace.cfg"
W = lambda x: [x >> 16, x & 0xFFFF]


def rhalf(rng):
    while True:
        h = rng.getrandbits(16)
        if (h >> 10) & 31 != 31:
            return h


def distinct_halves(rng, n):
    """pairwise distinct finite half patterns"""
    s = set()
    while len(s) < n:
        s.add(rhalf(rng))
    out = list(s)
    rng.shuffle(out)
    return out


def rfloat(rng):
    while True:
        b = rng.getrandbits(32)
        if (b >> 23) & 255 != 255:
            return b


def material(rng, kind):
    ntex = rng.randint(0, 4)
    m = {"shpk": rng.choice(["character.shpk", "skin.shpk", "bg.shpk", "x.shpk"]),
         "textures": ["chara/tex/%s_%d.tex" % (rng.choice("abcd"), i) for i in range(ntex)],
         "uv_sets": rng.randint(0, 2), "color_sets": rng.randint(0, 2), "table": kind, "flags": rng.getrandbits(32)}
    if kind == "legacy":
        hs = distinct_halves(rng, 256)
        m["rows"] = [hs[16 * r:16 * r + 16] for r in range(16)]
    elif kind == "dawntrail":
        hs = distinct_halves(rng, 1024)
        m["rows"] = [hs[32 * r:32 * r + 32] for r in range(32)]
    if kind and rng.random() < 0.7:
        if kind == "legacy":
            # every bit set once across the rows, templates spread
            m["dye"] = [((r * 37) % 2048) << 5 | (1 << (r % 5)) | (rng.getrandbits(5) if r > 5 else 0) for r in range(16)]
        else:
            m["dye"] = [((r * 61) % 2048) << 16 | (r % 4) << 27 | (1 << (r % 12)) | (rng.getrandbits(12) if r > 12 else 0) for r in range(32)]
    if not kind and rng.random() < 0.6:
        # a material without tables whose additional data is shorter (or longer) than the four bytes of a flag word
        m["addl_size"] = rng.choice([0, 1, 2, 3, 8])
        n_fill = 4 - m["addl_size"] if m["addl_size"] < 4 else m["addl_size"] - 4
        m["addl_fill"] = [rng.choice([0xFF, 0x04, 0x08, 0x0C, 0x5C, rng.randrange(1, 256)]) for _ in range(n_fill)]
    m["keys"] = [(rng.getrandbits(32), rng.getrandbits(32)) for _ in range(rng.randint(0, 4))]
    m["constants"] = [(rng.getrandbits(32), [rfloat(rng) for _ in range(rng.randint(1, 4))]) for _ in range(rng.randint(0, 4))]
    nc = len(m["constants"])
    if nc >= 2 and rng.random() < 0.6:
        # the value list is laid out in another order than the records, with gaps, and records may share a slice
        m["const_order"] = rng.sample(range(nc), nc)
        if rng.random() < 0.5:
            m["const_gaps"] = {rng.randrange(nc): [rfloat(rng) for _ in range(rng.randint(1, 2))]}
        if rng.random() < 0.4:
            i, j = rng.sample(range(nc), 2)
            if len(m["constants"][i][1]) <= len(m["constants"][j][1]):
                m["const_share"] = {i: j}
    if kind == "legacy" and rng.random() < 0.5:
        m["explicit_dims"] = True
    if rng.random() < 0.4:
        m["unpadded_heap"] = True
    if rng.random() < 0.6:
        m["texture_flags"] = [rng.choice([0, 0x8000, 0x8000, 1, 0xFFFF]) for _ in range(ntex)]
    m["samplers"] = [(rng.randrange(len(mtrlshpk.SAMPLER_IDS)), rng.getrandbits(32), rng.randrange(max(ntex, 1))) for _ in range(rng.randint(0, 4))]
    return m


def rparams(rng, n, tag):
    out = [(rng.getrandbits(32), "g_%s%d_%s" % (tag, i, "x" * rng.randint(0, 5)), rng.randrange(16), rng.randint(1, 4)) for i in range(n)]
    if out and rng.random() < 0.4:
        # a second parameter named by a proper prefix of the first one's name (e.g. g_Sampler / g_SamplerNormal)
        out.append((rng.getrandbits(32), out[0][1][:max(3, len(out[0][1]) - rng.randint(1, 4))], rng.randrange(16), rng.randint(1, 4)))
    return out


def package(rng):
    nsys, nscene, nmat = rng.randint(0, 2), rng.randint(0, 2), rng.randint(0, 2)
    nvs, nps = rng.randint(0, 3), rng.randint(0, 3)
    def shader(is_v, i):
        return {"code": bytes(rng.randrange(256) for _ in range(rng.randint(0, 40))), "extra": bytes(rng.randrange(256) for _ in range(8)),
                "params": [rparams(rng, rng.randint(0, 3), "s%d" % k) for k in range(4)]}
    nodes = []
    nn = rng.randint(1, 4)
    sels = distinct = rng.sample(range(1, 2**32), nn + 4)
    for i in range(nn):
        npass = rng.randint(0, 3)
        nodes.append({"selector": sels[i], "pass_indices": [rng.choice([255, j]) for j in range(16)],
                      "sys": [rng.getrandbits(32) for _ in range(nsys)], "scene": [rng.getrandbits(32) for _ in range(nscene)],
                      "mat": [rng.getrandbits(32) for _ in range(nmat)], "sub": [rng.getrandbits(32), rng.getrandbits(32)],
                      "passes": [(rng.getrandbits(32), rng.randrange(max(nvs, 1)), rng.randrange(max(nps, 1))) for _ in range(npass)]})
    aliases = []
    for j in range(rng.randint(0, 3)):
        aliases.append((sels[nn + j], rng.randrange(nn)))
    if aliases and rng.random() < 0.5:
        aliases.append((sels[0], nn - 1))          # a selector carried by a node and by an alias: the node wins
    nmp = rng.randint(0, 3)
    p = {"share_prefixes": rng.random() < 0.6, "dx11": rng.random() < 0.7, "vs": [shader(True, i) for i in range(nvs)], "ps": [shader(False, i) for i in range(nps)],
         "mat_params": [(rng.getrandbits(32), 16 * i, 16) for i in range(nmp)],
         "defaults": [rfloat(rng) for _ in range(4 * max(nmp, 1))] if rng.random() < 0.5 else None,
         "params": [rparams(rng, rng.randint(0, 2), "g%d" % k) for k in range(4)],
         "sys_keys": [(rng.getrandbits(32), rng.getrandbits(32)) for _ in range(nsys)],
         "scene_keys": [(rng.getrandbits(32), rng.getrandbits(32)) for _ in range(nscene)],
         "mat_keys": [(rng.getrandbits(32), rng.getrandbits(32)) for _ in range(nmat)],
         "sub1": rng.getrandbits(32), "sub2": rng.getrandbits(32), "nodes": nodes, "aliases": aliases}
    probe = [W(s) for s in sels] + [W(rng.getrandbits(32))]
    return p, probe


def check(run):
    rng = random.Random(run.seed)
    run.model_check("mc/MC_MtrlShpk.tla", "mc/MC_MtrlShpk.cfg", workers=7)
    cases, n = [], 0
    for _ in range(40 if run.tier == "quick" else 400):
        for kind in (None, "legacy", "dawntrail"):
            m = material(rng, kind)
            cases.append(Case([{"op": "assets.mtrl", "case": n, "bytes": list(mtrlshpk.mtrl(m))}],
                              desc={"material": kind, "textures": len(m["textures"]), "constants": len(m["constants"]), "dye": m.get("dye") is not None,
                                    "explicit legacy dimensions": bool(m.get("explicit_dims")), "constants out of order": bool(m.get("const_order")),
                                    "shared slice": bool(m.get("const_share"))}))
            n += 1
    for _ in range(120 if run.tier == "quick" else 1200):
        p, probe = package(rng)
        cases.append(Case([{"op": "assets.shpk", "case": n, "bytes": list(mtrlshpk.shpk(p)), "selectors": probe}],
                          desc={"package": {"vs": len(p["vs"]), "ps": len(p["ps"]), "nodes": len(p["nodes"]), "aliases": len(p["aliases"])}}))
        n += 1
    ext = [0, 1, 31, 2**31, 2**32 - 1, 0x12345678]
    for _ in range(60 if run.tier == "quick" else 600):
        lists = [[W(rng.choice(ext) if rng.random() < 0.4 else rng.getrandbits(32)) for _ in range(rng.choice([0, 1, 2, 3, 4, 5, 6, 8, 9, 12, 17]))] for _ in range(4)]
        cases.append(Case([{"op": "assets.selector", "case": n, "lists": lists}], desc={"key lists": [len(x) for x in lists]},
                          nontrivial=any(lists)))
        n += 1
    run.rule = ("materials without table / with legacy 16-row / Dawntrail 32-row colour tables whose halves are pairwise distinct in every "
                "component of every row, dye tables with every bit set once, 0..4 textures / keys / constants (1..4 floats; value slices out of table order, with gaps, shared; legacy tables with and without "
                "explicit 0x42 dimensions) / samplers; shader packages (DX9/DX11, 0..3 vertex and pixel shaders with 0..3 parameters per list, material "
                "parameters with/without defaults, key tables, 1..4 nodes with 0..3 passes, aliases incl. one shadowed by a node) with every "
                "selector of the table and an absent one probed; key lists of length 0..17 with extreme values; texture entries with and without flag bits; distinct by bytes")
    run.conform(cases, MODULE, CFG, shards=14, xmx="4g")
    run.assumptions = ["private fields of Constant, Sampler, Pass and MaterialParameter are read from their Debug rendering",
                       "texture paths are laid out in order at the start of the string heap (how the library locates them)",
                       "layouts recalled from public descriptions and accepted by the library on the happy path"]


def replay(run, rp):
    run.conform([Case(rp["script"])], MODULE, CFG, shards=1)
