"""LIFECYCLE - beyond the listed properties: one GameData handle through open / lookup / patch / repair histories
(spec/Lifecycle.tla).  Not registered in MANIFEST.json; `./check LIFECYCLE [--tier thorough]`.
It reports VIOLATION only when the library does neither what Lifecycle.tla describes as implemented nor what a fresh
handle would do; the latter is logged as spec drift."""
import random
from lib.harness import Case, tlc_generate, log
from gen import sqpack, zipatch

MODULE, CFG = "trace/LifecycleTrace.tla", "trace/LifecycleTrace.cfg"
GPATH = {"pa": "bg/ffxiv/z/a.lgb", "pb": "bg/ex1/z/b.lgb"}
VER, BCK = "2024.01.01.0000.0000", "2023.06.01.0000.0000"


def index_name(repo, chunk):
    return "sqpack/%s/%s.index" % (sqpack.repo_name(repo), sqpack.stem(2, repo, chunk, 0))


def index_bytes(ents):
    return sqpack.index_file(1, [{"path": GPATH[e["path"]], "dat": 0, "off": 2048 + 128 * e["loc"]} for e in ents], 0)


PROBE = [index_name(0, 0), index_name(0, 1), index_name(1, 0), index_name(1, 1), "ffxivgame.ver", "sqpack/ffxiv/ffxiv.ver",
         "sqpack/ex1/ex1.ver", "sqpack/ffxiv/ffxiv.bck", "sqpack/ex1/ex1.bck", "sqpack/ex1"]


def world_fs(w):
    fs = [{"p": "sqpack/ffxiv"}] + [{"p": "sqpack/ex%d" % r} for r in w["dirs"]]
    if w["game_ver"]:
        fs.append({"p": "ffxivgame.ver", "hex": VER.encode().hex()})
    for r in w["repo_ver"]:
        fs.append({"p": "sqpack/%s/%s.ver" % (sqpack.repo_name(r), sqpack.repo_name(r)), "hex": VER.encode().hex()})
    for r in w["bck"]:
        fs.append({"p": "sqpack/%s/%s.bck" % (sqpack.repo_name(r), sqpack.repo_name(r)), "hex": BCK.encode().hex()})
    for f in w["idx"]:
        fs.append({"p": index_name(f["repo"], f["chunk"]), "hex": index_bytes(f["ents"]).hex()})
    return fs


def patch_bytes(c):
    name = index_name(c["repo"], c["chunk"]).encode()
    chunks = [{"k": "FHDR", "v": 3}, {"k": "APLY", "opt": 1}, {"k": "T", "plat": 0}]
    if c["k"] == "write":
        data = index_bytes(c["ents"])
        chunks.append({"k": "FA", "path": list(name), "off": 0, "data": zipatch.rle(data), "blocks": [[False, len(data)]]})
    else:
        chunks.append({"k": "FD", "path": list(name)})
    chunks.append({"k": "EOF"})
    return zipatch.encode_patch(chunks)


def concretise(hist, n, rng):
    lines = []
    for i, c in enumerate(hist):
        base = {"h": 1, "case": n, "probe": PROBE}
        if c["op"] == "open":
            lines.append({"op": "archive.open", "h": 1, "case": n, "plat": 0, "world": c["world"], "_fs": world_fs(c["world"])})
        elif c["op"] == "reopen":
            lines.append(dict(base, op="archive.reopen", plat=0))
        elif c["op"] == "query":
            lines.append(dict(base, op="archive.query", q=rng.choice(["exists", "find_offset"]), tok=c["path"], path=list(GPATH[c["path"]].encode())))
        elif c["op"] == "patch":
            lines.append(dict(base, op="archive.patch", k=c["k"], repo=c["repo"], chunk=c["chunk"], ents=c.get("ents", []), _patch=patch_bytes(c).hex()))
        elif c["op"] == "needs_repair":
            lines.append(dict(base, op="archive.needs_repair"))
        elif c["op"] == "perform_repair":
            lines.append(dict(base, op="archive.perform_repair"))
    lines.append({"op": "archive.close", "h": 1, "case": n})
    return lines


def random_history(rng, n_calls):
    """longer histories than the bounded model replays, over the same world family"""
    dirs = rng.choice([[], [1]])
    w = {"dirs": dirs, "game_ver": rng.random() < 0.5, "repo_ver": [1] if dirs and rng.random() < 0.5 else [],
         "bck": [r for r in ([0] + dirs) if rng.random() < 0.4], "idx": []}
    for r in [0] + dirs:
        for c in (0, 1):
            if rng.random() < 0.5:
                ps = [p for p in ("pa", "pb") if rng.random() < 0.6]
                w["idx"].append({"repo": r, "chunk": c, "ents": [{"path": p, "loc": rng.randint(1, 2)} for p in ps]})
    hist = [{"op": "open", "world": w}]
    present = {(f["repo"], f["chunk"]) for f in w["idx"]}
    for _ in range(n_calls):
        k = rng.random()
        if k < 0.45:
            hist.append({"op": "query", "path": rng.choice(["pa", "pb"])})
        elif k < 0.7:
            r, c = rng.choice([0, 1]), rng.choice([0, 1])
            if (r, c) in present and rng.random() < 0.3:
                hist.append({"op": "patch", "k": "delete", "repo": r, "chunk": c})
                present.discard((r, c))
            else:
                ps = [p for p in ("pa", "pb") if rng.random() < 0.6] or ["pa"]
                hist.append({"op": "patch", "k": "write", "repo": r, "chunk": c, "ents": [{"path": p, "loc": rng.randint(1, 2)} for p in ps]})
                present.add((r, c))
        elif k < 0.8:
            hist.append({"op": "needs_repair"})
        elif k < 0.9:
            hist.append({"op": "perform_repair"})
            present = None or present      # the model decides what a repair removes; deletes below are guarded by the shim's answer
        else:
            hist.append({"op": "reopen"})
    # a delete of a file that a repair removed would fail in the library: drop deletes after the first repair
    seen_repair = False
    out = []
    for c in hist:
        if c["op"] == "perform_repair":
            seen_repair = True
        if seen_repair and c["op"] == "patch" and c["k"] == "delete":
            continue
        out.append(c)
    return out


def check(run):
    rng = random.Random(run.seed)
    run.model_check("mc/MC_Lifecycle.tla", "mc/MC_Lifecycle.cfg", workers=8, coverage=False)
    if run.tier == "thorough":
        # histories of every length (fixpoint over (disk, view, last call) states; 9.5 million states, ~5 min)
        r = run.model_check("mc/MC_Lifecycle.tla", "mc/MC_Lifecycle_all.cfg", workers=8, coverage=False, timeout=3000)
        run.notes["unbounded_histories"] = {"cfg": "mc/MC_Lifecycle_all.cfg", "distinct_states": r["states"], "fixpoint": True}
    hists, st = tlc_generate("mc/MC_Lifecycle.tla", "mc/Gen_Lifecycle.cfg", workers=8)
    log("[gen] %d histories, one per transition of the bounded life-cycle model" % len(hists))
    run.mc.append({"module": "mc/MC_Lifecycle.tla", "cfg": "mc/Gen_Lifecycle.cfg", "states": st["states"], "transitions": st["transitions"],
                   "wall_s": 0, "actions": {}, "never_taken": []})
    if run.tier == "quick":
        hists = rng.sample(hists, 2500)
    cases = []
    for n, h in enumerate(hists):
        ops = [c["op"] for c in h[1:]]
        # perform_repair with nothing to repair is not a model action; the generator never emits it
        cases.append(Case(concretise(h, n, rng), desc={"history": ops}, nontrivial=len(ops) > 0))
    n0 = len(cases)
    for k in range(300 if run.tier == "quick" else 3000):
        h = random_history(rng, rng.randint(4, 14))
        cases.append(Case(concretise(h, n0 + k, rng), desc={"random history": [c["op"] for c in h[1:]]}))
    run.rule = ("one history per transition of the bounded life-cycle model (72 worlds: expansion directory present or not, version and backup "
                "files in every combination, 4 index layouts; calls: reopen, lookup of a base / an expansion path, 20 index-file patches, "
                "needs_repair, perform_repair; <= 3 calls; quick: a seeded 2500), plus seeded random histories of 4..14 calls; every call on "
                "the real GameData handle, patches as real ZiPatch files through GameData::apply_patch")
    run.conform(cases, MODULE, CFG, shards=14, xmx="3g")
    run.assumptions = ["one category (bg), index files only (no index2), two chunks; lookups by exists / find_offset (no dat files)",
                       "an answer that equals a fresh handle's instead of the stale one is accepted and logged as drift"]


def replay(run, rp):
    run.conform([Case(rp["script"])], MODULE, CFG, shards=1)
