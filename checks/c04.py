"""C04 - a created patch turns the old tree into the new tree."""
import random
from lib.harness import Case, tlc_generate
from gen import zipatch

MODULE, CFG = "trace/ZiPatchTrace.tla", "trace/ZiPatchTrace.cfg"


def cells_to_rle(cells):
    # one abstract cell = 64 bytes of value 16 + v
    out = []
    for v in cells:
        if out and out[-1][0] == 16 + v:
            out[-1][1] += 64
        else:
            out.append([16 + v, 64])
    return out


def tree_from_abs(lst):
    return {"dirs": [], "files": [{"p": f["p"], "c": cells_to_rle(f["c"])} for f in lst]}


SIZES = [1, 2, 127, 128, 129, 143, 144, 145, 255, 256, 1000, 31999, 32000, 32001, 65535, 65536]


def rcontent(rng, big):
    r = rng.random()
    if r < 0.35:
        n = rng.randint(1, 300)
        return zipatch.rle(bytes(rng.randrange(256) for _ in range(n)))
    size = rng.choice(SIZES) if r < 0.8 else rng.randint(1, 70000)
    if big and rng.random() < 0.3:
        size = rng.choice([262144, 400000, 131071])
    runs, left = [], size
    while left > 0:
        n = min(left, rng.choice([1, 7, 128, 1000, size]))
        b = rng.randrange(256)
        if runs and runs[-1][0] == b:
            runs[-1][1] += n
        else:
            runs.append([b, n])
        left -= n
    return runs


def rpath(rng, used):
    while True:
        depth = rng.randint(0, 4)
        parts = ["".join(rng.choice("abcxyzABC019_-.\\ +@~#%") for _ in range(rng.randint(1, 6))).strip(". ") or "q" for _ in range(depth + 1)]
        p = "/".join(parts)
        # a path may not be a prefix directory of another file and vice versa
        if any(u == p or u.startswith(p + "/") or p.startswith(u + "/") for u in used):
            continue
        used.add(p)
        return p


def random_pair(rng, big):
    used = set()
    n = rng.choice([1, 2, 3, 5, 8, 40]) if rng.random() < 0.3 else rng.randint(1, 8)
    a, b = [], []
    for _ in range(n):
        p = list(rpath(rng, used).encode())
        kind = rng.choice(["same", "changed", "added", "removed", "emptied", "grown"])
        c1 = rcontent(rng, big)
        c2 = rcontent(rng, big)
        if kind == "same":
            a.append({"p": p, "c": c1}); b.append({"p": p, "c": c1})
        elif kind == "changed":
            a.append({"p": p, "c": c1}); b.append({"p": p, "c": c2})
        elif kind == "added":
            b.append({"p": p, "c": c2})
        elif kind == "removed":
            a.append({"p": p, "c": c1})
        elif kind == "emptied":
            a.append({"p": p, "c": c1}); b.append({"p": p, "c": []})
        else:
            a.append({"p": p, "c": []}); b.append({"p": p, "c": c2})
    return {"dirs": [], "files": a}, {"dirs": [], "files": b}


def post(ev):
    """patch bytes (hex) -> abstract chunk list, by the independent structure-driven decoder."""
    if ev.get("op") != "patch.create":
        return ev
    cr = ev["res"]["created"]
    chunks = {"some": False, "err": "not created"}
    if cr.get("outcome") == "value" and cr["v"]["some"]:
        raw = bytes.fromhex(cr["v"]["v"])
        cr["v"]["v"] = len(raw)
        try:
            cs, used = zipatch.decode_patch(raw)
            for c in cs:
                c.pop("blocks", None)
            chunks = {"some": True, "v": cs}
        except Exception as e:  # noqa
            chunks = {"some": False, "err": "decode: %s" % e}
    ev["res"]["chunks"] = chunks
    return ev


def check(run):
    rng = random.Random(run.seed)
    run.model_check("mc/MC_ZiCreate.tla", "mc/MC_ZiPatch_create.cfg")
    pairs, st = tlc_generate("mc/MC_ZiCreate.tla", "mc/Gen_ZiCreate_%s.cfg" % run.tier)
    run.notes["generator"] = {"pairs": len(pairs), **st}
    cases = []
    for n, pr in enumerate(pairs):
        a, b = tree_from_abs(pr["a"]), tree_from_abs(pr["b"])
        cases.append(Case([{"op": "patch.create", "case": n, "a": a, "b": b}],
                          desc={"a": pr["a"], "b": pr["b"]},
                          nontrivial=bool(pr["a"]) and bool(pr["b"])))
    base = len(cases)
    # size sweep: every file size 1..300 as an added file and as a same-size change (every residue of the
    # 128-byte block alignment), plus the 32000 marker neighbourhood
    for ln in list(range(1, 301)) + [31999, 32000, 32001]:
        a = {"dirs": [], "files": [{"p": list(b"s/chg.bin"), "c": [[7, ln]]}, {"p": list(b"keep"), "c": [[5, 3]]}]}
        b = {"dirs": [], "files": [{"p": list(b"s/chg.bin"), "c": [[7, ln - 1], [8, 1]] if ln > 1 else [[8, 1]]},
                                   {"p": list(b"s/add.bin"), "c": [[9, ln]]}, {"p": list(b"keep"), "c": [[5, 3]]}]}
        cases.append(Case([{"op": "patch.create", "case": base, "a": a, "b": b}], desc={"size-sweep": ln}))
        base += 1
    # deterministic shapes the exhaustive model is too small for: a file that shrinks or grows in place (block multiples on
    # both sides), sizes that are exact multiples of the 16000-byte block payload, and the same file name in several
    # directories with one of the twins removed / added / changed
    for (s0, s1) in [(300, 120), (120, 300), (129, 128), (128, 127), (16001, 16000), (16000, 15999), (32000, 16000), (16000, 32000),
                     (48000, 1), (1, 48000), (257, 1), (144, 143)]:
        a = {"dirs": [], "files": [{"p": list(b"d/resize.bin"), "c": [[3, s0]]}, {"p": list(b"keep"), "c": [[5, 3]]}]}
        b = {"dirs": [], "files": [{"p": list(b"d/resize.bin"), "c": [[4, s1]]}, {"p": list(b"keep"), "c": [[5, 3]]}]}
        cases.append(Case([{"op": "patch.create", "case": base, "a": a, "b": b}], desc={"resize": [s0, s1]}))
        base += 1
    # a file that keeps a prefix of its old content and then differs - shorter, equal and longer than before
    for (pre, t0, t1) in [(50, 250, 70), (1, 299, 119), (128, 172, 1), (200, 100, 100), (64, 10, 300), (16000, 5, 1), (127, 129, 128)]:
        a = {"dirs": [], "files": [{"p": list(b"d/prefix.bin"), "c": [[6, pre], [7, t0]]}]}
        b = {"dirs": [], "files": [{"p": list(b"d/prefix.bin"), "c": [[6, pre], [8, t1]]}]}
        cases.append(Case([{"op": "patch.create", "case": base, "a": a, "b": b}], desc={"shared prefix": [pre, t0, t1]}))
        base += 1
    for nm in (b"a\\b.bin", b"dir\\sub/file", b"sp ace/x y", b"h#sh/%41"):
        a = {"dirs": [], "files": [{"p": list(nm), "c": [[1, 30]]}, {"p": list(b"keep"), "c": [[5, 3]]}]}
        b = {"dirs": [], "files": [{"p": list(nm + b"2"), "c": [[2, 30]]}, {"p": list(b"keep"), "c": [[5, 3]]}]}
        cases.append(Case([{"op": "patch.create", "case": base, "a": a, "b": b}], desc={"unusual name": nm.decode()}))
        base += 1
    twin = lambda d, c: {"p": list(("%s/readme.txt" % d).encode()), "c": c}
    for (ta, tb) in [([("common", 1), ("ex1", 2)], [("common", 1)]), ([("common", 1)], [("common", 1), ("ex1", 2)]),
                     ([("common", 1), ("ex1", 1)], [("common", 1), ("ex1", 2)]), ([("a/b", 1), ("a", 1), ("b", 1)], [("a", 1)]),
                     ([("x", 1), ("y", 2), ("z", 3)], [("y", 2)]), ([("x", 1)], [("y", 1)])]:
        a = {"dirs": [], "files": [twin(d, [[c, 40]]) for d, c in ta]}
        b = {"dirs": [], "files": [twin(d, [[c, 40]]) for d, c in tb]}
        cases.append(Case([{"op": "patch.create", "case": base, "a": a, "b": b}], desc={"same name in several directories": [ta, tb]}))
        base += 1
    nr = 150 if run.tier == "quick" else 1500
    for i in range(nr):
        a, b = random_pair(rng, run.tier == "thorough" and i % 10 == 0)
        cases.append(Case([{"op": "patch.create", "case": base + i, "a": a, "b": b}],
                          desc={"random pair": [len(a["files"]), len(b["files"])]}))
    run.rule = ("every pair of trees over 4 paths (nesting 0..2) with per-path content absent/empty/c1(/c2) enumerated by TLC "
                "(quick: 3 paths, 4096 pairs; thorough: 4 paths, 65536 pairs; contents absent/empty/c/c' with |c| = |c'|), a size sweep 1..300 (added + same-size change), files resized in place across block multiples (12 pairs incl. 16000 / 32000 / 48000), one file name in several directories with a twin removed / added / changed, plus seeded random pairs (nesting 0..4, 1..40 files, sizes clustered at "
                "127/128/129, 143/144, 31999/32000/32001, 65535/65536, thorough up to 400 KB); each case: real create, independent "
                "decode, real apply on a copy; distinct by trees, non-trivial when both trees have files")
    run.exhaustive = True
    run.notes["exhaustive_scope"] = "all tree pairs of the bounded model"
    run.conform(cases, MODULE, CFG, post=post, shards=14, xmx="4g")
    run.assumptions = ["regular files only, ASCII relative paths (incl. backslash, blank, #, %, +, @, ~), no path is a prefix directory of another"]


def replay(run, rp):
    run.conform([Case(rp["script"])], MODULE, CFG, shards=1, post=post)
