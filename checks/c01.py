"""C01 - archive lookup finds every stored game path, and only stored paths."""
import random
from lib.harness import Case, tlc_generate
from gen import sqpack
from gen.archive import Installation, small_std

MODULE, CFG = "trace/SqPackTrace.tla", "trace/SqPackTrace.cfg"
CATS = sorted(sqpack.CATEGORY_NAMES)


def history_case(n, hist):
    inst = Installation([0, 1], 0)
    for i, it in enumerate(sorted(hist["layout"], key=lambda x: x["off"])):
        path = bytes(it["path"]).decode()
        segs = path.lower().split("/")
        repo = 1 if len(segs) > 1 and segs[1] == "ex1" else 0
        off = inst.place(repo, 2, it["chunk"], it["dat"], small_std(it["off"]), at=it["off"] * 128)
        for k in it["kinds"]:
            inst.add_entry(repo, 2, it["chunk"], k, it["path"], it["dat"], off)
    lines = [inst.open_line(1, n)]
    for c in hist["calls"]:
        lines.append({"op": "archive.query", "h": 1, "case": n, "q": c["op"], "path": c["path"]})
    return Case(lines, desc={"layout": [{**it, "path": bytes(it["path"]).decode()} for it in hist["layout"]],
                             "calls": [[c["op"], bytes(c["path"]).decode()] for c in hist["calls"]]},
                nontrivial=len(hist["layout"]) > 0)


def rseg(rng):
    return "".join(rng.choice("abcdefghijklmnopqrstuvwxyzABCDEFGHIJKLMNOPQRSTUVWXYZ0123456789_") for _ in range(rng.randint(1, 8)))


def mixcase(rng, s):
    return "".join(c.upper() if rng.random() < 0.3 else c.lower() if rng.random() < 0.3 else c for c in s)


def random_case(rng, n, force):
    """force: (category, expansion, chunk, platform) that this handle must exercise (stratification)"""
    fcat, fex, fchunk, fplat = force
    repos = sorted({0, fex} | {rng.randrange(10) for _ in range(rng.randint(0, 3))})
    inst = Installation(repos, fplat)
    stored = []
    combos = [(fex, fcat, fchunk)] + [(rng.choice(repos), rng.choice(CATS), rng.randrange(10)) for _ in range(rng.randint(0, 3))]
    tag = 0
    for (ex, cat, chunk) in combos:
        kinds = rng.choice([[1], [2], [1, 2]])
        nent = rng.choice([1, 2, 3, 8, 64]) if rng.random() < 0.5 else rng.randint(1, 6)
        for _ in range(nent):
            depth = rng.randint(2, 6)
            segs = [sqpack.CATEGORY_NAMES[cat]]
            if ex != 0:
                segs.append("ex%d" % ex)
            elif rng.random() < 0.3:
                segs.append(rng.choice(["ffxiv", "ex%d" % rng.choice([r for r in range(1, 10) if r not in repos] or [99])]))
                if segs[-1] == "ex99":
                    segs[-1] = "zone"
            while len(segs) < depth - 1:
                segs.append(rseg(rng))
            if ex == 0 and len(segs) >= 2 and segs[1].lower() in ["ex%d" % r for r in repos if r]:
                segs[1] = "q" + segs[1]
            segs.append(rseg(rng) + "." + rng.choice(["exh", "lgb", "mdl", "tex", "scd"]))
            if ex == 0 and len(segs) == 2 and segs[1].lower() in ["ex%d" % r for r in repos if r]:
                continue
            path = "/".join(segs)
            if any(s[0].lower() == path.lower() for s in stored):
                continue
            dat = rng.randrange(8)
            tag += 1
            off = inst.place(ex, cat, chunk, dat, small_std(tag + 1000 * n))
            for k in kinds:
                inst.add_entry(ex, cat, chunk, k, list(path.encode()), dat, off, syn=rng.random() < 0.2)
            stored.append((path, ex, cat, chunk))
        for k in kinds:
            for _ in range(rng.choice([0, 0, 2, 5])):
                inst.add_noise(ex, cat, chunk, k, rng)
    # an index in another chunk of the same category that does not hold the paths (forces the chunk scan on)
    inst.ensure_index(fex, fcat, (fchunk + 1) % 10, rng.choice([1, 2]))
    lines = [inst.open_line(1, n)]
    nq = 30
    for _ in range(nq):
        r = rng.random()
        if stored and r < 0.6:
            p = rng.choice(stored)[0]
            if rng.random() < 0.5:
                p = mixcase(rng, p)
        elif stored and r < 0.8:
            # near misses: same folder other file, other category / repository token
            p = rng.choice(stored)[0]
            segs = p.split("/")
            what = rng.random()
            if what < 0.4:
                segs[-1] = "x" + segs[-1]
            elif what < 0.7:
                segs[0] = sqpack.CATEGORY_NAMES[rng.choice(CATS)]
            else:
                segs.insert(1, "ex%d" % rng.randrange(1, 10))
            p = "/".join(segs)
        else:
            p = "/".join([rng.choice(list(sqpack.CATEGORY_NAMES.values()) + ["what", "EXD", ""])] + [rseg(rng) for _ in range(rng.randint(1, 4))])
        lines.append({"op": "archive.query", "h": 1, "case": n, "q": rng.choice(["exists", "find_offset", "extract"]),
                      "path": list(p.encode())})
    lines.append({"op": "archive.close", "h": 1, "case": n})
    return Case(lines, desc={"random": True, "repos": repos, "plat": fplat, "stored": [s[0] for s in stored][:6], "queries": nq})


def far_case(n, kind):
    """entries whose offsets use the whole 28-bit field (offsets are stored in 128-byte units: up to 2^35 bytes); looked up
    without reading data"""
    inst = Installation([0, 1], 0)
    lines = []
    for i, q in enumerate([2**24, 2**25 - 1, 2**25, 2**25 + 1, 2**26 + 5, 2**27, 2**28 - 1]):
        path = "bg/%sfar/f%d.lgb" % ("ex1/" if i % 2 else "", i)
        inst.add_entry(i % 2, 2, 0, kind, list(path.encode()), i % 8, q * 128, syn=i == 3)
        for qk in ("exists", "find_offset"):
            lines.append({"op": "archive.query", "h": 1, "case": n, "q": qk, "path": list(path.encode())})
    return Case([inst.open_line(1, n)] + lines + [{"op": "archive.close", "h": 1, "case": n}], desc={"far offsets": kind})


def odd_path_case(n, kind):
    """stored paths with an empty file name or an empty folder component: hashed like any other (split at the last '/')"""
    inst = Installation([0], 0)
    lines = []
    for i, path in enumerate(["bg/odd/", "bg//file.tex", "bg/a//b.tex", "bg/x/y/", "bg///"]):
        inst.add_entry(0, 2, 0, kind, list(path.encode()), 0, (16 + i) * 128)
        for qk in ("exists", "find_offset"):
            lines.append({"op": "archive.query", "h": 1, "case": n, "q": qk, "path": list(path.encode())})
    for path in ["bg/odd", "bg/file.tex", "bg/a/b.tex"]:                  # the tidied-up spellings are other paths
        lines.append({"op": "archive.query", "h": 1, "case": n, "q": "exists", "path": list(path.encode())})
    return Case([inst.open_line(1, n)] + lines + [{"op": "archive.close", "h": 1, "case": n}], desc={"odd paths": kind})


def wide_chunk_case(n, kind, flip):
    """chunks of three digits (the library looks through chunks 0..254): paths stored in chunk 100 + c of one repository and in chunk c
    of the next one, asked for in both orders on one handle (whatever the handle remembers about one file must not answer for another)"""
    inst = Installation([0, 1, 2], 0)
    stored = []
    for (ex, chunk, tag) in [(0, 100, "a"), (1, 0, "b"), (0, 101, "c"), (1, 1, "d"), (1, 254, "e"), (2, 54, "f"), (0, 99, "g"), (0, 199, "h"), (1, 99, "i")]:
        path = "bg/%swide/%s.lgb" % (("ex%d/" % ex) if ex else "ffxiv/", tag)
        off = inst.place(ex, 2, chunk, 0, small_std(300 + ord(tag)))
        inst.add_entry(ex, 2, chunk, kind, list(path.encode()), 0, off)
        stored.append(path)
    order = stored[::-1] if flip else stored
    lines = []
    for q in ("exists", "find_offset", "extract"):
        for path in order + ["bg/ffxiv/wide/zz.lgb", "bg/ex1/wide/zz.lgb"]:
            lines.append({"op": "archive.query", "h": 1, "case": n, "q": q, "path": list(path.encode())})
    return Case([inst.open_line(1, n)] + lines + [{"op": "archive.close", "h": 1, "case": n}], desc={"three-digit chunks": [kind, flip]})


def twice_stored_case(n, kind, flip):
    """one path held by two chunks with different entries (each designates a real file): whichever the handle answers with, it must
    answer the same before and after other lookups were served from either chunk"""
    inst = Installation([0, 1], 0)
    dup = "bg/ffxiv/dup/same.lgb"
    others = {}
    for chunk in (0, 1, 3):
        off = inst.place(0, 2, chunk, chunk % 2, small_std(500 + chunk))
        if chunk != 3:
            inst.add_entry(0, 2, chunk, kind, list(dup.encode()), chunk % 2, off)
        o2 = inst.place(0, 2, chunk, 0, small_std(600 + chunk))
        others[chunk] = "bg/ffxiv/dup/only%d.lgb" % chunk
        inst.add_entry(0, 2, chunk, kind, list(others[chunk].encode()), 0, o2)
    order = [dup, others[1], dup, others[3], dup, others[0], dup] if not flip else [others[3], dup, others[1], dup, others[0], dup]
    lines = [{"op": "archive.query", "h": 1, "case": n, "q": q, "path": list(p.encode())} for q in ("find_offset", "extract", "exists") for p in order]
    return Case([inst.open_line(1, n)] + lines + [{"op": "archive.close", "h": 1, "case": n}], desc={"stored twice": [kind, flip]})


def sweep_case(n, cat, ex, chunk, plat):
    """one path per data file dat0..dat7, all at the same offset, each with its own content; every query kind on each"""
    inst = Installation([0, ex], plat)
    lines = []
    for dat in range(8):
        path = "%s/%ssweep/d%d.bin" % (sqpack.CATEGORY_NAMES[cat], ("ex%d/" % ex) if ex else "", dat)
        off = inst.place(ex, cat, chunk, dat, small_std(100 + dat), at=2048)
        inst.add_entry(ex, cat, chunk, 1 + (dat + n) % 2, list(path.encode()), dat, off)
        for q in ("exists", "find_offset", "extract"):
            lines.append({"op": "archive.query", "h": 1, "case": n, "q": q, "path": list(path.encode())})
    return Case([inst.open_line(1, n)] + lines + [{"op": "archive.close", "h": 1, "case": n}],
                desc={"dat-sweep": [cat, ex, chunk, plat]})


def check(run):
    rng = random.Random(run.seed)
    # -coverage 1 costs 25x on this model: action coverage is read back in the thorough tier only
    run.model_check("mc/MC_SqPack.tla", "mc/MC_SqPack.cfg", workers=14, coverage=run.tier == "thorough")
    if run.tier == "thorough":
        # the same model without the bound on the number of calls: the history variable is hidden by the VIEW, so TLC stops
        # when no new (layout, memo, last call) state appears - the invariants then hold for histories of every length.
        # (It finds exactly the states of the bounded run: the bound of 3 calls already saturates the memo.)
        r = run.model_check("mc/MC_SqPack.tla", "mc/MC_SqPack_all.cfg", workers=14, coverage=False)
        run.notes["unbounded_histories"] = {"cfg": "mc/MC_SqPack_all.cfg", "distinct_states": r["states"], "fixpoint": True}
    hists, st = tlc_generate("mc/MC_SqPack.tla", "mc/Gen_SqPack.cfg", workers=14)
    run.notes["generator"] = {"histories": len(hists), **st}
    if run.tier == "quick":
        hists = [h for h in hists if rng.random() < 0.06]
    cases = [history_case(n, h) for n, h in enumerate(hists)]
    base = len(cases)
    nr = 60 if run.tier == "quick" else 400
    # stratification: every category, expansion 0..9, chunk 0..9 and platform appears in every run
    forces = [(CATS[i % 15], i % 10, (i * 3) % 10, i % 5) for i in range(nr)]
    for i in range(nr):
        cases.append(random_case(rng, base + i, forces[i]))
    base = len(cases)
    for i, cat in enumerate(CATS):
        cases.append(sweep_case(base + i, cat, i % 10, (7 * i) % 10, i % 5))
    base = len(cases)
    for i, kind in enumerate([1, 2]):
        cases.append(far_case(base + i, kind))
        cases.append(odd_path_case(base + 2 + i, kind))
        cases.append(wide_chunk_case(base + 4 + 2 * i, kind, False))
        cases.append(wide_chunk_case(base + 5 + 2 * i, kind, True))
        cases.append(twice_stored_case(base + 8 + 2 * i, kind, False))
        cases.append(twice_stored_case(base + 9 + 2 * i, kind, True))
    run.rule = ("one query history per transition (layout, memo before, call, memo after) of the bounded handle model (TLC VIEW; "
                "913 layouts of <= 2 stored paths over chunk x index/index2/both x dat, 8 probe paths incl. case twins, fallback, "
                "unknown category; histories <= 3 calls; quick replays a seeded 6%), plus stratified random installations (all 15 "
                "categories, ex0..ex9, chunks 0..9, 5 platforms, 1..64 entries per index over dat0..7, synonym bits, noise entries) "
                "with 30 interleaved queries per handle, a dat0..dat7 sweep per category, offsets up to 2^35 - 128 bytes (looked up, not read); distinct by script, non-trivial when the layout stores at least one path")
    run.conform(cases, MODULE, CFG, shards=14, xmx="4g")
    run.assumptions = ["index layout recalled from the public SqPack description; the index-type value is written where the "
                       "library reads it (byte 296, value 0/1) and where the recalled layout has it (u32 at 300, value 0/2): "
                       "unverifiable offline, see DESIGN 5 C01",
                       "a path is stored in at most one chunk (unambiguous location) except in the stored-twice cases, where either entry is accepted but the answer must not change along the history"]


def replay(run, rp):
    run.conform([Case(rp["script"])], MODULE, CFG, shards=1)
