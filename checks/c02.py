"""C02 - extraction returns exactly the bytes that were packed."""
import itertools
import random
from lib.harness import Case
from gen.archive import Installation, desc_bytes, public_desc
from gen import sqpack

MODULE, CFG = "trace/SqPackTrace.tla", "trace/SqPackTrace.cfg"
CLASSES = [1, 127, 128, 129, 15999, 16000]
MODES = ["raw", "stored", "fixed", "dynamic"]


def payload(rng, n, noisy=False):
    """n bytes as runs; noisy -> literal random bytes (many short runs)"""
    if noisy and n <= 400:
        out = []
        for _ in range(n):
            b = rng.randrange(256)
            if out and out[-1][0] == b:
                out[-1][1] += 1
            else:
                out.append([b, 1])
        return out
    runs, left = [], n
    while left > 0:
        m = min(left, rng.choice([1, 2, 16, 128, 1000, n]))
        b = rng.randrange(256)
        if runs and runs[-1][0] == b:
            runs[-1][1] += m
        else:
            runs.append([b, m])
        left -= m
    return runs


def read_case(n, desc, pre=0, via="offset", rng=None):
    """pre: number of 128-byte units of another entry placed before this one"""
    if via == "offset":
        entries = []
        off = 2048
        if pre:
            other = desc_bytes({"kind": "std", "blocks": [[[7, 100 * pre]]], "_modes": ["raw"]})
            entries.append((off, other))
            off += ((len(other) + 127) // 128) * 128
        entries.append((off, desc_bytes(desc)))
        dat = sqpack.dat_file(entries)
        return Case([{"op": "archive.read", "case": n, "off": off, "desc": public_desc(desc), "_dat": dat.hex()}],
                    desc={"kind": desc["kind"], "modes": desc.get("_modes"), "offset": off})
    # through GameData::extract: C01's resolution is composed in
    ex, cat, chunk, datid = rng.choice([0, 1, 5]), rng.choice([2, 4, 10]), rng.choice([0, 1, 9, 10, 12, 99]), rng.choice([0, 1, 7])
    inst = Installation([0, ex], 0)
    if pre:
        inst.place(ex, cat, chunk, datid, {"kind": "std", "blocks": [[[7, 100 * pre]]], "_modes": ["raw"]})
    off = inst.place(ex, cat, chunk, datid, desc)
    path = "%s/%sdir/file%d.bin" % (sqpack.CATEGORY_NAMES[cat], ("ex%d/" % ex) if ex else "", n)
    kind = rng.choice([1, 2])
    inst.add_entry(ex, cat, chunk, kind, list(path.encode()), datid, off)
    # a neighbour of the same category and chunk in ANOTHER data file, extracted first through the same handle
    other_dat = (datid + rng.choice([1, 2, 3])) % 8
    other_path = "%s/%sdir/other%d.bin" % (sqpack.CATEGORY_NAMES[cat], ("ex%d/" % ex) if ex else "", n)
    ooff = inst.place(ex, cat, chunk, other_dat, {"kind": "std", "blocks": [[[9, 77]]], "_modes": ["raw"]})
    inst.add_entry(ex, cat, chunk, kind, list(other_path.encode()), other_dat, ooff)
    first = [{"op": "archive.query", "h": 1, "case": n, "q": "extract", "path": list(other_path.encode())}] if rng.random() < 0.5 else []
    return Case([inst.open_line(1, n)] + first + [
                 {"op": "archive.query", "h": 1, "case": n, "q": "extract", "path": list(path.encode())},
                 {"op": "archive.query", "h": 1, "case": n, "q": "extract", "path": list(other_path.encode())},
                 {"op": "archive.close", "h": 1, "case": n}],
                desc={"kind": desc["kind"], "modes": desc.get("_modes"), "via": "extract", "dat": datid, "offset": off})


def std(rng, lens, modes):
    return {"kind": "std", "blocks": [payload(rng, ln, rng.random() < 0.3) for ln in lens], "_modes": list(modes)}


def tex(rng, hdr_len, mips, modes, gaps=None, order=None):
    d = {"kind": "tex", "header": payload(rng, hdr_len), "mips": [[payload(rng, ln) for ln in mip] for mip in mips], "_modes": list(modes)}
    if gaps is not None:
        d["_gaps"] = gaps           # storage only: free 128-byte units in front of each mip's blocks
    if order is not None:
        d["_order"] = order         # storage only: the order in which the mips' blocks lie in the data file
    return d


def mdl(rng, counts, lens, modes, lods):
    """counts: blocks per section in order stack, runtime, v0, i0, v1, i1, v2, i2"""
    it = iter(lens)
    secs = [[payload(rng, next(it)) for _ in range(c)] for c in counts]
    return {"kind": "mdl", "version": rng.choice([5, 6, 0x1000005]) % 65536 * 1 + 0, "decls": rng.randrange(1, 9), "mats": rng.randrange(0, 9),
            "lods": lods, "stream": rng.random() < 0.5, "edge": False,
            "stack": secs[0], "runtime": secs[1], "vertex": [secs[2], secs[4], secs[6]], "index": [secs[3], secs[5], secs[7]],
            # where the sections' blocks are stored (11 sections in reading order incl. the empty edge sections): now and then
            # not in reading order
            "_storage_order": rng.sample(range(11), 11) if rng.random() < 0.3 else None,
            "_modes": list(modes)}


def cases(rng, tier):
    out = []
    n = 0
    # (1) standard entries: every (length class, mode) single block, every ordered pair, sampled triples
    singles = list(itertools.product(CLASSES, MODES))
    for ln, m in singles:
        out.append(read_case(n, std(rng, [ln], [m]), pre=n % 3)); n += 1
    pairs = list(itertools.product(singles, singles))
    for (a, b) in (pairs if tier == "thorough" else rng.sample(pairs, 150)):
        out.append(read_case(n, std(rng, [a[0], b[0]], [a[1], b[1]]), pre=n % 2)); n += 1
    for _ in range(60 if tier == "quick" else 600):
        t = [rng.choice(singles) for _ in range(3)]
        out.append(read_case(n, std(rng, [x[0] for x in t], [x[1] for x in t]))); n += 1
    # (2) block sweep: every payload length 1..300 in every flavour (all residues of the 128-byte alignment)
    for m in MODES:
        for ln in (range(1, 301) if tier == "thorough" or m in ("raw", "stored") else range(1, 301, 4)):
            out.append(read_case(n, {"kind": "std", "blocks": [[[1 + ln % 250, ln]], [[3, 5]]], "_modes": [m, "raw"]})); n += 1
    # (2b) block-count sweep: 1..48 small blocks, so that the entry header (24 bytes + 8 per block) ends before, on and after
    # every 128-byte boundary (13, 29, 45 blocks end exactly on one); the same for texture headers (20 per mip + 2 per block)
    for nb in range(1, 49):
        out.append(read_case(n, std(rng, [16 + nb % 5] * nb, [MODES[(nb + k) % len(MODES)] for k in range(nb)]), pre=nb % 2)); n += 1
    for nm in range(1, 7):
        for extra in range(0, 14, 2 if tier == "quick" else 1):
            mips = [[32] * (1 + (extra if i == 0 else 0)) for i in range(nm)]
            nbk = sum(len(m) for m in mips)
            out.append(read_case(n, tex(rng, 80, mips, ["raw"] * nbk))); n += 1
    # (3) textures: 1..13 mips, 1..3 blocks per mip
    for _ in range(60 if tier == "quick" else 500):
        nm = rng.choice([1, 2, 3, 13]) if rng.random() < 0.4 else rng.randint(1, 13)
        mips = [[rng.choice(CLASSES[:4] + [4096, 16000]) for _ in range(rng.randint(1, 3))] for _ in range(nm)]
        modes = [rng.choice(MODES) for _ in range(sum(len(m) for m in mips))]
        # every mip states where its blocks lie: in a third of the textures they are not back to back / not in reading order
        r = rng.random()
        # (the first mip stays first and without a gap: the texture header is by definition what precedes it)
        gaps = [0] + [rng.choice([0, 0, 1, 2]) for _ in range(nm - 1)] if r < 0.33 else None
        order = [0] + rng.sample(range(1, nm), nm - 1) if 0.2 < r < 0.45 else None
        out.append(read_case(n, tex(rng, rng.choice([80, 80, 96, 128]), mips, modes, gaps, order), pre=n % 2)); n += 1
    # deterministic: two and three mips with a gap in front of the second / third, and stored in reverse order
    for mips, gaps, order in [([[300], [100]], [0, 1], None), ([[300, 200], [100], [50]], [0, 0, 2], None), ([[128], [64], [32]], [0, 1, 1], None),
                              ([[300], [100], [60]], None, [0, 2, 1]), ([[300, 200], [100, 90], [50]], [0, 1, 0], [0, 2, 1])]:
        nbk = sum(len(m) for m in mips)
        out.append(read_case(n, tex(rng, 80, mips, [MODES[k % len(MODES)] for k in range(nbk)], gaps, order))); n += 1
    # (4) models: per-section block counts 0..2 (bounded-exhaustive in thorough: 3^8), LOD count 1..3
    allcounts = list(itertools.product([0, 1, 2], repeat=8))
    for counts in (allcounts if tier == "thorough" else rng.sample(allcounts, 200)):
        lods = 1 + max([i for i in range(3) if counts[2 + 2 * i] or counts[3 + 2 * i]] or [0])
        lens = [rng.choice(CLASSES[:4] + [2000]) for _ in range(sum(counts))]
        modes = [rng.choice(MODES) for _ in range(sum(counts))]
        out.append(read_case(n, mdl(rng, counts, lens, modes, lods))); n += 1
    # (5) through GameData::extract at dat 0/1/7, first or after another entry; random bigger contents
    for _ in range(80 if tier == "quick" else 800):
        k = rng.random()
        nb = rng.choice([1, 2, 5, 20, 70]) if tier == "thorough" else rng.choice([1, 2, 5, 12])
        lens = [rng.randint(1, 16000) for _ in range(nb)]
        modes = [rng.choice(MODES) for _ in range(nb)]
        if k < 0.5:
            d = std(rng, lens, modes)
        elif k < 0.75:
            split = sorted(rng.sample(range(1, nb), min(nb - 1, rng.randint(0, 3)))) if nb > 1 else []
            mips = [lens[a:b] for a, b in zip([0] + split, split + [nb])]
            d = tex(rng, 80, mips, modes)
        else:
            counts = [0] * 8
            for _ in range(nb):
                counts[rng.randrange(8)] += 1
            lods = 1 + max([i for i in range(3) if counts[2 + 2 * i] or counts[3 + 2 * i]] or [0])
            d = mdl(rng, counts, lens, modes, lods)
        out.append(read_case(n, d, pre=rng.choice([0, 1, 9]), via="extract", rng=rng)); n += 1
    return out


def check(run):
    rng = random.Random(run.seed)
    run.model_check("mc/MC_SqPackData.tla", "mc/MC_SqPackData.cfg", workers=12)
    cs = cases(rng, run.tier)
    run.rule = ("standard entries with every (length class in {1,127,128,129,15999,16000} x raw/stored/fixed/dynamic) single block, "
                "block pairs (thorough: all 576), sampled triples, a block sweep over every payload length 1..300; textures with "
                "1..13 mips; entries of 1..48 blocks and textures of 1..6 mips x 1..14 blocks (header ends before / on / after each 128-byte boundary); models with 0..2 blocks per section (thorough: all 6561 count vectors); entries first or after another "
                "entry, read through SqPackData::read_from_offset and through GameData::extract at dat 0/1/7 with up to 70 blocks "
                "of up to 16000 bytes; distinct by descriptor, all non-trivial")
    run.conform(cs, MODULE, CFG, shards=14, xmx="5g")
    run.assumptions = ["dat entry layouts recalled from the public SqPack description; accepted by the library on the happy path",
                       "inflate itself is zlib-rs' business: payloads are given decoded, the specification checks reassembly"]


def replay(run, rp):
    run.conform([Case(rp["script"])], MODULE, CFG, shards=1)
