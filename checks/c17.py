"""C17 - untrusted user and launcher files never crash the caller."""
import glob
import random
import struct
from lib.harness import Case, REPO
from gen import faults, zipatch, userfiles
from gen.text import render_cfg, render_exl
from gen.meta import render_fiin, render_list

MODULE, CFG = "trace/FaultTrace.tla", "trace/FaultTrace.cfg"
LEVEL = "fault_enumeration"
R = REPO + "/resources/tests/"


def chatlog():
    msgs = [b"hello", b"second message \xe3\x81\x82", b"x"]
    bodies = [struct.pack("<IBBI", 1700000000 + i, 3, 0, 1) + m for i, m in enumerate(msgs)]
    offs, o = [], 0
    for b in bodies:
        offs.append(o)
        o += len(b)
    n = len(msgs)
    return struct.pack("<II", 0, n) + struct.pack("<%dI" % n, *offs) + b"".join(bodies)


def patch_fields(data):
    """size-driven walk over a well-formed patch: chunk size / tag / SQPK inner size / command and the words after it"""
    fields, pos, eof_end = [], 12, None
    while pos + 8 <= len(data):
        size = struct.unpack(">I", data[pos:pos + 4])[0]
        tag = data[pos + 4:pos + 8]
        fields += [(pos, 4), (pos + 4, 4)]
        if tag == b"SQPK":
            fields += [(pos + 8, 4), (pos + 12, 1)] + [(pos + 13 + 4 * i, 4) for i in range(8)] + [(pos + 13, 8), (pos + 21, 8)]
        elif tag in (b"ADIR", b"DELD", b"APLY", b"FHDR"):
            fields += [(pos + 8, 4), (pos + 12, 4)]
        if tag == b"EOF_":
            eof_end = pos + 8
            break
        pos += 8 + size + 4
    return fields, eof_end


def patch_bases(rng):
    out = []
    T = {"k": "T", "plat": 0}
    ids = {"main": 10, "sub": 0, "file": 0}
    seqs = {
        "data": [{"k": "FHDR", "v": 3}, {"k": "APLY", "opt": 1}, T, {**ids, "k": "A", "off": 1, "data": [[7, 256]], "del": 1},
                 {**ids, "k": "E", "off": 4, "n": 2}, {**ids, "k": "D", "off": 0, "n": 1},
                 {**ids, "k": "H", "fk": "D", "hk": "V", "data": [[9, 1024]]}, {"k": "X"}, {"k": "I"}],
        "files": [T, {"k": "FA", "path": list(b"d/one.bin"), "off": 0, "data": [[5, 300]], "blocks": [[False, 200], ["stored", 100]]},
                  {"k": "FA", "path": list(b"two.bin"), "off": 3, "data": [[6, 40]], "blocks": [["dynamic", 40]]},
                  {"k": "FM", "path": list(b"m/n/")}, {"k": "FD", "path": list(b"two.bin")}, {"k": "ADIR", "name": list(b"q")},
                  {"k": "FR", "ex": 1}],
    }
    for name, cs in seqs.items():
        data = zipatch.encode_patch(cs + [{"k": "EOF"}])
        fields, eof_end = patch_fields(data)
        out.append(faults.base("patch:" + name, "patch.apply", data, fields, tree0={"dirs": [], "files": []}, _eof=eof_end))
    return out


def check(run):
    # deterministic on purpose (see c18.py): bases and samples come from a fixed stream, not from VERIF_SEED
    rng = random.Random(1717)
    # the patch machine with truncated streams: success is reported only after EOF (model-checked in MC_ZiPatch as OkIffEof)
    run.model_check("mc/MC_ZiPatch.tla", "mc/MC_ZiPatch.cfg", workers=12)
    bases = []
    cfgb = open(R + "FFXIV.cfg", "rb").read()
    small_cfg = render_cfg([{"name": b"Cat", "pairs": [[b"key", b"v"], [b"k2", b""]]}, {"name": b"Empty", "pairs": []}])
    bases.append(faults.base("cfg:small", "cfg", small_cfg, [(o, 1) for o in range(len(small_cfg))]))
    bases.append(faults.base("cfg:fixture", "cfg", cfgb, [(o, 1) for o in range(0, 120)]))
    exlb = render_exl(2, [[list(b"Foo"), 4], [list(b"Bar"), -1]], [(1, b"#c,1")])
    bases.append(faults.base("exl:small", "exl", exlb, [(o, 1) for o in range(len(exlb))]))
    fiin = render_fiin([(b"a.txt", b"hello"), (b"b" * 63, b"")])
    bases.append(faults.base("fiin:two", "fiin", fiin, [(0, 4), (4, 4), (24, 4), (28, 4), (1024, 4), (1028, 4), (1032, 1), (1095, 1), (1096, 4), (1120, 4), (1128, 1)]))
    bases.append(faults.base("fiin:fixture", "fiin", open(R + "test.fiin", "rb").read(), [(24, 4), (28, 4), (1024, 4)]))
    ch = userfiles.chardat(4, [8, 1, 1, 50, 15] + [3] * 22, 0x67CC6CA8, b"Comment")
    bases.append(faults.base("chardat:gen", "chardat", ch, [(0, 4), (4, 4), (8, 4), (16, 1), (17, 1), (20, 1), (42, 1), (44, 4), (48, 1), (54, 1), (55, 1), (211, 1)]))
    gs = userfiles.gear_file(0, {1: {"index": 0, "name": b"WHM", "slots": {1: (5269, 2453)}, "facewear": 0}})
    bases.append(faults.base("gearsets:gen", "gearsets", gs, [(0, 4), (4, 4), (8, 4), (12, 4), (16, 1), (17, 1), (18, 1), (21, 1), (22, 4), (77, 4)]))
    lg = chatlog()
    bases.append(faults.base("log:gen", "log", lg, faults.words(len(lg), 48) + [(24, 1), (25, 1)]))
    boot = ("--477D80B1_38BC\r\nContent-Type: application/octet-stream\r\nContent-Location: ffxivpatch/2b5cbc63/metainfo/D2023.04.28.0000.0001.http\r\n"
            "X-Patch-Length: 22221335\r\n\r\n22221335\t69674819\t19\t18\t2023.09.14.0000.0001\thttp://patch-dl.ffxiv.com/boot/2b5cbc63/D2023.09.14.0000.0001.patch\r\n--477D80B1_38BC--\r\n").encode()
    game = render_list("game", "ID", "loc", [{"length": "5", "size": "7", "a": "1", "b": "2", "version": "2023.01.01.0000.0000", "hbs": "50000000",
                                              "hashes": ["ab" * 20, "cd" * 20], "url": "http://x/y.patch"}])
    bases.append(faults.base("patchlist:boot", "patchlist.boot", boot, [(o, 1) for o in range(0, len(boot), 3)]))
    bases.append(faults.base("patchlist:game", "patchlist.game", game, [(o, 1) for o in range(0, len(game), 3)]))
    needle = "https://launcher.finalfantasyxiv.com/v2/index.html".encode("utf-16-be")
    exe = bytes(rng.randrange(256) for _ in range(64)) + needle + b"\0\0" + bytes(rng.randrange(256) for _ in range(40))
    bases.append(faults.base("frontier:exe", "frontier_url", exe, [(64, 2), (64 + len(needle) - 2, 2), (64 + len(needle), 2)], path_fault="none"))
    pb = patch_bases(rng)
    bases += pb
    space, st = faults.enumerate_faults(bases, "c17")
    run.notes["fault_space"] = {"bases": len(bases), "faults": sum(len(v) for v in space.values()), **st}
    run.mc.append({"module": "mc/Gen_Faults.tla", "cfg": "mc/Gen_Faults.cfg", "states": st["states"], "transitions": st["transitions"],
                   "wall_s": 0, "actions": {}, "never_taken": []})

    def must_fail(b, f):
        return b["entry"] == "patch.apply" and f["k"] == "trunc" and f["n"] < b["extra"]["_eof"]
    cases, n = faults.cases_for(bases, space, rng, 0, per_base=None if run.tier == "thorough" else 600, must_fail=must_fail)
    # text-level and path-level faults (named members of the fault space)
    extra = []
    tb = {"id": "text", "entry": "cfg", "extra": {}}
    for i, t in enumerate([b"<", b">", b"<>", b"\r\n<\r\n", b"a<", b"\xff\xfe<x>\r\n", b"\r\n<C>\r\n\tv\r\n", b"\r\n<C>\r\nk\r\n\x00", b"\x00", b"<\xc3>",
                           b"\r\n<C>\r\nk\tv", b"k\tv\r\n", b"<" * 1000, b"\t" * 1000]):
        extra.append(faults.line(n, tb, {"k": "text", "i": i}, t))
    # every line of up to 4 characters over the structural alphabet of the config grammar, alone and after a valid category
    import itertools
    k = 100
    for ln in range(1, 5):
        for chars in itertools.product(b"<>a\t ", repeat=ln):
            t = bytes(chars)
            extra.append(faults.line(n, tb, {"k": "text", "i": k}, t + b"\r\n"))
            extra.append(faults.line(n, tb, {"k": "text", "i": k + 1}, b"<C>\r\nk\tv\r\n" + t + b"\r\nk2\tv2\r\n"))
            k += 2
    # the same for the list grammar: every line of up to 3 characters over {',', '#', a, 1, -}, the empty line included, between
    # valid rows, with LF and with CRLF line ends
    tbx = {"id": "text", "entry": "exl", "extra": {}}
    for ln in range(0, 4):
        for chars in itertools.product(b",#a1-", repeat=ln):
            t = bytes(chars)
            extra.append(faults.line(n, tbx, {"k": "text", "i": k}, b"EXLT,2\nfoo,1\n" + t + b"\nbar,2\n"))
            extra.append(faults.line(n, tbx, {"k": "text", "i": k + 1}, b"EXLT,2\r\n" + t + b"\r\nbar,2"))
            k += 2
    for entry, texts in (("exl", [b"", b"EXLT", b"EXLT,", b"EXLT,x", b",", b",,,,", b"a,99999999999", b"\xff,1", b"EXLT,2\n#,\n,5\n"]),
                         ("patchlist.boot", [b"", b"\r\n", b"\r\n" * 5, b"\r\n" * 8, b"X-Patch-Length: ", b"X-Patch-Length: \r\n", b"a\r\nb\r\nc\r\nd\r\ne\r\nf\r\ng\r\nh\r\n",
                                             b"1\r\n2\r\n3\r\n4\r\n5\r\nx\ty\r\n7\r\n8\r\n", b"1\r\n2\r\n3\r\n4\r\n5\r\n\t\t\t\t\t\r\n7\r\n8\r\n"]),
                         ("patchlist.game", [b"", b"1\r\n2\r\n3\r\n4\r\n5\r\na\tb\tc\td\te\tf\tg\th\ti\r\n7\r\n8\r\n", b"1\r\n2\r\n3\r\n4\r\n5\r\n1\t2\t3\t4\t5\t6\tx\t8\t9\r\n7\r\n8\r\n",
                                             # a row whose hash column is empty / only separators (parsed, then rendered again)
                                             b"1\r\n2\r\n3\r\n4\r\n5\r\n1\t2\t3\t4\t5\t6\t7\t\t9\r\n7\r\n8\r\n",
                                             b"1\r\n2\r\n3\r\n4\r\n5\r\n1\t2\t3\t4\t5\t6\t7\t,\t9\r\n7\r\n8\r\n",
                                             b"1\r\n2\r\n3\r\n4\r\n5\r\n1\t2\t3\t4\t5\t6\t7\t,,\t9\r\n1\t2\t3\t4\t5\t6\t7\tab,\t9\r\n7\r\n8\r\n"]),
                         ("log", [b"", b"\0" * 7, b"\0" * 8, struct.pack("<II", 0, 1), struct.pack("<III", 0, 1, 0), struct.pack("<III", 0, 1, 100) + b"\0" * 40,
                                  struct.pack("<II", 0xFFFFFFFF, 0xFFFFFFFF), struct.pack("<II", 5, 3) + b"\0" * 30, struct.pack("<II", 0, 0x40000000)]),
                         ("gearsets", [b"", struct.pack("<III", 0x006D0005, 0, 0) + b"\0" * 4 + b"\xff", struct.pack("<III", 0x006D0005, 1, 1) + b"\0" * 4 + b"\xff",
                                       struct.pack("<III", 0x006D0005, 0xFFFFFFFF, 0xFFFFFFFF) + b"\0" * 4 + b"\xff" + b"\x73" * 64]),
                         ("chardat", [b"", struct.pack("<I", 0x2013FF14), userfiles.chardat(4, [8, 1, 1, 50, 15] + [3] * 22, 1, b"\xff\xfe invalid utf8")]),
                         ("fiin", [b"", b"FileInfo", b"FileInfo" + b"\0" * 16 + struct.pack("<ii", 1024, -96), b"FileInfo" + b"\0" * 16 + struct.pack("<ii", 1024, 0x7FFFFFFF),
                                   render_fiin([(b"\xff\xfe", b"x")])])):
        tb2 = {"id": "text", "entry": entry, "extra": {}}
        for i, t in enumerate(texts):
            extra.append(faults.line(n, tb2, {"k": "text", "i": i}, t))
    for pf in ("missing", "nover", "none"):
        for content in (b"2012.01.01.0000.0000", b"\xff\xfe", b""):
            extra.append(faults.line(n, {"id": "path", "entry": "bootdata", "extra": {}}, {"k": "path", "what": pf}, content, path_fault=pf))
    for pf in ("missing", "directory"):
        extra.append(faults.line(n, {"id": "path", "entry": "frontier_url", "extra": {}}, {"k": "path", "what": pf}, b"", path_fault=pf))
    for t in (b"", b"MZ", exe[:64 + len(needle)], exe[:64 + len(needle) - 1], b"\0" * 200):
        extra.append(faults.line(n, {"id": "path", "entry": "frontier_url", "extra": {}}, {"k": "text", "i": len(t)}, t, path_fault="none"))
    # patch fault sequences of the patch machine: command before target info, zero / huge counts, unwritable and missing targets
    T = {"k": "T", "plat": 0}
    ids = {"main": 10, "sub": 0, "file": 0}
    pbx = {"id": "patchseq", "entry": "patch.apply", "extra": {}}
    seqs = [("data-before-target", [{**ids, "k": "A", "off": 0, "data": [[1, 128]], "del": 0}], False, {}),
            ("expand-before-target", [{**ids, "k": "E", "off": 0, "n": 1}], False, {}),
            ("header-before-target", [{**ids, "k": "H", "fk": "D", "hk": "V", "data": [[1, 1024]]}], False, {}),
            ("delete-count-zero", [T, {**ids, "k": "E", "off": 0, "n": 1}, {**ids, "k": "D", "off": 0, "n": 0}], False, {}),
            ("delete-in-missing-folder", [T, {**ids, "k": "D", "off": 0, "n": 1}], False, {}),
            ("addfile-onto-directory", [T, {"k": "FA", "path": list(b"isdir"), "off": 0, "data": [[5, 10]], "blocks": [[False, 10]]}], True, {"readonly_dir": "isdir"}),
            ("adddata-onto-directory", [T, {**ids, "k": "A", "off": 0, "data": [[1, 128]], "del": 0}], True, {"readonly_dir": "sqpack/ffxiv/0a0000.win32.dat0"})]
    for name, cs, mf, kw in seqs:
        data = zipatch.encode_patch(cs + [{"k": "EOF"}])
        extra.append(faults.line(n, pbx, {"k": "sequence", "what": name}, data, must_fail=mf, tree0={"dirs": [], "files": []}, **kw))
    # a regular file sits where a command needs a directory: the command cannot have its effect, so the patch must not report success
    blocked = lambda path: {"dirs": [], "files": [{"p": list(path), "c": [[7, 3]]}]}
    for name, cs, tree in [
            ("mkdirtree-onto-file", [T, {"k": "FM", "path": list(b"blocked/")}], blocked(b"blocked")),
            ("mkdirtree-below-file", [T, {"k": "FM", "path": list(b"blocked/sub/")}], blocked(b"blocked")),
            ("mkdirtree-deep-onto-file", [T, {"k": "FM", "path": list(b"a/b/blocked/")}], blocked(b"a/b/blocked")),
            ("addfile-below-file", [T, {"k": "FA", "path": list(b"blocked/x.bin"), "off": 0, "data": [[5, 10]], "blocks": [[False, 10]]}], blocked(b"blocked")),
            ("adddata-folder-is-file", [T, {**ids, "k": "A", "off": 0, "data": [[1, 128]], "del": 0}], blocked(b"sqpack/ffxiv")),
            ("expand-folder-is-file", [T, {**ids, "k": "E", "off": 0, "n": 1}], blocked(b"sqpack/ffxiv")),
            ("header-folder-is-file", [T, {**ids, "k": "H", "fk": "D", "hk": "V", "data": [[1, 1024]]}], blocked(b"sqpack/ffxiv"))]:
        data = zipatch.encode_patch(cs + [{"k": "EOF"}])
        extra.append(faults.line(n, pbx, {"k": "sequence", "what": name}, data, must_fail=True, tree0=tree))
    # the target is a device without room (/dev/full): the write cannot have happened, so the patch must not report success -
    # small payloads included, which a buffered writer would only push out (and fail on) when it is dropped
    import os
    if os.path.exists("/dev/full"):
        dat0 = "sqpack/ffxiv/0a0000.win32.dat0"
        for name, cs in [("adddata-128-on-full-device", [T, {**ids, "k": "A", "off": 0, "data": [[1, 128]], "del": 0}]),
                         ("adddata-4096-on-full-device", [T, {**ids, "k": "A", "off": 2, "data": [[3, 4096]], "del": 1}]),
                         ("adddata-65536-on-full-device", [T, {**ids, "k": "A", "off": 0, "data": [[5, 65536]], "del": 0}]),
                         ("expand-on-full-device", [T, {**ids, "k": "E", "off": 0, "n": 1}]),
                         ("delete-on-full-device", [T, {**ids, "k": "D", "off": 0, "n": 2}]),
                         ("header-on-full-device", [T, {**ids, "k": "H", "fk": "D", "hk": "V", "data": [[1, 1024]]}])]:
            data = zipatch.encode_patch(cs + [{"k": "EOF"}])
            extra.append(faults.line(n, pbx, {"k": "sequence", "what": name}, data, must_fail=True, tree0={"dirs": [], "files": []}, full_device=dat0))
    # a file operation declaring a huge file size with no data behind it
    huge = zipatch.encode_patch([T, {"k": "FA", "path": list(b"h.bin"), "off": 0, "data": [[5, 10]], "blocks": [[False, 10]]}, {"k": "EOF"}])
    k = huge.index(b"SQPK") + 4 + 4 + 1 + 3 + 8
    huge = huge[:k] + struct.pack(">Q", 0x7FFFFFFFFFFF) + huge[k + 8:]
    extra.append(faults.line(n, pbx, {"k": "sequence", "what": "huge-file-size"}, huge, tree0={"dirs": [], "files": []}))
    cases.append(Case(extra, desc={"text, path and patch-sequence faults": len(extra)}))
    run.rule = ("every (base, fault) pair of the fault space enumerated by TLC from Faults.tla (truncation at every length 0..48, every "
                "field boundary +-1 and the file's tail; every field set to 0, 1, 0x7F.., 0x80.., 0xFF.., original +-1 in both byte orders) over "
                "valid bases of each format (quick: a seeded 260 per base), named text / path faults, patch fault sequences (command before "
                "target info, count 0, missing folder, unwritable target, a regular file in the place of a needed directory, a target device without room, huge size, stream ends anywhere), random multi-byte damage; each "
                "run in an isolated worker with a counting allocator; distinct by input bytes, all non-trivial")
    run.conform(cases, MODULE, CFG, shards=14, mode="supervise", xmx="3g")
    run.assumptions = ["a crash, hang or abort of the worker is recorded by the supervisor for the case that was running",
                       "memory bound 256 MiB + 1100 bytes per input byte, measured by a counting global allocator",
                       "undefined behaviour that does not crash is outside this technique (DESIGN section 8)"]


def replay(run, rp):
    run.conform([Case(rp["script"])], MODULE, CFG, shards=1, mode="supervise")
