"""C03 - applying a ZiPatch has exactly the reference effect on the install."""
import random
from lib.harness import Case, tlc_generate
from gen import zipatch

MODULE, CFG = "trace/ZiPatchTrace.tla", "trace/ZiPatchTrace.cfg"
CATS = [0, 1, 2, 3, 4, 5, 6, 7, 8, 9, 10, 11, 12, 18, 19]


def cells(cs):
    out = []
    for v in cs:
        b = 16 + v
        if out and out[-1][0] == b:
            out[-1][1] += 64
        else:
            out.append([b, 64])
    return out


def concretise_chunk(c):
    c = dict(c)
    k = c["k"]
    if k in ("A", "H"):
        c["data"] = cells(c["data"])
    elif k == "FA":
        n = len(c["data"])
        enc = c.pop("enc")
        c["off"] = c["off"] * 64
        c["data"] = cells(c["data"])
        c["blocks"] = {"raw": [[False, 64 * n]], "deflate": [[True, 64 * n]],
                       "three": [[False, 64], [True, 64], [False, 64 * (n - 2)]]}[enc]
    return c


def event_chunk(c):
    c = dict(c)
    c.pop("blocks", None)
    return c


def make_case(n, tree0, patches, via="zipatch", desc=None, nontrivial=True):
    full = [p + [{"k": "EOF"}] for p in patches]
    hexes = [zipatch.encode_patch(p).hex() for p in full]
    line = {"op": "patch.apply", "case": n, "via": via, "tree0": tree0,
            "patches": [[event_chunk(c) for c in p] for p in full], "_patches": hexes}
    return Case([line], desc=desc if desc is not None else {"tree0": tree0, "patches": [[c["k"] for c in p] for p in full]},
                nontrivial=nontrivial)


# ------------------------------------------------------------------ random long sequences (byte level)
def rdata(rng, n):
    """n bytes as a few runs."""
    runs, left = [], n
    while left > 0:
        m = min(left, rng.choice([1, 5, 128, 1024, n]))
        b = rng.randrange(1, 256)
        if runs and runs[-1][0] == b:
            runs[-1][1] += m
        else:
            runs.append([b, m])
        left -= m
    return runs


def rids(rng, pool):
    if pool and rng.random() < 0.7:
        return dict(rng.choice(pool))
    ex, ch = rng.randrange(10), rng.randrange(10)
    ids = {"main": rng.choice(CATS), "sub": ex * 256 + ch, "file": rng.randrange(8)}
    pool.append(ids)
    return dict(ids)


def random_patch(rng, pool, paths, nchunks):
    out = [{"k": "FHDR", "v": rng.choice([2, 3])}] if rng.random() < 0.7 else []
    if rng.random() < 0.5:
        out.append({"k": "APLY", "opt": rng.choice([1, 2]), "val": rng.randrange(2)})
    out.append({"k": "T", "plat": rng.choice([0, 0, 0, 1, 2])})
    for _ in range(nchunks):
        r = rng.random()
        if r < 0.22:
            nb = rng.choice([1, 1, 2, 3, 8])
            out.append({**rids(rng, pool), "k": "A", "off": rng.choice([0, 1, 2, 7, 16]), "data": rdata(rng, 128 * nb),
                        "del": rng.choice([0, 0, 1, 3])})
        elif r < 0.32:
            out.append({**rids(rng, pool), "k": rng.choice(["D", "E"]) if pool else "E", "off": rng.choice([0, 1, 5]),
                        "n": rng.choice([1, 2, 3, 9])})
            if out[-1]["k"] == "D":
                # D does not create directories: only on an id that an earlier command has touched
                out[-1].update(rng.choice(pool[:-1] or pool))
                # ... and that no RemoveAll of that expansion has emptied since (the library removes the folder itself)
                def folder_exists(d):
                    for c in reversed(out[:-1]):
                        if c["k"] == "FR" and c["ex"] == d["sub"] >> 8:
                            return False
                        if c.get("main") == d["main"] and c.get("sub") == d["sub"] and c["k"] in ("A", "E", "H"):
                            return True
                    return False
                if not folder_exists(out[-1]):
                    out[-1]["k"] = "E"
        elif r < 0.42:
            out.append({**rids(rng, pool), "k": "H", "fk": rng.choice(["D", "I"]), "hk": rng.choice(["V", "I", "D"]),
                        "data": rdata(rng, 1024)})
            if out[-1]["fk"] == "I":
                out[-1]["file"] = rng.choice([0, 0, 2])
        elif r < 0.72:
            size = rng.choice([0, 1, 127, 128, 129, 143, 144, 1000, 15999, 16000, 31999, 32000, 32001])
            if rng.random() < 0.3:
                size = rng.randint(1, 3000)
            data = rdata(rng, size)
            blocks, left = [], size
            while left > 0:
                m = min(left, rng.choice([left, 16000, 1000, 128, 127]))
                blocks.append([rng.choice([False, "dynamic", "fixed", "stored"]), m])
                left -= m
            if paths and rng.random() < 0.6:
                p = rng.choice(paths)
            else:
                p = "/".join("".join(rng.choice("abcdwxyz0189_.") for _ in range(rng.randint(1, 7))).strip(".") or "f"
                             for _ in range(rng.randint(1, 4)))
                if any(q == p or q.startswith(p + "/") or p.startswith(q + "/") for q in paths):
                    continue
                paths.append(p)
            off = 0 if rng.random() < 0.6 else rng.choice([1, 3, 64, 127, 128, 129, 5000])
            out.append({"k": "FA", "path": list(p.encode()), "off": off, "data": data, "blocks": blocks})
        elif r < 0.8 and paths:
            out.append({"k": "FD", "path": list(rng.choice(paths).encode())})
        elif r < 0.83:
            out.append({"k": "FR", "ex": rng.randrange(10)})
        elif r < 0.88:
            d = "/".join("".join(rng.choice("mnopq") for _ in range(rng.randint(1, 4))) for _ in range(rng.randint(1, 3)))
            if any(q == d or q.startswith(d + "/") or d.startswith(q + "/") for q in paths):
                continue
            out.append({"k": "FM", "path": list((d + "/").encode())})
        elif r < 0.92:
            out.append({"k": rng.choice(["X", "I"])})
        else:
            out.append({"k": rng.choice(["ADIR", "DELD"]), "name": list(b"some/dir")})
    return out


def random_case(rng, n, tier):
    pool, paths = [], []
    tree0 = {"dirs": [], "files": []}
    via = rng.choice(["zipatch", "zipatch", "gamedata", "bootdata"])
    if via == "bootdata":
        tree0["files"].append({"p": list(b"ffxivboot.ver"), "c": zipatch.rle(b"2012.01.01.0000.0000")})
    for _ in range(rng.randint(0, 4)):
        p = "".join(rng.choice("abcdwxyz") for _ in range(rng.randint(1, 6)))
        if p in paths or any(q.startswith(p + "/") for q in paths):
            continue
        paths.append(p)
        tree0["files"].append({"p": list(p.encode()), "c": rdata(rng, rng.choice([0, 1, 200, 5000]))})
    npatch = rng.choice([1, 1, 2, 3, 5])
    lo, hi = (5, 25) if tier == "quick" else (20, 200)
    patches = [random_patch(rng, pool, paths, max(1, rng.randint(lo, hi) // npatch)) for _ in range(npatch)]
    return make_case(n, tree0, patches, via=via,
                     desc={"random": True, "via": via, "patches": [len(p) for p in patches], "tree0_files": len(tree0["files"])})


def name_cases(n0):
    """every (category, expansion, chunk, platform, dat) reachable in one patch per platform: the file names patching writes"""
    out = []
    n = n0
    for plat in (0, 1, 2):
        for cat in CATS:
            chunks = [{"k": "T", "plat": plat}]
            for ex in (0, 1, 9):
                for ch in (0, 3, 9):
                    for dat in (0, 7):
                        chunks.append({"k": "A", "main": cat, "sub": ex * 256 + ch, "file": dat, "off": 0,
                                       "data": [[cat + 1, 128]], "del": 0})
            out.append(make_case(n, {"dirs": [], "files": []}, [chunks], desc={"names": [plat, cat]}))
            n += 1
    return out


def command_cases(n0):
    """deterministic shapes the bounded alphabet is too small for: every (file kind, header kind) pairing of a header update on
    files that have contents; empty-block commands whose length is 511 / 512 / 513 / 1024 blocks (a multiple of 64 KiB or not)
    on top of existing contents; a folder emptied by RemoveAll and written again in the same patch"""
    out, n = [], n0
    T = {"k": "T", "plat": 0}
    ids = {"main": 10, "sub": 0x0102, "file": 3}
    fill = {**ids, "k": "A", "off": 0, "data": [[0x5A, 128 * 24]], "del": 0}
    for fk in ("D", "I"):
        for hk in ("V", "I", "D"):
            h = {**ids, "k": "H", "fk": fk, "hk": hk, "data": [[0x11, 512], [0x22, 512]]}
            if fk == "I":
                h["file"] = 0
            idxfill = {"k": "FA", "path": list(b"sqpack/ex1/0a0102.win32.index"), "off": 0, "data": [[0x77, 3000]], "blocks": [[False, 3000]]}
            out.append(make_case(n, {"dirs": [], "files": []}, [[T, fill, idxfill, h]], desc={"header update": [fk, hk]}))
            n += 1
    for k in ("D", "E"):
        for blocks in (511, 512, 513, 1024):
            big = {**ids, "k": "A", "off": 0, "data": [[0x33, 128 * 1100]], "del": 0}
            out.append(make_case(n, {"dirs": [], "files": []}, [[T, big, {**ids, "k": k, "off": 2, "n": blocks}]],
                                 desc={"empty-block command": [k, blocks]}))
            n += 1
    for blocks in (512, 1024):
        big = {**ids, "k": "A", "off": 0, "data": [[0x44, 128 * 1100]], "del": 0}
        out.append(make_case(n, {"dirs": [], "files": []}, [[T, big, {**ids, "k": "A", "off": 1, "data": [[0x55, 128]], "del": blocks}]],
                             desc={"add-data delete count": blocks}))
        n += 1
    for after in ({**ids, "k": "A", "off": 0, "data": [[9, 128]], "del": 0}, {**ids, "k": "E", "off": 0, "n": 2},
                  {**ids, "k": "H", "fk": "D", "hk": "V", "data": [[7, 1024]]},
                  {"k": "FA", "path": list(b"sqpack/ex1/new.bin"), "off": 0, "data": [[8, 40]], "blocks": [[False, 40]]}):
        out.append(make_case(n, {"dirs": [], "files": []}, [[T, fill, {"k": "FR", "ex": 1}, after]],
                             desc={"written again after RemoveAll": after["k"]}))
        n += 1
    return out


def block_sweep(n0, tier):
    """one-block (and two-block) AddFile chunks for every payload length 1..300 in every block flavour:
    every residue of the compressed length modulo the 128-byte alignment is hit (stored deflate = length + 5)"""
    out = []
    n = n0
    lens = list(range(1, 301)) + [15999, 16000, 31994, 31995]
    for mode in (False, "stored", "fixed", "dynamic"):
        for ln in (lens if tier == "thorough" or mode in (False, "stored") else lens[::3]):
            data = [[(ln * 7 + 3) % 255 + 1, ln]] if mode != "dynamic" else [[1 + (ln % 200), (ln + 1) // 2], [2 + (ln % 200), ln // 2]]
            data = [r for r in data if r[1] > 0]
            chunks = [{"k": "FA", "path": list(b"blk/one.bin"), "off": 0, "data": data, "blocks": [[mode, ln]]},
                      {"k": "FA", "path": list(b"blk/two.bin"), "off": 0, "data": data + [[9, 40]], "blocks": [[mode, ln], [False, 40]]}]
            out.append(make_case(n, {"dirs": [], "files": []}, [chunks], desc={"block-sweep": [str(mode), ln]}))
            n += 1
    return out


def check(run):
    rng = random.Random(run.seed)
    # the patch machine on every chunk sequence of <= 4 chunks (thorough: <= 5, 4 min); conformance replays the sequences of <= 3
    run.model_check("mc/MC_ZiPatch.tla", "mc/MC_ZiPatch_4.cfg", workers=12, coverage=False)
    if run.tier == "thorough":
        run.model_check("mc/MC_ZiPatch.tla", "mc/MC_ZiPatch_5.cfg", workers=12, coverage=False, timeout=3000)
    else:
        run.model_check("mc/MC_ZiPatch.tla", "mc/MC_ZiPatch.cfg", workers=12)        # with per-action coverage
    seqs, st = tlc_generate("mc/MC_ZiPatch.tla", "mc/Gen_ZiPatch_thorough.cfg", workers=12)
    run.notes["generator"] = {"sequences": len(seqs), **st}
    if run.tier == "quick":
        # all sequences of <= 2 chunks, and a seeded quarter of the length-3 ones
        seqs = [s for s in seqs if sum(len(p) for p in s["patches"]) + len(s["patches"]) - 1 <= 2 or rng.random() < 0.25]
    cases = []
    for n, s in enumerate(seqs):
        tree0 = {"dirs": s["dirs"], "files": [{"p": f["p"], "c": cells(f["c"])} for f in s["files"]]}
        patches = [[concretise_chunk(c) for c in p] for p in s["patches"]]
        cases.append(make_case(n, tree0, patches, nontrivial=sum(len(p) for p in patches) > 0))
    base = len(cases)
    cases += name_cases(base)
    base = len(cases)
    cases += block_sweep(base, run.tier)
    base = len(cases)
    cases += command_cases(base)
    base = len(cases)
    for i in range(120 if run.tier == "quick" else 1200):
        cases.append(random_case(rng, base + i, run.tier))
    run.rule = ("every chunk sequence of length <= 3 (incl. patch boundaries) over a 30-op alphabet x 3 initial trees enumerated by "
                "TLC from the bounded model (quick: all of length <= 2 and a seeded quarter of length 3), concretised by "
                "gen/zipatch.py; every (file kind, header kind) header update, empty-block commands of 511 / 512 / 513 / 1024 blocks, folders written again after RemoveAll; file-name sweep over categories x expansions x chunks x dat ids x 3 platforms; seeded random "
                "patches (5..200 chunks, chains of 1..5 patches, byte-granular offsets, multi-block raw/deflated files) via "
                "ZiPatch::apply, GameData::apply_patch and BootData::apply_patch; distinct by chunk sequence and tree, "
                "non-trivial when at least one chunk precedes EOF")
    run.exhaustive = run.tier == "thorough"
    run.conform(cases, MODULE, CFG, shards=14, xmx="4g")
    run.assumptions = ["well-formed streams: data commands after a target-info chunk, D only on existing folders, "
                       "F/MakeDirTree paths end with a slash, ADIR/DELD effects on directories left unconstrained",
                       "wire format as recalled from XIVLauncher's reader; accepted by the library on the happy path"]


def replay(run, rp):
    run.conform([Case(rp["script"])], MODULE, CFG, shards=1)
