"""C18 - damaged game data is rejected without crashing."""
import random
import struct
from lib.harness import Case, REPO
from gen import faults, mdl, mdlcases, excel, sqpack
from gen.archive import Installation, small_std, desc_bytes

MODULE, CFG = "trace/FaultTrace.tla", "trace/FaultTrace.cfg"
LEVEL = "fault_enumeration"
BLOB_ENTRIES = [("mtrl", b"\x00\x00\x03\x01"), ("shpk", b"ShPk"), ("sklb", b"blks"), ("pbd", b"\x02\x00\x00\x00"), ("cmp", b"\0\0\0\0"),
                ("tera", b"\x01\x00\x00\x00"), ("stm", b"SM\x00\x00"), ("dic", b"\x00\x00\x00\x00"), ("lgb", b"LGB1"), ("avfx", b"XFVA"),
                ("uld", b"uldh"), ("sgb", b"SGB1"), ("scd", b"SEDBSSCF"), ("hwc", b"\0"), ("iwc", b"\0"), ("tmb", b"TMLB"), ("skp", b"plks"),
                ("schd", b"SCHD"), ("phyb", b"\x00\x00\x00\x00"), ("pap", b"pap "), ("sqdb", b"SqPack\0\0"), ("mdl", b"\x05\x00\x00\x01"),
                ("tex", b"\0\0\0\0"), ("exh", b"EXHF"), ("exd", b"EXDF")]


def tex_file(fmt, w, h, rng):
    bs = {0x1450: 4 * w * h, 0x1440: 2 * w * h, 0x3420: 8 * ((w + 3) // 4) * ((h + 3) // 4)}.get(fmt, 16 * ((w + 3) // 4) * ((h + 3) // 4))
    return struct.pack("<IIHHHH", 0, fmt, w, h, 1, 1) + struct.pack("<3I", 80, 0, 0) + struct.pack("<13I", *([80] + [0] * 12)) + bytes(rng.randrange(256) for _ in range(bs))


def check(run):
    # Fault enumeration is deterministic: bases, the quick tier's sample of the fault space and the extra random damage are
    # drawn from a fixed stream, not from VERIF_SEED - known findings name (base, field offset) pairs, and what a damaged
    # field does depends on the bytes around it.  The tiers differ in how much of the space they run, not in which bases.
    rng = random.Random(1818)
    # the block reader's inflate lifecycle (no live stream on return, also on failure) is model-checked in MC_SqPackData
    run.model_check("mc/MC_SqPackData.tla", "mc/MC_SqPackData.cfg", workers=12)
    bases = []
    # model: small generated model with two meshes, shapes, bone tables
    m1 = mdlcases.mesh(rng, [(0, 14, 0), (3, 14, 0), (4, 14, 1), (7, 8, 1)], 0, 3, [0, 1, 2, 2, 1, 0], 2, 0)
    m2 = mdlcases.mesh(rng, [(0, 2, 0), (1, 8, 0), (2, 5, 0)], 0, 2, [0, 1, 1], 1, 6)
    m = mdlcases.model(rng, 5, [[m1, m2]], bones=["j_kosi"], bone_tables=[[0]],
                       shapes=[{"name": "shp_a", "meshes": {0: [(0, [(1, 2)])]}}])
    mb = mdl.build(m)
    decl_end = 68 + 136 * 2
    bases.append(faults.base("mdl:gen", "mdl", mb, faults.words(len(mb), 68) + [(12, 2), (14, 2), (64, 1)] + [(68 + 8 * i, 1) for i in range(6)]
                             + [(68 + 8 * i + 2, 1) for i in range(6)] + [(68 + 8 * i + 3, 1) for i in range(6)]
                             + [(decl_end, 2), (decl_end + 4, 4)] + [(o, 2) for o in range(decl_end + 8 + 40, decl_end + 8 + 40 + 80, 2)]
                             + faults.words(len(mb) - (decl_end + 130), 400)))
    bases[-1]["fields"] += [(decl_end + 130 + o, 2) for o in range(0, 420, 2) if decl_end + 132 + o < len(mb)]
    for name, fmt in (("bgra", 0x1450), ("b4g4r4a4", 0x1440), ("bc1", 0x3420), ("bc3", 0x3431), ("bc5", 0x6230)):
        t = tex_file(fmt, 9, 6, rng)
        bases.append(faults.base("tex:" + name, "tex", t, [(0, 4), (4, 4), (8, 2), (10, 2), (12, 2), (14, 2), (16, 4), (28, 4)]))
    # tall textures: one damaged dimension is then enough to make the decoded size exceed any budget
    for name, fmt in (("bgra-tall", 0x1450), ("b4g4r4a4-tall", 0x1440), ("bc3-tall", 0x3431)):
        t = tex_file(fmt, 4, 2048, rng)
        bases.append(faults.base("tex:" + name, "tex", t, [(8, 2), (10, 2), (12, 2), (14, 2)]))
    cols = [(0, 0), (7, 4), (25, 8), (26, 8), (9, 12), (11, 16)]
    rows = [(5, [[{"t": "str", "b": [72, 105]}, {"t": "u32", "b": [0, 0, 0, 7]}, {"t": "bool", "b": [1]}, {"t": "bool", "b": [0]},
                  {"t": "f32", "b": [63, 128, 0, 0]}, {"t": "u64", "b": [0] * 7 + [9]}]]), (6, [[{"t": "str", "b": []}, {"t": "u32", "b": [0, 0, 0, 1]},
                                                                                                    {"t": "bool", "b": [0]}, {"t": "bool", "b": [1]}, {"t": "f32", "b": [0, 0, 0, 0]}, {"t": "u64", "b": [255] * 8}]])]
    exhb = excel.exh(24, 1, cols, [(5, 2)], [2], 2)
    exdb = excel.exd(24, 1, cols, rows)
    bases.append(faults.base("exh:gen", "exh", exhb, [(4, 2), (6, 2), (8, 2), (10, 2), (12, 2), (17, 1), (20, 4)] + [(32 + 2 * i, 2) for i in range(12)] + [(56, 4), (60, 4), (64, 1)]))
    bases.append(faults.base("exd:gen", "exd", exdb, [(4, 2), (8, 4), (12, 4), (32, 4), (36, 4), (40, 4), (44, 4), (48, 4), (52, 2), (54, 4), (58, 4)],
                             _exh=exhb.hex(), ids=[5, 6, 7, 0, 0xFFFFFFFF]))
    sub_exh = excel.exh(8, 2, [(7, 0), (5, 4)], [(1, 1)], [0], 1)
    sub_exd = excel.exd(8, 2, [(7, 0), (5, 4)], [(1, [[{"t": "u32", "b": [0, 0, 0, 7]}, {"t": "u16", "b": [0, 9]}]] * 3)])
    bases.append(faults.base("exd:subrows", "exd", sub_exd, [(8, 4), (32, 4), (36, 4), (40, 4), (44, 2), (46, 2)], _exh=sub_exh.hex(), ids=[1, 2]))
    # archive: index, dat entries of each kind, and a whole installation
    idx = sqpack.index_file(1, [{"path": "exd/root.exl", "dat": 0, "off": 2048}, {"path": "exd/a.exh", "dat": 1, "off": 4096}])
    bases.append(faults.base("index:two", "index.open", idx, [(8, 1), (12, 4), (16, 4), (20, 4), (1024, 4), (1028, 4), (1032, 4), (1036, 4), (1104, 4), (1108, 4), (1112, 4),
                                                             (1180, 4), (1184, 4), (1252, 4), (1256, 4), (1320, 4), (1324, 4), (2048, 4), (2052, 4), (2056, 4)]
                             + [(o, 4) for o in range(2048 + 32, len(idx) - 3, 4)], path_fault="none"))
    from checks.c02 import std, tex, mdl as mdl_entry
    for name, d in (("std", std(rng, [100, 200], ["raw", "dynamic"])), ("tex", tex(rng, 80, [[300, 100], [64]], ["stored", "raw", "fixed"])),
                    ("mdl", mdl_entry(rng, [1, 1, 1, 1, 0, 0, 1, 1], [200] * 6, ["raw", "dynamic", "stored", "fixed", "raw", "dynamic"], 3))):
        eb = desc_bytes(d)
        dat = sqpack.dat_file([(2048, eb)])
        hdr = struct.unpack("<I", eb[:4])[0]
        fields = [(2048 + o, 4) for o in range(0, min(hdr, 208), 4)] + [(2048 + o, 2) for o in range(184, min(hdr, 240), 2)] \
            + [(pos + o, 4) for pos in range(2048 + hdr, len(dat), 128) for o in (0, 8, 12)] \
            + [(pos + o, 1) for pos in range(2048 + hdr, len(dat), 128) for o in (16, 17, 18, 20, 24)]
        bases.append(faults.base("dat:" + name, "dat.read", dat, fields, off=2048, path_fault="none"))
    # materials, shader packages and the auxiliary assets: valid bases from the C14 / C16 generators
    from checks import c14, c16
    from gen import mtrlshpk, assets16
    rng_run, rng = rng, random.Random(1800)      # these bases are the same in every run: known findings name their field offsets
    for kind in ("legacy", "dawntrail", None):
        mb_ = mtrlshpk.mtrl(c14.material(rng, kind))
        bases.append(faults.base("mtrl:%s" % (kind or "plain"), "mtrl", mb_, faults.words(len(mb_), 200) + [(4, 2), (6, 2), (8, 2), (10, 2), (12, 1), (13, 1), (14, 1), (15, 1)]
                                 + faults.words(len(mb_) - 4, len(mb_), 4)[-40:]
                                 + [(o, 2) for o in range(max(0, len(mb_) - 200), len(mb_) - 1, 2)]))
    # a small material whose first constant fills the four-float value array and is followed by more values
    mc_ = mtrlshpk.mtrl({"shpk": "x.shpk", "textures": ["t/a.tex"], "uv_sets": 0, "color_sets": 0, "table": None, "flags": 0,
                         "keys": [(1, 2)], "constants": [(0x11, [1, 2, 3, 4]), (0x22, [5, 6]), (0x33, [7])], "samplers": [(0, 0, 0)]})
    bases.append(faults.base("mtrl:consts", "mtrl", mc_, [(o, 2) for o in range(0, len(mc_) - 1, 2)]))
    pk, _probe = c14.package(rng)
    while not pk["aliases"]:
        pk, _probe = c14.package(rng)
    pb_ = mtrlshpk.shpk(pk)
    bases.append(faults.base("shpk:gen", "shpk", pb_, faults.words(len(pb_), 160) + [(o, 4) for o in range(160, len(pb_) - 4, 12)][:200]
                             + faults.words(len(pb_), len(pb_))[-40:], selectors=_probe))
    sk = [("n_root", -1, [rng.getrandbits(32) for _ in range(12)]), ("j_kosi", 0, [rng.getrandbits(32) for _ in range(12)]), ("j_kosi", 1, [0] * 12)]
    for ver in (1, 2):
        tag = assets16.skeleton_tagfile([sk], rng, rich=ver == 2)
        sb_ = assets16.sklb(ver, tag)
        h = 28 if ver == 1 else 36
        bases.append(faults.base("sklb:v%d" % ver, "sklb", sb_, [(0, 4), (4, 4), (8, 2), (10, 2), (8, 4), (12, 4), (h, 4), (h + 4, 4)]
                                 + [(o, 1) for o in range(h + 8, len(sb_) - 150)]))
    # 101 -> {201, 301}; 201 -> {401, 501}; 401 -> {601, 701}: walks of depth 3 from nodes that have a sibling
    items = [{"body_id": 101, "parent": -1, "bones": [("j_kosi", [1] * 12)]}, {"body_id": 201, "parent": 0, "bones": [("n_hara", [2] * 12), ("j_kao", [3] * 12)]},
             {"body_id": 301, "parent": 0, "bones": []}, {"body_id": 401, "parent": 1, "bones": [("x", [4] * 12)]},
             {"body_id": 501, "parent": 1, "bones": []}, {"body_id": 601, "parent": 3, "bones": [("y", [5] * 12)]}, {"body_id": 701, "parent": 3, "bones": []}]
    ni = len(items)
    pd_ = assets16.pbd(items, perm=[2, 0, 3, 1, 6, 4, 5])
    lk = 4 + 12 * ni
    bases.append(faults.base("pbd:gen", "pbd", pd_, [(0, 4)] + [(4 + 12 * i + o, w) for i in range(ni) for (o, w) in ((0, 2), (2, 2), (4, 4))]
                             + [(lk + 8 * i + o, 2) for i in range(ni) for o in (0, 2, 4, 6)] + faults.words(len(pd_), len(pd_))[(lk + 8 * ni) // 4:]))
    pbd_base = bases[-1]
    tb_ = assets16.tera(128, [(0, 0), (-1, 5), (300, -300)])
    bases.append(faults.base("tera:gen", "tera", tb_, [(0, 4), (4, 4), (8, 4), (12, 4), (16, 4), (52, 2), (54, 2), (60, 2)]))
    # staining template: unknown word, count, keys, offsets (in 2-byte units behind the tables), entries of five ends + values
    st_ = struct.pack("<IiHHHH", 0x534D, 2, 1, 2, 0, 16) + struct.pack("<5H", 3, 6, 9, 10, 11) + bytes(range(1, 23)) \
        + struct.pack("<5H", 1, 2, 3, 4, 5) + bytes(range(40, 50))
    bases.append(faults.base("stm:gen", "stm", st_, [(0, 4), (4, 4)] + [(o, 2) for o in range(8, 26, 2)] + [(o, 2) for o in range(48, 58, 2)]))
    # effect file: header (tag, payload size), then tagged blocks (tag, size, payload padded to the size)
    blocks_ = b"".join(t + struct.pack("<I", len(pl)) + pl for t, pl in ((b"reV\0", struct.pack("<I", 0x20110913)), (b"PFDb", b"\1\0\0\0"),
                                                                        (b"xPBC", struct.pack("<f", 1.5)), (b"sMBZ", struct.pack("<f", 2.0))))
    av_ = b"XFVA" + struct.pack("<I", len(blocks_)) + blocks_
    bases.append(faults.base("avfx:gen", "avfx", av_, faults.words(len(av_), len(av_))))
    avfx_base = bases[-1]
    # word dictionary: a valid trie (branches, tails, two start slots) from gen/dictionary.py; every table word, entry field and
    # block offset / length is a fault position (pointer cycles, ids and offsets one past their tables)
    from gen import dictionary
    dtree = ("branch", [(0x61, ("branch", [(0x62, ("leaf",)), (0x63, ("tail", [0x64, 0x65]))], False)), (0x66, ("leaf",)),
                        (0x67, ("branch", [(0x68, ("leaf",)), (0x69, ("leaf",))], True))], False)
    dc_, _words = dictionary.build({0x141: dtree, 0x07: ("tail", [0x6A])}, {3: 1}, 2, random.Random(1801), [4, 1, 0, 3, 2])
    dfields = [(dictionary.HDR + 4 * i, 4) for i in range(10)] + [(dictionary.HDR + 44 + 12, 4)] \
        + [(o, 2) for o in range(dictionary.BASE + 0x200, len(dc_) - 1, 2) if dc_[o:o + 2] != b"\0\0" or o % 64 == 0] \
        + [(o, 4) for o in range(dictionary.BASE + 0x200, len(dc_) - 3, 4) if dc_[o:o + 4] != b"\0\0\0\0"][:60]
    bases.append(faults.base("dic:gen", "dic", dc_, dfields))
    # layer group with two layers and instance objects (nested offset tables): every word of the file is a fault position
    from gen import layergroup
    lrng = random.Random(1802)
    lgrp = layergroup.random_group(lrng)
    while len(lgrp["layers"]) < 2 or sum(len(l["objects"]) for l in lgrp["layers"]) < 3:
        lgrp = layergroup.random_group(lrng)
    ll_ = layergroup.build(lgrp, lrng)
    bases.append(faults.base("lgb:layers", "lgb", ll_, faults.words(len(ll_), len(ll_))))
    lg_ = open(REPO + "/resources/tests/empty_planlive.lgb", "rb").read()
    bases.append(faults.base("lgb:empty", "lgb", lg_, faults.words(len(lg_), 36)))
    rng = rng_run
    space, st = faults.enumerate_faults(bases, "c18")
    run.notes["fault_space"] = {"bases": len(bases), "faults": sum(len(v) for v in space.values()), **st}
    run.mc.append({"module": "mc/Gen_Faults.tla", "cfg": "mc/Gen_Faults.cfg", "states": st["states"], "transitions": st["transitions"],
                   "wall_s": 0, "actions": {}, "never_taken": []})
    cases, n = faults.cases_for(bases, space, rng, 0, per_base=None if run.tier == "thorough" else 900,
                                leakcheck=lambda b: b["entry"] == "dat.read")
    bc, n = faults.blob_cases(BLOB_ENTRIES, rng, n)
    for c in bc:            # a damaged data file is read with a valid header
        for ln in c.lines:
            if ln["entry"] == "exd":
                ln["_exh"], ln["ids"] = exhb.hex(), [0, 1, 5, 0xFFFFFFFF]
    cases += bc
    # installation-level fault sequences: missing / truncated dat, truncated index, stray and short-named directories
    extra = []
    def inst_line(what, mutate):
        inst = Installation([0, 1], 0)
        off = inst.place(0, 10, 0, 0, small_std(7))
        inst.add_entry(0, 10, 0, 1, list(b"exd/root.exl"), 0, off)
        off2 = inst.place(1, 2, 0, 0, {"kind": "std", "blocks": [[[9, 500]]], "_modes": ["dynamic"]})
        inst.add_entry(1, 2, 0, 2, list(b"bg/ex1/z/a.lgb"), 0, off2)
        fs = mutate(inst.fs())
        return faults.line(n, {"id": "install", "entry": "gamedata.open", "extra": {}}, {"k": "sequence", "what": what}, b"",
                           _fs=fs, paths=[list(b"exd/root.exl"), list(b"bg/ex1/z/a.lgb"), list(b"exd/none.exh"), list(b"what/x"), list(b"noslash")])
    def drop(pred):
        return lambda fs: [f for f in fs if not pred(f)]
    def cut(pred, n):
        return lambda fs: [dict(f, hex=f["hex"][:2 * n]) if pred(f) and "hex" in f else f for f in fs]
    isdat = lambda f: ".dat" in f["p"]
    isidx = lambda f: f["p"].endswith(".index") or f["p"].endswith(".index2")
    extra.append(inst_line("intact", lambda fs: fs))
    extra.append(inst_line("dat-missing", drop(isdat)))
    extra.append(inst_line("index-missing", drop(isidx)))
    for k in (0, 1, 1023, 1024, 2047, 2048, 2052, 2060, 2100, 2176):
        extra.append(inst_line("dat-truncated-%d" % k, cut(isdat, k)))
        extra.append(inst_line("index-truncated-%d" % k, cut(isidx, k)))
    for stray in ("e", "ex", "exx", "ffxiv2", "ex1.bak", "éx1", "exé", "eé", "ex\u00e9\u00e9", "e\u20ac"):
        extra.append(inst_line("stray-dir-" + stray, lambda fs, s=stray: fs + [{"p": "sqpack/" + s}]))
    for raw in (b"sqpack/ex\xff", b"sqpack/\xff\xfe", b"sqpack/ex1\x80"):      # names that are not UTF-8
        extra.append(inst_line("stray-dir-bytes-" + raw.hex(), lambda fs, r=raw: fs + [{"p_hex": r.hex()}]))
    extra.append(inst_line("sqpack-missing", lambda fs: []))
    # garbled deflate streams inside a texture entry (the one entry kind whose reader reports a failed block as None):
    # every one of the first 8 payload bytes inverted, for each deflate flavour -> inflate fails; nothing may stay allocated
    for mode in ("stored", "fixed", "dynamic"):
        d = tex(rng, 80, [[300]], [mode])
        eb = desc_bytes(d)
        hdr = struct.unpack("<I", eb[:4])[0]
        dat = sqpack.dat_file([(2048, eb)])
        blk = 2048 + hdr + 80
        for k in range(8):
            g = bytearray(dat)
            g[blk + 16 + k] ^= 0xFF
            extra.append(faults.line(n, {"id": "dat:garbled-" + mode, "entry": "dat.read", "extra": {}}, {"k": "garble", "what": k}, bytes(g),
                                     leakcheck=True, off=2048, path_fault="none"))
    # effect blocks of every other known kind in place of a scalar block (named faults: a tag turned into another tag)
    for tag in (b"dhcS", b"nLmT", b"timE", b"lctP", b"tcfE", b"dniB", b"xeT\0", b"ldoM", b"nCfE", b"nCdB", b"nCxT", b"nCdM", b"nChS", b"nCmT", b"nCmE", b"nCtP"):
        g = bytearray(av_)
        g[20:24] = tag
        extra.append(faults.line(n, avfx_base, {"k": "tag", "what": list(tag)}, bytes(g)))
    # link cycles of the deformer (named members of the fault space): every parent field set to every link index
    for i in range(ni):
        for j in range(ni):
            g = bytearray(pd_)
            g[lk + 8 * i:lk + 8 * i + 2] = struct.pack("<h", j)
            extra.append(faults.line(n, pbd_base, {"k": "link", "what": [i, j]}, bytes(g)))
    cases.append(Case(extra, desc={"installation fault sequences and deformer link cycles": len(extra)}))
    run.rule = ("every (base, fault) pair of the fault space enumerated by TLC from Faults.tla over generated valid bases (model, four texture "
                "formats, EXH, EXD incl. read_row on every id, index, dat entries of each kind, three materials, shader package, skeleton "
                "containers v1 / v2 byte by byte through the tag file, deformer with queries, terrain, layer group; quick: a seeded 300 per base), arbitrary "
                "blobs (zero / ones / random / magic-prefixed, 12 sizes) for every asset entry point incl. the header-only formats, and "
                "installation fault sequences (missing / truncated index and dat at structure boundaries, stray directories); isolated "
                "worker, counting allocator; residual heap must be 0 after a failed dat read; distinct by input, all non-trivial")
    run.conform(cases, MODULE, CFG, shards=14, mode="supervise", xmx="3g")
    run.assumptions = ["dictionary / staining template / effect / UI / scene / sound / timeline formats are exercised with arbitrary and "
                       "magic-prefixed blobs only (no generator for valid files of these header-only decoders)",
                       "memory bound 256 MiB + 1100 bytes per input byte; undefined behaviour that does not crash is outside this technique"]


def replay(run, rp):
    run.conform([Case(rp["script"])], MODULE, CFG, shards=1, mode="supervise")
