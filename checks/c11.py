"""C11 - the SqexArg cipher is standard Blowfish and decryption inverts encryption."""
import random
from lib.harness import Case

MODULE, CFG = "trace/BlowfishTrace.tla", "trace/BlowfishTrace.cfg"
VECTOR_KEYS = ["0000000000000000", "FFFFFFFFFFFFFFFF", "3000000000000000", "1111111111111111",
               "0123456789ABCDEF", "FEDCBA9876543210"]


def messages(rng, tier):
    msgs = [[rng.randrange(256) for _ in range(n)] for n in range(0, 41)]
    msgs += [[0] * 8, [255] * 8, [0, 0, 0, 16, 1, 0, 0, 0]]
    return msgs


def check(run):
    rng = random.Random(run.seed)
    run.model_check("mc/MC_Blowfish.tla", "mc/MC_Blowfish.cfg", workers=7)
    cases = [Case([{"op": "codec.blowfish.tables", "case": 0}], desc="constant tables vs digits of pi (hook H1)", key="tables")]
    keys = [list(bytes.fromhex(k)) for k in VECTOR_KEYS]
    keys += [[b] * 8 for b in (1, 127, 128)]
    # longer keys whose tail differs: only the first 8 bytes are significant
    base = [rng.randrange(256) for _ in range(8)]
    keys += [base, base + [rng.randrange(256) for _ in range(8)], base + [rng.randrange(256) for _ in range(48)],
             list(b"test_case")]
    nrand = 24 if run.tier == "quick" else 200
    keys += [[rng.randrange(256) for _ in range(rng.choice([8, 8, 9, 16, 32, 56]))] for _ in range(nrand)]
    n = 1
    for k in keys:
        msgs = messages(rng, run.tier)
        if n % 8 == 1:
            msgs = msgs + [[rng.randrange(256) for _ in range(ln)] for ln in ((1024,) if run.tier == "quick" else (1024, 2048, 4096))]
        cases.append(Case([{"op": "codec.blowfish", "case": n, "key": k, "msgs": msgs}],
                          desc={"key": k, "message lengths": sorted({len(m) for m in msgs})[:6] + ["..."]}))
        n += 1
    run.rule = ("the published-vector keys, all-equal keys, keys of 8..56 bytes with differing tails, seeded random keys (quick 24, thorough "
                "200); per key every message length 0..40 and 1-4 KiB messages: ciphertext, decryption of the ciphertext; all 1042 constant "
                "table words through the guarded accessor; a case is one key with its messages, all non-trivial")
    run.conform(cases, MODULE, CFG, shards=14, xmx="3g")
    run.assumptions = ["BlowfishPi.tla is generated from the hexadecimal digits of pi by gen/pi_hex.py (big-integer Machin formula) and, "
                       "together with Blowfish.tla, reproduces the seven classic ECB vectors in TLC"]


def replay(run, rp):
    run.conform([Case(rp["script"])], MODULE, CFG, shards=1)
