"""CHATLOG - beyond the listed properties: the chat log's entries (spec/ChatLog.tla).
Not registered in MANIFEST.json; `./check CHATLOG [--tier thorough]`.  TLC checks the specification's reader against its own writer
on every small log; generated logs are parsed by the real ChatLog::from_existing and TLC reads the same bytes."""
import random
import struct
from lib.harness import Case

MODULE, CFG = "trace/ChatLogTrace.tla", "trace/ChatLogTrace.cfg"
# the library's names for filter / channel bytes (src/log.rs; a discriminant above 255 is taken modulo 256 by the u8 representation)
FILTERS = {3: "SystemMessages", 20: "Unknown", 64: "ProgressionMessage", 41: "NPCBattle", 57: "Unknown2", 29: "Unknown7", 59: "Unknown3",
           170: "EnemyBattle", 581 % 256: "Unknown4", 43: "Unknown8", 60: "Unknown9", 61: "Unknown10", 62: "Unknown11", 58: "Unknown12",
           169: "Unknown13", 175: "Unknown14", 42: "Unknown15", 171: "Unknown16", 177: "Unknown17", 174: "Unknown18", 47: "Unknown19",
           176: "Unknown20", 44: "Unknown21", 173: "Unknown22", 46: "Unknown23", 10: "Unknown24", 185: "Unknown25", 190: "Unknown26",
           11: "Unknown27", 70: "Unknown28", 105: "Unknown29"}
CHANNELS = {0: "System", 2: "Unknown8", 3: "ServerAnnouncement", 8: "Unknown9", 50: "Unknown1", 29: "Unknown7", 32: "Others", 41: "Unknown5",
            51: "NPCEnemy", 59: "NPCFriendly", 64: "Unknown4", 170: "Unknown6", 10: "Unknown10", 66: "Unknown11", 44: "Unknown12",
            40: "Unknown13", 42: "Unknown14", 11: "Unknown15", 67: "Unknown16", 68: "Unknown17", 34: "Unknown18", 110: "Unknown19"}


def log_bytes(entries, rng, gaps=True):
    bodies = [struct.pack("<IBBI", t, f, c, rng.getrandbits(32)) + m for (t, f, c, m) in entries]
    offs, pos = [], 0
    for b in bodies:
        offs.append(pos)
        pos += len(b)
    n = len(entries)
    return struct.pack("<II", 0, n) + struct.pack("<%dI" % n, *offs) + b"".join(bodies)


def check(run):
    rng = random.Random(run.seed)
    run.model_check("mc/MC_ChatLog.tla", "mc/MC_ChatLog.cfg", workers=4, coverage=False)
    cases = []
    texts = ["", "a", "hello world", "é", "日本語のメッセージ", "tab\tand\nnewline", "\x02\x13\x06\xfe\xff\xf3\xf3\xf3\x03colour", "x" * 300]
    fk, ck = sorted(FILTERS), sorted(CHANNELS)
    for n in range(200 if run.tier == "quick" else 3000):
        ne = rng.choice([0, 1, 1, 2, 3, 5, 12])
        entries = []
        for i in range(ne):
            f = rng.choice(fk) if rng.random() < 0.97 else rng.choice([x for x in range(256) if x not in FILTERS])
            c = rng.choice(ck) if rng.random() < 0.97 else rng.choice([x for x in range(256) if x not in CHANNELS])
            m = rng.choice(texts) if rng.random() < 0.7 else "".join(rng.choice("abc XYZ,.!?") for _ in range(rng.randint(0, 40)))
            entries.append((rng.getrandbits(32), f, c, m.encode("utf-8", "surrogateescape") if isinstance(m, str) else m))
        # every filter / channel value the library names appears in the first cases
        if n < len(fk):
            entries.append((n, fk[n], ck[n % len(ck)], b"named"))
        b = log_bytes(entries, rng)
        cases.append(Case([{"op": "assets.log", "case": n, "_hex": b.hex(), "bytes": list(b), "abs": len(entries),
                            "filters": [FILTERS.get(x, "") for x in range(256)], "channels": [CHANNELS.get(x, "") for x in range(256)]}],
                          desc={"chat log": {"entries": len(entries), "bytes": len(b)}}, nontrivial=len(entries) > 0))
    run.rule = ("random logs of 0..12 entries over every filter / channel value the library names (each at least once) and a few it does "
                "not (the file is then refused), messages of 0..300 bytes incl. multi-byte UTF-8 and control bytes; distinct by file bytes")
    run.exhaustive = False
    run.conform(cases, MODULE, CFG, shards=8, xmx="4g")
    run.assumptions = ["layout as implemented (documented by the library only): regression level", "messages are valid UTF-8 (the library decodes lossily)"]


def replay(run, rp):
    run.conform([Case(rp["script"])], MODULE, CFG, shards=1)
