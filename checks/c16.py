"""C16 - auxiliary asset decoders return the stored records (skeleton, deformer, scaling, terrain, layer group)."""
import random
from lib.harness import Case
from gen import assets16 as a

MODULE, CFG = "trace/Assets16Trace.tla", "trace/Assets16Trace.cfg"
W = lambda x: [x >> 16, x & 0xFFFF]
BONE_NAMES = ["n_root", "n_hara", "j_kosi", "j_sebo_a", "j_sebo_b", "j_kubi", "j_kao", "j_asi_a_l", "j_asi_a_r", "n_throw", "j_te_l", "j_te_r", "x", ""]


def rbits(rng):
    return rng.choice([0, 0x3F800000, 0xBF800000, 0x7FC00000, 0x80000000, 1]) if rng.random() < 0.2 else rng.getrandbits(32)


def skeleton_case(rng, n, maxbones):
    def bones():
        nb = rng.randint(1, maxbones)
        out = []
        for i in range(nb):
            name = rng.choice(BONE_NAMES) if rng.random() < 0.4 else "j_%d_%s" % (i, "x" * rng.randint(0, 6))
            parent = rng.randint(-1, i - 1) if rng.random() < 0.9 else rng.randint(-1, nb - 1)
            out.append((name, parent, [rbits(rng) for _ in range(12)]))
        return out
    sks = [bones() for _ in range(1 if rng.random() < 0.8 else 2)]
    rich = rng.random() < 0.6
    pad = rng.choice([0.0, 0.0, 0.15, 0.5])
    version = rng.randint(1, 3)
    gap = bytes(rng.randrange(256) for _ in range(rng.choice([0, 0, 4, 17, 200])))
    b = a.sklb(version, a.skeleton_tagfile(sks, rng, rich=rich, pad_ints=pad), gap=gap)
    model = [{"name": list(nm.encode()), "parent": p, "pose": [W(x) for x in pose]} for (nm, p, pose) in sks[0]]
    return Case([{"op": "assets.sklb", "case": n, "bytes": list(b), "model": model}],
                desc={"skeleton": {"container": version, "bones": len(sks[0]), "skeletons": len(sks), "rich types": rich, "padded ints": pad > 0, "gap": len(gap)}})


def deformer_case(rng, n, maxitems, maxbones):
    k = rng.randint(1, maxitems)
    ids = rng.sample(range(1, 65536), k) if rng.random() < 0.5 else rng.sample([101, 201, 301, 401, 501, 601, 701, 801, 901, 1001, 1101, 1201, 1301, 1401, 1501, 1701, 1801,
                                                                                    104, 204, 504, 604, 704, 804, 1304, 1404, 9104, 9204], min(k, 27))
    k = len(ids)
    # a forest under a random labelling: parent of the i-th node of a random order is an earlier one or none
    order = list(range(k))
    rng.shuffle(order)
    parent = [-1] * k
    for pos, i in enumerate(order):
        if pos and rng.random() < 0.8:
            parent[i] = order[rng.randrange(pos)]
    items = [{"body_id": ids[i], "parent": parent[i],
              "bones": [(rng.choice(BONE_NAMES[:-1]) if rng.random() < 0.5 else "j_%d_%d" % (i, j), [rbits(rng) for _ in range(12)]) for j in range(rng.randint(0, maxbones))]}
             for i in range(k)]
    perm = list(range(k))
    if rng.random() < 0.6:
        rng.shuffle(perm)
    # in half of the files the records are not aligned: each follows the previous one's names after 0..3 bytes
    sl = [rng.randrange(4) for _ in items]
    b = a.pbd(items, perm=perm, name_order=rng.shuffle if rng.random() < 0.5 else None, slack=(lambda i: sl[i]) if rng.random() < 0.5 else None)
    pairs = [(x, y) for x in ids for y in ids]
    if len(pairs) > 40:
        pairs = rng.sample(pairs, 40)
    absent = next(x for x in range(1, 70000) if x not in ids)
    pairs += [(absent, ids[0]), (ids[0], absent)]
    depth = 0
    for i in range(k):
        d, j = 0, i
        while parent[j] != -1:
            d, j = d + 1, parent[j]
        depth = max(depth, d)
    def has_sibling(i):
        return any(parent[j] == parent[i] and j > i for j in range(k))
    decided = sum(1 for (x, y) in pairs if x != y and x in ids and has_sibling(ids.index(x)))
    return Case([{"op": "assets.pbd", "case": n, "bytes": list(b), "queries": [list(p) for p in pairs]}],
                desc={"deformer": {"items": k, "depth": depth, "permuted links": perm != sorted(perm), "roots": parent.count(-1),
                                   "decided queries": decided, "queries": len(pairs)}}, nontrivial=decided > 0)


def scaling_case(rng, n, maxrows):
    rows = [[rbits(rng) for _ in range(14)] for _ in range(rng.randint(0, maxrows))]
    tail = a.cmp_tail(rows) + bytes(rng.randrange(256) for _ in range(rng.choice([0, 0, 1, 55])))
    return Case([{"op": "assets.cmp", "case": n, "prefix": 0x2a800, "tail": list(tail)}], desc={"scaling rows": len(rows), "partial row": len(tail) % 56 != 0},
                nontrivial=bool(rows))


def terrain_case(rng, n, maxplates):
    size = 128 if rng.random() < 0.7 else rng.randint(1, 255)
    ext = [0, -1, 1, 32767, -32768, 127, -128, 255, 256]
    cells = [(rng.choice(ext) if rng.random() < 0.3 else rng.randint(-32768, 32767), rng.choice(ext) if rng.random() < 0.3 else rng.randint(-40, 40))
             for _ in range(rng.randint(0, maxplates))]
    b = a.tera(size, cells, clip_bits=rbits(rng), unknown_bits=rbits(rng))
    return Case([{"op": "assets.tera", "case": n, "bytes": list(b)}], desc={"terrain": {"plate size": size, "plates": len(cells)}}, nontrivial=bool(cells))


def layer_case(rng, n):
    name = "".join(chr(rng.randint(1, 126)) for _ in range(rng.choice([0, 1, 3, 7, 8, 9, 15, 16, 17, 40])))
    return Case([{"op": "assets.lgb", "case": n, "file_id": W(rng.getrandbits(32)), "chunk_id": W(rng.getrandbits(32)),
                  "group": W(rng.choice([0, 1, 261, 2**31 - 1, 2**31, 2**32 - 1, rng.getrandbits(32)])), "name": list(name.encode())}],
                desc={"layer group name length": len(name)})


def check(run):
    rng = random.Random(run.seed)
    q = run.tier == "quick"
    run.model_check("mc/MC_HavokTag.tla", "mc/MC_HavokTag.cfg", workers=6, coverage=False)   # coverage turns off TLC's lazy-value cache: the nested writer never finishes
    run.model_check("mc/MC_Pbd.tla", "mc/MC_Pbd.cfg", workers=6, coverage=False)
    if run.tier == "thorough":
        # every forest of <= 5 items x every link permutation x every decided query: 2.8 million states, ~8 min
        run.model_check("mc/MC_Pbd.tla", "mc/MC_Pbd_5.cfg", workers=8, coverage=False, timeout=3000)
    cases, n = [], 0
    for i in range(150 if q else 1500):
        cases.append(skeleton_case(rng, n, 6 if i % 5 else (40 if q else 120))); n += 1
    for i in range(100 if q else 1000):
        cases.append(deformer_case(rng, n, 6 if i % 4 else (14 if q else 27), 3)); n += 1
    for i in range(40 if q else 300):
        cases.append(scaling_case(rng, n, 8 if i % 4 else 60)); n += 1
    for i in range(80 if q else 600):
        cases.append(terrain_case(rng, n, 6 if i % 4 else 120)); n += 1
    for i in range(80 if q else 600):
        cases.append(layer_case(rng, n)); n += 1
    run.rule = ("skeleton containers of all three versions with 0..200 bytes between header and payload; Havok tag files with shuffled type "
                "tables, 1-3 level inheritance, unused types / objects, decoy variants, present and absent members of every readable kind, "
                "minimal and padded packed integers, string back-references, 1..2 skeletons of 1..120 bones with arbitrary parents and poses; "
                "deformer forests of 1..27 items under random labelling with permuted link tables, 0..3 bones each, shuffled name heaps, "
                "up to 40 (from, to) pairs plus absent ids; scaling tables of 0..60 rows with and without a trailing partial row; terrains "
                "with 0..120 plates, 128-unit and other plate sizes, extreme cells; layer groups without layers with any ids and ASCII names "
                "of 0..40 bytes; distinct by bytes")
    run.conform(cases, MODULE, CFG, shards=14, xmx="4g")
    run.assumptions = ["tag file, deformer, terrain and layer layouts recalled from public descriptions (Havok tag file readers, xiv.dev) and accepted by the library",
                       "queries whose start link has no sibling, or with equal ids, are left unconstrained (as the property states)",
                       "in-line vector / structure / tuple members that are present are outside the decided family (the library does not read them)",
                       "animation bindings are empty: binding objects are not part of the property"]


def replay(run, rp):
    run.conform([Case(rp["script"])], MODULE, CFG, shards=1)
