"""C06 - model parsing yields the stored geometry for every vertex layout."""
import random
import struct
from lib.harness import Case, tlc_generate, REPO
from gen import mdl, mdlcases

MODULE, CFG = "trace/MdlTrace.tla", "trace/MdlTrace.cfg"


def parse_case(n, m, desc):
    b = mdl.build(m)
    return Case([{"op": "mdl.parse", "case": n, "bytes": list(b)}], desc=desc)


def decl_case(n, d, rng):
    els = [tuple(e) for e in d["els"]]
    vcount = rng.choice([0, 1, 2, 3])
    nidx = rng.choice([0, 3, 6])
    m1 = mdlcases.mesh(rng, els, d["gap"], vcount, [rng.randrange(max(vcount, 1)) for _ in range(nidx)], rng.choice([1, 2]), 0)
    return parse_case(n, mdlcases.model(rng, rng.choice([5, 6]), [[m1]]), {"declaration": d["els"], "gap": d["gap"], "vertices": vcount})


def sweep_cases(n0, rng, tier):
    """leaf sweeps: every 16-bit half pattern through Half4 / Half2 readers, every byte through the byte readers"""
    out, n = [], n0
    step = 1 if tier == "thorough" else 8
    # Position Half4 + UV Half4 + Normal Half4: 12 halves per vertex, patterns enumerated in order
    pats = list(range(0, 65536, step))
    per = 12
    chunk = 12 * 600
    for i in range(0, len(pats), chunk):
        part = pats[i:i + chunk]
        part += [0] * ((-len(part)) % per)
        vcount = len(part) // per
        vb = struct.pack("<%dH" % len(part), *part)
        els = [(0, 14, 0), (4, 14, 0), (3, 14, 0)]
        m1 = mdlcases.mesh(rng, els, 0, vcount, [0, 0, 0], 1, 0, vdata=[vb])
        out.append(parse_case(n, mdlcases.model(rng, 5, [[m1]]), {"half sweep from": part[0], "vertices": vcount})); n += 1
    # every byte value through ByteFloat4 weights, colour, uv, bitangent, Byte4 indices (one vertex per value, all 4 lanes)
    els = [(1, 8, 0), (7, 8, 0), (4, 8, 0), (6, 8, 0), (2, 5, 0), (4, 13, 1)]
    vb0 = b"".join(bytes([v, (v + 1) % 256, (v + 2) % 256, 255 - v]) * 5 for v in range(256))
    vb1 = b"".join(struct.pack("<HH", (v * 257) % 65536, (v * 263 + 5) % 65536) for v in range(256))
    m1 = mdlcases.mesh(rng, els, 0, 256, [0, 1, 2], 1, 0, vdata=[vb0, vb1])
    out.append(parse_case(n, mdlcases.model(rng, 5, [[m1]]), {"byte sweep": 256})); n += 1
    # unsigned short weights / indices at the boundaries
    els = [(1, 17, 0), (2, 17, 0)]
    vals = [0, 1, 2, 255, 256, 257, 32767, 32768, 65534, 65535]
    vb = b"".join(struct.pack("<8H", *([v, (v * 3) % 65536, 65535 - v, v ^ 0x5555] * 2)) for v in vals)
    m1 = mdlcases.mesh(rng, els, 0, len(vals), [0, 1, 2], 1, 0, vdata=[vb])
    out.append(parse_case(n, mdlcases.model(rng, 5, [[m1]]), {"ushort sweep": len(vals)})); n += 1
    return out, n


def random_model(rng, tier):
    nl = rng.randint(1, 3)
    version = rng.choice([5, 5, 6])
    lods = []
    nmat = rng.randint(1, 3)
    for _ in range(nl):
        meshes, start = [], 0
        for _ in range(rng.randint(1, 2 if tier == "quick" else 4)):
            k = rng.randint(1, 4)
            usages = rng.sample(range(8), k)
            els = []
            for u in usages:
                t = rng.choice([p[1] for p in mdlcases.PAIRS if p[0] == u])
                els.append((u, t, rng.randrange(3)))
            smax = max(e[2] for e in els)
            # streams must be contiguous from 0: remap
            used = sorted({e[2] for e in els})
            remap = {s: i for i, s in enumerate(used)}
            els = [(u, t, remap[s]) for (u, t, s) in els]
            vcount = rng.choice([0, 1, 2, 3, 17, 200]) if tier == "thorough" else rng.choice([0, 1, 2, 3, 9])
            nidx = rng.choice([0, 3, 6, 9, 30])
            idx = [rng.randrange(max(vcount, 1)) for _ in range(nidx)]
            meshes.append(mdlcases.mesh(rng, els, rng.choice([0, 0, 4]), vcount, idx, rng.randint(1, 2), start, material=rng.randrange(nmat)))
            start += nidx
        lods.append(meshes)
    bones = ["j_kosi", "j_sebo_a", "n_hara"][:rng.randint(0, 3)]
    bts = [[rng.randrange(3) for _ in range(rng.randint(1, 64))] for _ in range(rng.randint(0, 3))]
    m = mdlcases.model(rng, version, lods, materials=["/mt_c0101e0000_top_%s.mtrl" % c for c in "abc"[:nmat]], bones=bones, bone_tables=bts)
    if rng.random() < 0.3:
        # terrain shadow tables (background models): opaque records between the attribute offsets and the sub-meshes, and
        # behind the sub-meshes
        m["terrain_shadow_meshes"] = [[rng.randrange(1, 256) for _ in range(20)] for _ in range(rng.randint(0, 2))]
        m["terrain_shadow_submeshes"] = [[rng.randrange(1, 256) for _ in range(12)] for _ in range(rng.randint(1, 3))]
    # shapes: values inside the index range of a mesh of LOD 0 (names only are compared)
    shapes = []
    for si in range(rng.randint(0, 2)):
        lst = []
        for mi, me in enumerate(lods[0]):
            if len(me["indices"]) >= 3 and me["vcount"] >= 2 and rng.random() < 0.7:
                vals = [(me["start_index"] + rng.randrange(len(me["indices"])), rng.randrange(me["vcount"])) for _ in range(rng.randint(1, 3))]
                lst.append((mi, vals))
        shapes.append({"name": "shp_%d" % si, "meshes": {0: lst}})
    m["shapes"] = shapes
    return m


def check(run):
    rng = random.Random(run.seed)
    run.model_check("mc/MC_Floats.tla", "mc/MC_Floats.cfg", workers=7)
    run.model_check("mc/MC_Mdl.tla", "mc/MC_Mdl.cfg", workers=7)
    decls, st = tlc_generate("mc/MC_Mdl.tla", "mc/Gen_Mdl.cfg", workers=7)
    run.notes["generator"] = {"declarations": len(decls), **st}
    if run.tier == "quick":
        decls = [d for d in decls if len(d["els"]) == 1 or rng.random() < 0.25]
    cases = [decl_case(n, d, rng) for n, d in enumerate(decls)]
    sw, n = sweep_cases(len(cases), rng, run.tier)
    cases += sw
    for _ in range(150 if run.tier == "quick" else 1200):
        cases.append(parse_case(n, random_model(rng, run.tier), {"random model": n})); n += 1
    # a mesh whose index range starts beyond 65535 (the start index is a u32 in the format)
    big = mdlcases.mesh(rng, [(0, 2, 0)], 0, 3, [rng.randrange(3) for _ in range(65541)], 1, 0)
    late = mdlcases.mesh(rng, [(0, 2, 0), (7, 8, 0)], 0, 4, [3, 2, 1, 0, 1, 2], 2, 65541)
    cases.append(parse_case(n, mdlcases.model(rng, 5, [[big, late]]), {"late mesh": "start index 65541"})); n += 1
    # vertex streams of 64 KiB and more (count x stride does not fit 16 bits), followed by a second mesh
    wide = mdlcases.mesh(rng, [(0, 2, 0), (7, 8, 1)], 0, 6000, [0, 1, 2, 5999, 5998, 5462], 1, 0)
    after = mdlcases.mesh(rng, [(0, 2, 0), (3, 14, 0)], 0, 3, [2, 1, 0], 1, 6)
    cases.append(parse_case(n, mdlcases.model(rng, 5, [[wide, after]]), {"wide stream": "6000 vertices x 12 bytes = 72000 (vertex offsets beyond 65535)"})); n += 1
    # a declaration that uses all 16 element slots (the end marker sits in the 17th): eight usages, each twice (the second
    # element of a usage is decoded like the first and overwrites it)
    full = [(0, 2, 0), (1, 8, 0), (2, 5, 0), (3, 14, 0), (4, 14, 0), (6, 8, 0), (7, 8, 0), (4, 13, 1),
            (0, 14, 1), (1, 8, 1), (2, 5, 1), (3, 2, 1), (7, 8, 2), (6, 8, 2), (4, 3, 2), (0, 3, 2)]
    cases.append(parse_case(n, mdlcases.model(rng, 5, [[mdlcases.mesh(rng, full, 0, 3, [0, 1, 2], 1, 0)]]), {"full declaration": 16})); n += 1
    fx = open(REPO + "/resources/tests/c0201e0038_top_zeroed.mdl", "rb").read()
    run.notes["fixture_bytes"] = len(fx)
    run.rule = ("every declaration of the bounded family enumerated by TLC (each supported (usage, type) pair alone on each stream, "
                "every pair of elements with distinct usages over 1..3 streams, with and without gaps; quick: all singles + a seeded "
                "quarter of the pairs) on models with 0..3 vertices whose vertex bytes are all distinct; leaf sweeps over all 65536 half "
                "patterns (quick: every 8th), every byte value through each byte reader, unsigned shorts at the boundaries; random models "
                "(versions 5/6, 1..3 LODs, 1..4 meshes, 1..4 elements, sub-meshes, bone tables, shapes); distinct by bytes, all non-trivial")
    run.conform(cases, MODULE, CFG, shards=14, xmx="6g")
    run.assumptions = ["(BlendWeights, Byte4) is not generated (no documented meaning; the writer marks it WRONG)",
                       "version-6 bone tables are laid out the way the library reads them (unverifiable offline): this part can show regressions, not findings",
                       "header flag bytes are values the parser's enums accept; shapes are compared by name only",
                       "the repository's sample model (287 KB) is exercised by C07's write check, not decoded by TLC here"]


def replay(run, rp):
    run.conform([Case(rp["script"])], MODULE, CFG, shards=1)
