"""C05 - Excel sheets decode to the cell values stored in them."""
import random
import struct
from lib.harness import Case, tlc_generate
from gen import excel, sqpack
from gen.archive import Installation
from gen.text import render_exl

MODULE, CFG = "trace/SqPackTrace.tla", "trace/SqPackTrace.cfg"
TYPES = [0, 1, 2, 3, 4, 5, 6, 7, 9, 10, 11] + list(range(25, 33))


def rvalue(rng, t, extreme=True):
    if t == 0:
        n = rng.choice([0, 1, 40]) if rng.random() < 0.5 else rng.randint(0, 12)
        return {"t": "str", "b": [rng.choice(range(32, 127)) for _ in range(n)]}
    if t == 1 or 25 <= t <= 32:
        return {"t": "bool", "b": [rng.randrange(2)]}
    w = excel.WIDTH[t]
    if extreme and rng.random() < 0.6:
        b = rng.choice([[0] * w, [255] * w, [127] + [255] * (w - 1), [128] + [0] * (w - 1), [0] * (w - 1) + [1]])
    else:
        b = [rng.randrange(256) for _ in range(w)]
    if t == 9 and (b[0] & 0x7F) == 0x7F and (b[1] & 0x80):
        b[1] &= 0x7F            # keep NaN out: the payload of a NaN need not survive a float round trip
        b[2] = b[3] = 0
    return {"t": excel.TAG[t], "b": b}


def read_case(n, data_offset, variant, columns, rows, extra_ids, desc):
    hb = excel.exh(data_offset, variant, columns, [(rows[0][0] if rows else 0, len(rows))], [2], len(rows))
    db = excel.exd(data_offset, variant, columns, rows)
    ids = [r[0] for r in rows] + extra_ids
    return Case([{"op": "excel.read", "case": n, "exh": list(hb), "exd": list(db), "ids": ids}], desc=desc)


def schema_case(n, s, rng):
    cols = [tuple(c) for c in s["cols"]]
    variant, nsubs = s["variant"], s["nsubs"]
    rows = []
    for rid in (5, 6):
        rows.append((rid, [[rvalue(rng, t) for t, _ in cols] for _ in range(nsubs)]))
    return read_case(n, 8, variant, cols, rows, [7], {"schema": s})


def random_schema(rng, variant):
    ncol = rng.choice([1, 2, 3, 8, 40]) if rng.random() < 0.4 else rng.randint(1, 10)
    cols, off = [], 0
    packed_at = None
    for _ in range(ncol):
        t = rng.choice(TYPES)
        if 25 <= t <= 32:
            if packed_at is not None and not any(c == (t, packed_at) for c in cols) and rng.random() < 0.7:
                cols.append((t, packed_at))
                continue
            packed_at = off
        cols.append((t, off))
        off += excel.WIDTH[t] + rng.choice([0, 0, 0, 1, 3])
    rng.shuffle(cols)
    return cols, off + rng.choice([0, 0, 2])


def random_read_case(n, rng):
    variant = rng.choice([1, 1, 2])
    cols, data_offset = random_schema(rng, variant)
    nrows = rng.choice([1, 2, 5, 30, 200]) if rng.random() < 0.3 else rng.randint(1, 6)
    ids = sorted(rng.sample(range(0, 100000), nrows))
    rows = []
    for rid in ids:
        ns = 1 if variant == 1 else rng.choice([1, 2, 3, 7])
        rows.append((rid, [[rvalue(rng, t) for t, _ in cols] for _ in range(ns)]))
    show = ids if nrows <= 8 else rng.sample(ids, 8)
    hb = excel.exh(data_offset, variant, cols, [(ids[0], nrows)], [rng.randrange(8)], nrows)
    db = excel.exd(data_offset, variant, cols, rows)
    if len(db) > 16384:
        return None
    return Case([{"op": "excel.read", "case": n, "exh": list(hb), "exd": list(db), "ids": show + [100001]}],
                desc={"random sheet": {"variant": variant, "columns": len(cols), "rows": nrows, "data_offset": data_offset}})


def std_desc(b):
    from gen.zipatch import rle
    return {"kind": "std", "blocks": [rle(b)], "_modes": ["raw"]}


def archive_case(n, rng):
    """root.exl + headers + pages per language in a synthetic archive, read through GameData"""
    inst = Installation([0], rng.randrange(5))
    sheets = []
    entries = []
    for si in range(rng.randint(1, 4)):
        name = rng.choice(["Item", "Action", "quest/Story", "ClassJob", "custom/000/Talk_00%d" % si, "BNpcName"]) + ("%d" % si if si else "")
        if any(s["name"] == name for s in sheets):
            continue
        variant = rng.choice([1, 1, 2])
        cols, data_offset = random_schema(rng, variant)
        npages = rng.randint(1, 3)
        langs = rng.choice([[0], [1, 2, 3, 4], [2], [5, 6, 7], [1, 2, 3, 4, 5, 6, 7]])
        pages, start = [], rng.choice([0, 1, 500])
        for _ in range(npages):
            cnt = rng.randint(1, 4)
            pages.append((start, cnt))
            start += cnt + rng.choice([0, 10])
        hb = excel.exh(data_offset, variant, cols, pages, langs, sum(c for _, c in pages))
        sheets.append({"name": name, "pages": pages, "langs": langs})
        entries.append([list(name.encode()), rng.choice([-1, si, 7])])
        files = [("exd/%s.exh" % name.lower(), hb)]
        for lang in langs:
            for (st, cnt) in pages:
                rows = [(st + i, [[rvalue(rng, t) for t, _ in cols] for _ in range(1 if variant == 1 else rng.choice([1, 2, 3]))])
                        for i in range(cnt)]
                fn = "exd/%s_%d%s.exd" % (name, st, ("_" + excel.LANG[lang]) if lang else "")
                files.append((fn, excel.exd(data_offset, variant, cols, rows)))
        for path, b in files:
            chunk, dat = rng.choice([0, 0, 1]), rng.randrange(3)
            off = inst.place(0, 10, chunk, dat, std_desc(b))
            for k in rng.choice([[1], [2], [1, 2]]):
                inst.add_entry(0, 10, chunk, k, list(path.encode()), dat, off)
    root = render_exl(2, entries)
    off = inst.place(0, 10, 0, 0, std_desc(root))
    inst.add_entry(0, 10, 0, 1, list(b"exd/root.exl"), 0, off)
    lines = [inst.open_line(1, n)]
    for s in sheets:
        for lang in (s["langs"] if len(s["langs"]) == 3 or rng.random() < 0.3 else s["langs"][:2]):
            for pi, (st, cnt) in enumerate(s["pages"]):
                lines.append({"op": "excel.sheet", "h": 1, "case": n, "name": list(s["name"].encode()), "lang": lang, "page": pi,
                              "start": st, "ids": [st, st + cnt - 1, st + cnt + 5]})
    # a sheet that is not listed, a listed name in another letter case, a language without files
    s = sheets[0]
    lines.append({"op": "excel.sheet", "h": 1, "case": n, "name": list(b"Nope"), "lang": 2, "page": 0, "start": 0, "ids": [0]})
    lines.append({"op": "excel.sheet", "h": 1, "case": n, "name": list(s["name"].upper().encode()), "lang": s["langs"][0], "page": 0,
                  "start": s["pages"][0][0], "ids": [s["pages"][0][0]]})
    lines.append({"op": "excel.sheet", "h": 1, "case": n, "name": list(s["name"].encode()), "lang": 7, "page": 0,
                  "start": s["pages"][0][0], "ids": [s["pages"][0][0]]})
    lines.append({"op": "archive.close", "h": 1, "case": n})
    return Case(lines, desc={"archive sheets": [[s["name"], s["pages"], s["langs"]] for s in sheets]})


def check(run):
    rng = random.Random(run.seed)
    run.model_check("mc/MC_Excel.tla", "mc/MC_Excel.cfg", workers=12)
    schemas, st = tlc_generate("mc/MC_Excel.tla", "mc/Gen_Excel.cfg", workers=12)
    run.notes["generator"] = {"schemas": len(schemas), **st}
    if run.tier == "quick":
        schemas = [s for s in schemas if rng.random() < 0.25]
    cases = [schema_case(n, s, rng) for n, s in enumerate(schemas)]
    n = len(cases)
    for _ in range(150 if run.tier == "quick" else 1500):
        c = random_read_case(n, rng)
        if c:
            cases.append(c)
            n += 1
    for _ in range(40 if run.tier == "quick" else 300):
        cases.append(archive_case(n, rng))
        n += 1
    # sub-row positions beyond 16 bits: 18 sub-rows of a 4094-byte fixed region (sub-row 16 starts at byte 65536 of the row)
    big_cols = [(5, 0), (3, 4093), (7, 2000)]
    big_rows = [(3, [[rvalue(rng, t) for t, _ in big_cols] for _ in range(18)]), (4, [[rvalue(rng, t) for t, _ in big_cols] for _ in range(2)])]
    cases.append(read_case(n, 4094, 2, big_cols, big_rows, [5], {"wide sub-rows": [4094, 18]}))
    n += 1
    run.rule = ("every schema of 1..2 columns over all 19 column types at all non-overlapping offsets of an 8-byte fixed region, plain "
                "and sub-row sheets with 1..3 sub-rows, enumerated by TLC (quick: a seeded quarter) and written by gen/excel.py; random "
                "sheets (1..40 columns, shared packed-bool bytes, 1..200 rows, extreme values, unknown ids); sheets stored in synthetic "
                "archives (root.exl, headers, pages per language) read through GameData; distinct by file bytes, all non-trivial")
    run.conform(cases, MODULE, CFG, shards=14, xmx="4g")
    run.assumptions = ["string cells of sub-row sheets are laid out the way the library reads them (one heap behind the last sub-row, offsets counted from the end of the own sub-row's fixed region): undocumented, so this part can show regressions, not findings",
                       "only the first entry of the EXH language table is compared (entry width unverifiable offline)",
                       "Bool cells hold 0 or 1"]


def replay(run, rp):
    run.conform([Case(rp["script"])], MODULE, CFG, shards=1)
