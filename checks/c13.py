"""C13 - textures decode to the pixels their format defines."""
import itertools
import random
import struct
from lib.harness import Case

MODULE, CFG = "trace/TexTrace.tla", "trace/TexTrace.cfg"
FORMATS = {"bgra": 0x1450, "bc1": 0x3420, "bc3": 0x3431, "bc5": 0x6230}
ENDS = [0, 1, 31, 32, 2016, 2048, 63488, 65534, 65535]
ALPHAS = [0, 1, 127, 128, 254, 255]
THREE_D = 0x1000000


def header(attr, fmt, w, h, d, mips=1):
    return struct.pack("<IIHHHH", attr, fmt, w, h, d, mips) + struct.pack("<3I", 80, 0, 0) + struct.pack("<13I", *([80] + [0] * 12))


def need(fmt, w, h, d):
    if fmt == 0x1450:
        return 4 * w * h * d
    bs = 8 if fmt == 0x3420 else 16
    return bs * ((w + 3) // 4) * ((h * d + 3) // 4)


def tex_case(n, attr, fmt, w, h, d, payload, desc):
    b = header(attr, fmt, w, h, d) + bytes(payload)
    return Case([{"op": "codec.tex", "case": n, "bytes": list(b)}], desc=desc)


def sel2(k):          # 32-bit selector word in which texel i takes value (i + k) % 4
    v = 0
    for i in range(16):
        v |= ((i + k) % 4) << (2 * i)
    return struct.pack("<I", v)


def sel3(k):          # 48-bit field in which texel i takes value (i + k) % 8
    v = 0
    for i in range(16):
        v |= ((i + k) % 8) << (3 * i)
    return v.to_bytes(6, "little")


def flat3(v):         # 48-bit field in which every texel takes value v
    x = 0
    for i in range(16):
        x |= v << (3 * i)
    return x.to_bytes(6, "little")


def block_sweeps(tier):
    out = []
    n = 0
    # BC1: every ordered endpoint pair x 4 selector rotations, 27 blocks per image row
    blocks = [struct.pack("<HH", q0, q1) + sel2(k) for q0, q1 in itertools.product(ENDS, ENDS) for k in range(4)]
    for i in range(0, len(blocks), 27):
        chunk = blocks[i:i + 27]
        out.append(tex_case(n, 0, FORMATS["bc1"], 4 * len(chunk), 4, 1, b"".join(chunk), {"bc1 endpoint sweep": i})); n += 1
    # BC3: alpha endpoints x 8 selector rotations over a few colour blocks
    ablocks = [bytes([a0, a1]) + sel3(k) for a0, a1 in itertools.product(ALPHAS, ALPHAS) for k in range(8)]
    # flat blocks: all sixteen texels take the same palette entry (incl. the saturated "endpoint 0 = 255, selectors 0" block),
    # interleaved with the rotating ones so that a block which is not written shows what its neighbour left behind
    flat = [bytes([a0, a1]) + flat3(v) for a0, a1 in itertools.product(ALPHAS, ALPHAS) for v in range(8)]
    ablocks = [b for pair in zip(ablocks, flat) for b in pair]
    cblocks = [struct.pack("<HH", q0, q1) + sel2(k) for (q0, q1), k in zip(itertools.product([0, 2016, 65535], [31, 63488]), range(6))]
    b3 = [a + cblocks[i % len(cblocks)] for i, a in enumerate(ablocks)]
    for i in range(0, len(b3), 24):
        chunk = b3[i:i + 24]
        out.append(tex_case(n, 0, FORMATS["bc3"], 4 * len(chunk), 4, 1, b"".join(chunk), {"bc3 alpha sweep": i})); n += 1
    b5 = [a + ablocks[(i * 7 + 3) % len(ablocks)] for i, a in enumerate(ablocks)]
    for i in range(0, len(b5), 24):
        chunk = b5[i:i + 24]
        out.append(tex_case(n, 0, FORMATS["bc5"], 4 * len(chunk), 4, 1, b"".join(chunk), {"bc5 channel sweep": i})); n += 1
    return out, n


def check(run):
    rng = random.Random(run.seed)
    run.model_check("mc/MC_Tex.tla", "mc/MC_Tex.cfg", workers=7)
    cases, n = block_sweeps(run.tier)
    # geometry: all small widths / heights incl. non-multiples of 4, depth, attribute words
    dims = list(range(1, 10)) + [15, 16, 17]
    attrs = [0, THREE_D, 0xFFFFFFFF] + [1 << i for i in range(32)]
    for name, fmt in FORMATS.items():
        pairs = list(itertools.product(dims, dims))
        if run.tier == "quick":
            pairs = [p for p in pairs if p[0] <= 9 and p[1] <= 9][::2] + [(15, 17), (16, 16), (17, 15), (17, 4), (4, 17)]
        for (w, h) in pairs:
            payload = bytes(rng.randrange(256) for _ in range(need(fmt, w, h, 1)))
            cases.append(tex_case(n, rng.choice(attrs), fmt, w, h, 1, payload, {"geometry": [name, w, h, 1]})); n += 1
        for d in range(2, 9):
            w, h = rng.choice(dims), 4 * rng.randint(1, 3)
            payload = bytes(rng.randrange(256) for _ in range(need(fmt, w, h, d)))
            cases.append(tex_case(n, rng.choice([THREE_D, THREE_D | 0x800004, 0]), fmt, w, h, d, payload, {"geometry": [name, w, h, d]})); n += 1
    for a in attrs:
        cases.append(tex_case(n, a, FORMATS["bgra"], 2, 2, 1, bytes(range(16)), {"attribute word": a})); n += 1
    big = [(64, 64)] if run.tier == "quick" else [(511, 33), (512, 512), (129, 512)]
    for (w, h) in big:
        for name in (("bc1",) if run.tier == "quick" else ("bc1", "bc3")):
            fmt = FORMATS[name]
            payload = bytes(rng.randrange(256) for _ in range(need(fmt, w, h, 1)))
            cases.append(tex_case(n, 0, fmt, w, h, 1, payload, {"geometry": [name, w, h, 1]})); n += 1
    run.rule = ("per-block sweeps (BC1: 81 ordered endpoint pairs x 4 selector rotations; BC3/BC5: 36 alpha endpoint pairs x 8 selector "
                "rotations so every texel takes every selector value, and x 8 flat blocks in which all texels take the same value), geometry sweep over widths/heights 1..9,15,16,17 (thorough adds 511/512) "
                "for all four formats, depth 2..8, attribute words 0 / 3D / all ones / every single bit, random payloads; a case is one "
                "texture file, distinct by bytes, all non-trivial")
    run.conform(cases, MODULE, CFG, shards=14, xmx="6g")
    run.assumptions = ["the alpha of the black entry of BC1's 3-colour mode is not compared (property's own exclusion)",
                       "payload is at least as long as the format needs"]


def replay(run, rp):
    run.conform([Case(rp["script"])], MODULE, CFG, shards=1)
