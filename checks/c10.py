"""C10 - file-info tables and patch lists."""
import random
from lib.harness import Case, REPO
from gen.meta import render_fiin, render_list, pattern_bytes

MODULE, CFG = "trace/MetaTrace.tla", "trace/MetaTrace.cfg"
SOME = lambda v: {"some": True, "v": v}
NONE = {"some": False}
B = lambda s: list(s.encode() if isinstance(s, str) else s)


def rname(rng, n):
    alpha = "abcdefghijklmnopqrstuvwxyzABCDEFGHIJKLMNOPQRSTUVWXYZ0123456789._-"
    return "".join(rng.choice(alpha) for _ in range(n))


def fiin_cases(rng, tier, n0):
    out = []
    n = n0
    # every content length 0..300, one file per case, name lengths cycle 1 / 8 / 63 / 64 (64 fills the field: no terminator)
    for ln in range(0, 301):
        nm = rname(rng, [1, 8, 63, 64][ln % 4]).replace(".", "x") + ""
        content = [rng.randrange(256) for _ in range(ln)]
        out.append(Case([{"op": "meta.fiin", "case": n, "files": [{"name": B(nm), "content": content}]}],
                        desc={"fiin": [{"name": nm, "len": ln}]}, key="fiin-len-%d" % ln))
        n += 1
    # every name length the 64-byte field can hold
    for nl in range(1, 65):
        nm = rname(rng, nl).replace(".", "x")
        out.append(Case([{"op": "meta.fiin", "case": n, "files": [{"name": B(nm), "content": [rng.randrange(256) for _ in range(nl % 7)]}]}],
                        desc={"fiin": [{"name": nm, "len": nl % 7}]}, key="fiin-name-%d" % nl))
        n += 1
    # names with multi-byte characters: the field is 64 BYTES wide (2- and 3-byte characters, up to the full field)
    for nm in ["é", "日本語.dat", "a" + "é" * 20, "é" * 32, "日" * 21 + "a", "x" * 62 + "é", "ｆｕｌｌ.bin", "naïve file.txt"]:
        assert len(nm.encode()) <= 64
        out.append(Case([{"op": "meta.fiin", "case": n, "files": [{"name": list(nm.encode()), "content": [rng.randrange(256) for _ in range(5)]},
                                                                   {"name": B("after"), "content": [1, 2, 3]}]}],
                        desc={"fiin": [{"name": nm, "len": 5}, {"name": "after", "len": 3}]}, key="fiin-utf8-%d" % n))
        n += 1
    # padding edges around 1 KiB and 64 KiB, multi-file sets
    edges = [55, 56, 63, 64, 119, 120]
    bigs = [1024 - 64 + e for e in edges] + ([65536 - 64 + e for e in edges[:3]] if tier == "quick"
                                              else [65536 - 64 + e for e in edges])
    for ln in bigs:
        a, b = rng.randrange(1, 256), rng.randrange(256)
        out.append(Case([{"op": "meta.fiin", "case": n,
                          "files": [{"name": B(rname(rng, 8)), "pattern": {"n": ln, "a": a, "b": b}}]}],
                        desc={"fiin": [{"pattern": [ln, a, b]}]}, key="fiin-big-%d" % ln))
        n += 1
    for k in ([0, 2, 6] if tier == "quick" else [0, 1, 2, 3, 4, 5, 6] * 6):
        files, seen = [], set()
        for _ in range(k):
            nm = rname(rng, rng.choice([1, 8, 63, 64]))
            if nm in seen or nm in (".", ".."):
                continue
            seen.add(nm)
            files.append({"name": B(nm), "content": [rng.randrange(256) for _ in range(rng.choice([0, 1, 55, 56, 64, 200]))]})
        out.append(Case([{"op": "meta.fiin", "case": n, "files": files}],
                        desc={"fiin": [{"name": bytes(f["name"]).decode(), "len": len(f["content"])} for f in files]},
                        nontrivial=len(files) > 0))
        n += 1
        # the same set rendered by the independent concretiser, parsed by the library
        fl = [(bytes(f["name"]), bytes(f["content"])) for f in files]
        tb = render_fiin(fl)
        import hashlib
        absv = [{"size": len(c), "name": list(nm), "digest": list(hashlib.sha1(c).digest())} for nm, c in fl]
        out.append(Case([{"op": "meta.fiin.parse", "case": n, "bytes": list(tb), "abs": SOME(absv)}],
                        desc={"fiin.parse": len(fl)}, nontrivial=len(files) > 0))
        n += 1
    fx = open(REPO + "/resources/tests/test.fiin", "rb").read()
    out.append(Case([{"op": "meta.fiin.parse", "case": n, "bytes": list(fx), "abs": NONE}], desc="fixture test.fiin"))
    return out, n + 1


def pattern_bytes(n, a, b):
    return bytes((a * i + b + i // 251) % 256 for i in range(n))


def big_ref_case(rng, n):
    """one file whose bit length needs more than 24 bits (2 MiB and more), judged against hashlib's digest"""
    import hashlib
    ln, a, b = 2 * 1048576 + 77, rng.randrange(1, 256), rng.randrange(256)
    return Case([{"op": "meta.fiin", "case": n, "files": [{"name": B("big_ref.bin"), "pattern": {"n": ln, "a": a, "b": b},
                                                           "digest_ref": list(hashlib.sha1(pattern_bytes(ln, a, b)).digest())}]}],
                desc={"fiin": [{"pattern": [ln, a, b], "digest": "hashlib"}]})


def big_fiin_cases(rng, n0):
    out = []
    for i, ln in enumerate([1048576 + 55, 2 * 1048576 + 120]):
        a, b = rng.randrange(1, 256), rng.randrange(256)
        out.append(Case([{"op": "meta.fiin", "case": n0 + i,
                          "files": [{"name": B("big%d.bin" % i), "pattern": {"n": ln, "a": a, "b": b}}]}],
                        desc={"fiin": [{"pattern": [ln, a, b]}]}))
    return out


NUMS = ["0", "1", str(2**31), str(2**53 + 1), str(2**62)]


def plist_cases(rng, tier, n0):
    out = []
    n = n0
    count = 150 if tier == "quick" else 2500
    for _ in range(count):
        kind = rng.choice(["boot", "game"])
        k = rng.choice([0, 1, 2, 3, 5])
        patches, total = [], 0
        for _ in range(k):
            ln = rng.choice(NUMS) if rng.random() < 0.5 else str(rng.randrange(2**rng.choice([8, 31, 40, 62])))
            if total + int(ln) >= 2**63:
                ln = "7"
            total += int(ln)
            patches.append({"length": ln,
                            "size": rng.choice(NUMS + [str(rng.randrange(2**63))]),
                            "a": str(rng.randrange(100)), "b": str(rng.randrange(100)),
                            "version": "20%02d.%02d.%02d.0000.%04d" % (rng.randrange(100), rng.randrange(13), rng.randrange(32), rng.randrange(3)),
                            "hbs": rng.choice(["0", "50000000", str(2**40)]),
                            "hashes": ["%040x" % rng.getrandbits(160) for _ in range(rng.choice([1, 1, 2, 4]))],
                            "url": "http://patch-dl.ffxiv.com/%s/%08x/D%s.patch" % (kind, rng.getrandbits(32), rname(rng, 6))})
        ident = "%08X_%04X_41d4" % (rng.getrandbits(32), rng.getrandbits(16))
        loc = "ffxivpatch/%08x/metainfo/%s.http" % (rng.getrandbits(32), rname(rng, 5))
        if rng.random() < 0.2:
            loc = ""              # what re-rendering a parsed list produces: the parser does not keep the location
        enc = lambda p: {"length": B(p["length"]), "size": B(p["size"]), "a": B(p["a"]), "b": B(p["b"]),
                         "version": B(p["version"]), "hbs": B(p["hbs"]), "hashes": [B(h) for h in p["hashes"]],
                         "url": B(p["url"])}
        lines = [{"op": "meta.plist.render", "case": n, "kind": kind, "id": B(ident), "loc": B(loc),
                  "patches": [enc(p) for p in patches]}]
        text = render_list(kind, ident, loc, patches)
        absv = {"total": B(str(total)),
                "patches": [{"length": B(p["length"]), "size": B(p["size"]), "version": B(p["version"]),
                             "hbs": B(p["hbs"]) if kind == "game" else B("0"),
                             "hashes": [B(h) for h in p["hashes"]] if kind == "game" else [],
                             "url": B(p["url"])} for p in patches]}
        lines.append({"op": "meta.plist.parse", "case": n, "kind": kind, "text": list(text), "abs": SOME(absv)})
        out.append(Case(lines, desc={"plist": kind, "entries": [[p["length"], p["size"], len(p["hashes"])] for p in patches]},
                        nontrivial=k > 0))
        n += 1
    # the server response quoted in the repository's own test
    boot = ("--477D80B1_38BC_41d4_8B48_5273ADB89CAC\r\nContent-Type: application/octet-stream\r\nContent-Location: "
            "ffxivpatch/2b5cbc63/metainfo/D2023.04.28.0000.0001.http\r\nX-Patch-Length: 22221335\r\n\r\n22221335\t69674819\t19\t18\t"
            "2023.09.14.0000.0001\thttp://patch-dl.ffxiv.com/boot/2b5cbc63/D2023.09.14.0000.0001.patch\r\n"
            "--477D80B1_38BC_41d4_8B48_5273ADB89CAC--\r\n")
    out.append(Case([{"op": "meta.plist.parse", "case": n, "kind": "boot", "text": B(boot), "abs": NONE}],
                    desc="boot patch list from the repository's test"))
    return out, n + 1


def check(run):
    rng = random.Random(run.seed)
    run.model_check("mc/MC_Meta.tla", "mc/MC_Meta_fiin.cfg")
    run.model_check("mc/MC_Meta.tla", "mc/MC_Meta_list.cfg")
    run.model_check("mc/MC_Hashes.tla", "mc/MC_Hashes.cfg")
    fc, n = fiin_cases(rng, run.tier, 0)
    pc, n = plist_cases(rng, run.tier, n)
    run.rule = ("file sets with every content length 0..300, SHA-1 padding edges around 1 KiB / 64 KiB (thorough: two files "
                "of 1-2 MiB), names of every length 1..64 bytes, 0..6 files; tables rendered by gen/meta.py parsed by the library; "
                "patch lists (boot/game, 0..5 entries, sizes up to 2^62, 1..4 hashes) rendered by the library and by "
                "gen/meta.py and parsed back; distinct by script, non-trivial when at least one file / entry is present")
    hashlib_agrees_with_spec = [Case([{"op": "meta.fiin", "case": n + 1, "files": [
        {"name": B("ref%d.bin" % k), "content": list(pattern_bytes(ln, 7, k)), "digest_ref": None} for k, ln in enumerate([0, 55, 56, 64, 119, 1000])]}])]
    for f in hashlib_agrees_with_spec[0].lines[0]["files"]:
        f.pop("digest_ref")          # these are judged by Sha1 of the specification, like every small input
    run.conform(fc + pc + [big_ref_case(rng, n)] + hashlib_agrees_with_spec, MODULE, CFG)
    n += 2
    if run.tier == "thorough":
        run.conform(big_fiin_cases(rng, n), MODULE, CFG, shards=2, tag="big", xmx="6g", timeout=3000)
    run.assumptions = ["the quick tier's 2 MiB file is judged against hashlib's digest (TLC needs minutes for it); hashlib's agreement with Hashes.tla is what every smaller input of the run shows, and the thorough tier evaluates 1 and 2 MiB files in TLC",
                       "FIIN layout corroborated by resources/tests/test.fiin; patch-list wire format as in the repository's quoted server responses"]


def replay(run, rp):
    run.conform([Case(rp["script"])], MODULE, CFG, shards=1)
