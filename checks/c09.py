"""C09 - saved character and gear-set files keep the documented layout."""
import glob
import random
from lib.harness import Case, REPO
from gen import userfiles
from gen.zipatch import rle

MODULE, CFG = "trace/UserFilesTrace.tla", "trace/UserFilesTrace.cfg"
DEFAULT = [1, 0, 1, 50, 1, 1, 1, 0, 1, 1, 1, 1, 0, 1, 1, 1, 1, 1, 1, 1, 0, 0, 0, 0, 0, 1, 1]
W = lambda x: [x >> 16, x & 0xFFFF]
IDS = [1, 64, 999999, 1000000, 1000001, 2**31, 2**32 - 1, 5269, 8395913]


def char_line(n, version, fields, ts, comment):
    return {"op": "user.chardat.write", "case": n, "version": version, "fields": fields,
            "timestamp": list(ts.to_bytes(4, "little")), "comment": list(comment)}


def char_cases(rng, tier):
    out, n = [], 0
    # every field x every byte value (enums over their valid codes), others at defaults
    for f in range(27):
        if f == 0:
            vals = range(1, 9)
        elif f == 1:
            vals = range(0, 2)
        elif f == 4:
            vals = range(1, 17)
        elif f == 7:
            vals = range(0, 2)
        else:
            vals = range(256) if tier == "thorough" else list(range(0, 256, 5)) + [255, 127, 128]
        lines = []
        for v in vals:
            fields = list(DEFAULT)
            fields[f] = v
            lines.append(char_line(n, 4, fields, 0x67CC6CA8, b"sweep"))
        out.append(Case(lines, desc={"field sweep": f, "values": len(lines)}))
        n += 1
    for ts in (0, 1, 0x7FFFFFFF, 0x80000000, 0xFFFFFFFF):
        for cl in (0, 1, 162, 163):
            text = ("é" * 82)[:cl // 2 * 1].encode()[:cl] if cl > 100 and ts == 1 else bytes(65 + i % 26 for i in range(cl))
            try:
                text.decode()
            except UnicodeDecodeError:
                text = text[:-1]
            out.append(Case([char_line(n, rng.choice([1, 2, 3, 4]), [rng.choice(range(1, 9)), rng.randrange(2)] +
                                       [rng.randrange(256) for _ in range(2)] + [rng.randrange(1, 17)] +
                                       [rng.randrange(256) for _ in range(2)] + [rng.randrange(2)] +
                                       [rng.randrange(256) for _ in range(19)], ts, text)],
                            desc={"timestamp": ts, "comment length": len(text)}))
            n += 1
    for _ in range(100 if tier == "quick" else 1500):
        fields = ([rng.randrange(1, 9), rng.randrange(2)] + [rng.randrange(256) for _ in range(2)] + [rng.randrange(1, 17)]
                  + [rng.randrange(256) for _ in range(2)] + [rng.randrange(2)] + [rng.randrange(256) for _ in range(19)])
        comment = bytes(rng.choice(range(32, 127)) for _ in range(rng.randint(0, 163)))
        ts = rng.getrandbits(32)
        lines = [char_line(n, rng.randrange(1, 5), fields, ts, comment)]
        b = userfiles.chardat(lines[0]["version"], fields, ts, comment)
        lines.append({"op": "user.chardat.parse", "case": n, "bytes": list(b), "canonical": True})
        out.append(Case(lines, desc={"random preset": fields[:5]}))
        n += 1
    for f in sorted(glob.glob(REPO + "/resources/tests/chardat/*.dat")):
        out.append(Case([{"op": "user.chardat.parse", "case": n, "bytes": list(open(f, "rb").read()), "canonical": True}],
                        desc="fixture " + f.split("/")[-1]))
        n += 1
    return out, n


def set_desc(k, index, name, slots, facewear):
    return {"k": k, "index": index, "name": list(name),
            "slots": [{"s": s, "id": W(i), "glam": W(g)} for s, (i, g) in sorted(slots.items())], "facewear": W(facewear)}


def gear_cases(rng, tier, n0):
    out, n = [], n0
    blank = rle(userfiles.gear_file(0, {}))

    def case(sets, current, desc):
        nonlocal n
        lines = [{"op": "user.gear.write", "case": n, "current": current, "_blank": blank,
                  "sets": [set_desc(k, s["index"], s["name"], s["slots"], s["facewear"]) for k, s in sorted(sets.items())]}]
        f = userfiles.gear_file(current, {k: s for k, s in sets.items()})
        # an unnamed record is empty by definition: a file that stores items in one is not canonical
        lines.append({"op": "user.gear.parse", "case": n, "file": list(f), "canonical": all(s["name"] for s in sets.values())})
        out.append(Case(lines, desc=desc))
        n += 1
    # every single slot with every id class; all 14 slots; names of 0 / 1 / 46 bytes; subsets of {1, 2, 58, 100}
    for s in range(1, 15):
        for j, i in enumerate(IDS):
            if tier == "quick" and (j + s) % 3:
                continue
            case({1: {"index": 0, "name": b"A", "slots": {s: (i, rng.choice([0, 2453, 2**32 - 1]))}, "facewear": 0}}, 0,
                 {"single slot": s, "id": i})
    case({3: {"index": 2, "name": b"All", "slots": {s: (1000 + s, s) for s in range(1, 15)}, "facewear": 77}}, 2, "all 14 slots")
    for name in (b"", b"x", b"N" * 46):
        case({1: {"index": 0, "name": name, "slots": {1: (5, 0)}, "facewear": 0}}, 0, {"name length": len(name)})
    import itertools
    for r in range(0, 5):
        for sub in itertools.combinations([1, 2, 58, 100], r):
            case({k: {"index": k - 1, "name": b"Set %d" % k, "slots": {rng.randint(1, 14): (rng.choice(IDS), 0)}, "facewear": rng.choice([0, 9])}
                  for k in sub}, rng.randrange(100), {"subset": list(sub)})
    for _ in range(10 if tier == "quick" else 150):
        sets = {}
        for k in rng.sample(range(1, 101), rng.choice([1, 3, 10, 100])):
            slots = {s: (rng.choice(IDS) if rng.random() < 0.3 else rng.getrandbits(32) or 1, rng.choice([0, rng.getrandbits(32)]))
                     for s in rng.sample(range(1, 15), rng.randint(0, 14))}
            sets[k] = {"index": rng.randrange(256), "name": bytes(rng.choice(range(32, 127)) for _ in range(rng.randint(1, 46))),
                       "slots": slots, "facewear": rng.choice([0, rng.getrandbits(32)])}
        case(sets, rng.randrange(256), {"random table": len(sets)})
    fx = open(REPO + "/resources/tests/gearsets/simple.dat", "rb").read()
    out.append(Case([{"op": "user.gear.parse", "case": n, "file": list(fx), "canonical": True}], desc="fixture simple.dat"))
    return out


def check(run):
    rng = random.Random(run.seed)
    run.model_check("mc/MC_UserFiles.tla", "mc/MC_UserFiles.cfg", workers=7)
    cc, n = char_cases(rng, run.tier)
    gc = gear_cases(rng, run.tier, n)
    run.rule = ("character presets: per field every byte value (quick: every 5th + boundaries; enums over their valid codes) with the others "
                "at defaults, timestamp boundary set x comment lengths 0/1/162/163, random records written by the library and by "
                "gen/userfiles.py, the four fixtures; gear sets: every slot x id class (ids overlapping the marker's bits, 2^31, 2^32-1), "
                "all 14 slots, names of 0/1/46 bytes, all subsets of sets {1,2,58,100}, random tables, the fixture; a case is one record or "
                "table (field sweeps batch their records), all non-trivial")
    run.conform(cc + gc, MODULE, CFG, shards=14, xmx="4g")
    run.assumptions = ["preset layout, checksum and the +1 000 000 item-id marker are corroborated by the repository fixtures "
                       "(all four stored checksums and both fixture item ids reproduce)"]


def replay(run, rp):
    run.conform([Case(rp["script"])], MODULE, CFG, shards=1)
