"""LAYERGROUP - beyond the listed properties: layer groups WITH layers and instance objects (spec/LayerGroup.tla).
Not registered in MANIFEST.json; `./check LAYERGROUP [--tier thorough]`.  Generated files (gen/layergroup.py: nested offset tables,
objects stored in another order than their table, names anywhere behind their record) are parsed by the real LayerGroup::from_existing;
TLC reads the same bytes with the specification and demands every layer header field, object id, name, transform and record."""
import random
from lib.harness import Case
from gen import layergroup

MODULE, CFG = "trace/LayerGroupTrace.tla", "trace/LayerGroupTrace.cfg"


def w32(x):
    x &= 0xFFFFFFFF
    return [x >> 16, x & 0xFFFF]


def lgb_case(n, g, rng):
    b = layergroup.build(g, rng)
    ab = [{"id": w32(l["id"]), "name": list(l["name"]), "n": len(l["objects"])} for l in g["layers"]]
    return Case([{"op": "assets.lgbread", "case": n, "_hex": b.hex(), "bytes": list(b), "abs": ab,
                  "markerkinds": ["DebugZonePop", "DebugJump", "NaviMesh", "LQEvent"], "popkinds": ["PC", "Npc", "Content"],
                  "envshapes": ["Ellipsoid", "Cuboid", "Cylinder"], "boxshapes": ["Box", "Sphere", "Cylinder", "Board", "Mesh", "BoardBothSides"],
                  "exitkinds": ["ZoneLine"], "collisionkinds": ["None", "Replace", "Box"],
                  "doorstates": ["Auto", "Open", "Closed"], "rotationstates": ["Rounding", "Stopped"], "playstates": ["Play", "Stop", "Replay", "Reset"]}],
                desc={"layer group": {"layers": len(g["layers"]), "objects": [len(l["objects"]) for l in g["layers"]], "bytes": len(b)}},
                nontrivial=any(l["objects"] for l in g["layers"]))


def check(run):
    rng = random.Random(run.seed)
    # the specification's reader against a writer stated in TLA+: every small group is written and read back
    run.model_check("mc/MC_LayerGroup.tla", "mc/MC_LayerGroup_wide.cfg", workers=4, coverage=False)
    run.model_check("mc/MC_LayerGroup.tla", "mc/MC_LayerGroup_quick.cfg" if run.tier == "quick" else "mc/MC_LayerGroup.cfg", workers=4, coverage=False)
    cases = [lgb_case(n, layergroup.random_group(rng), rng) for n in range(150 if run.tier == "quick" else 3000)]
    run.rule = ("random layer groups: 0..5 layers x 0..6 instance objects (background models, position markers, shared groups, pop ranges, environment sets, exit ranges), names of 0..12 bytes, objects "
                "stored in shuffled order with gaps, referenced-set lists of 0..3 ids, every header byte random; distinct by file bytes")
    run.exhaustive = False
    run.conform(cases, MODULE, CFG, shards=14, xmx="4g")
    run.assumptions = ["layout recalled from Lumina's layer parser and corroborated by the library's own reader (regression level)",
                       "the object offset table lies directly behind the layer header (where the library reads it and where the header's offset says)"]


def replay(run, rp):
    run.conform([Case(rp["script"])], MODULE, CFG, shards=1)
