"""C15 - game paths, race codes, repository order, sqpack file names (finite domain, exhaustive)."""
import itertools
import random
from lib.harness import Case

MODULE, CFG = "trace/NamesTrace.tla", "trace/NamesTrace.cfg"
CATS = [0, 1, 2, 3, 4, 5, 6, 7, 8, 9, 10, 11, 12, 18, 19]


def race_lines():
    return [{"op": "names.race", "r": r, "t": t, "g": g}
            for r in range(1, 9) for t in range(1, 17) for g in (0, 1)]


def cases(tier, rng):
    out = []
    # equipment: every slot x every id for one body, boundary ids for every valid body
    step = 100
    allids = list(range(0, 10000))
    for slot in range(10):
        if tier == "thorough":
            for i in range(0, 10000, step):
                out.append(Case([{"op": "names.equip", "slot": slot, "r": 5, "t": 9, "g": 0,
                                  "ids": allids[i:i + step]}], key="equip-all-%d-%d" % (slot, i)))
        else:
            ids = sorted(set([0, 1, 9, 10, 99, 100, 999, 1000, 9998, 9999] + rng.sample(allids, 190)))
            out.append(Case([{"op": "names.equip", "slot": slot, "r": 5, "t": 9, "g": 0, "ids": ids}],
                            key="equip-q-%d" % slot))
    bids = [0, 1, 10, 999, 1000, 9999]
    for r in range(1, 9):
        for t in (2 * r - 1, 2 * r):
            for g in (0, 1):
                for slot in range(10):
                    out.append(Case([{"op": "names.equip", "slot": slot, "r": r, "t": t, "g": g, "ids": bids}],
                                    key="equip-b-%d-%d-%d-%d" % (r, t, g, slot)))
                for cat in range(5):
                    vers = bids if tier == "quick" else sorted(set(bids + rng.sample(allids, 60)))
                    out.append(Case([{"op": "names.charpath", "cat": cat, "r": r, "t": t, "g": g, "vers": vers}],
                                    key="char-%d-%d-%d-%d" % (r, t, g, cat)))
    # file names: the whole 15 x 10 x 10 x 5 x 8 domain
    for cat in CATS:
        for ex in range(10):
            for plat in range(5):
                out.append(Case([{"op": "names.files", "cat": cat, "ex": ex, "plat": plat,
                                  "chunks": list(range(10)), "dats": list(range(8))}],
                                key="files-%d-%d-%d" % (cat, ex, plat)))
    # patch side: the file names ZiPatch::apply writes to, for the same domain
    from gen import zipatch
    for cat in CATS:
        for ex in (range(10) if tier == "thorough" else (0, 1, 9)):
            for plat in range(5):
                chunks = list(range(10)) if tier == "thorough" else [0, 3, 9]
                dats = list(range(8)) if tier == "thorough" else [0, 7]
                cs = [{"k": "T", "plat": plat}]
                for ch in chunks:
                    for d in dats:
                        cs.append({"k": "A", "main": cat, "sub": ex * 256 + ch, "file": d, "off": 0,
                                   "data": [[1, 128]], "del": 0})
                cs.append({"k": "EOF"})
                out.append(Case([{"op": "names.patchfiles", "case": len(out), "cat": cat, "ex": ex, "plat": plat,
                                  "chunks": chunks, "dats": dats, "_patch": zipatch.encode_patch(cs).hex()}],
                                key="patchfiles-%d-%d-%d" % (cat, ex, plat)))
    # repository order: every arrangement of every subset of the universe
    uni = [0, 1, 2, 3, 5, 9] if tier == "quick" else [0, 1, 2, 3, 4, 5, 9]
    n = 0
    for k in range(0, len(uni) + 1):
        for perm in itertools.permutations(uni, k):
            out.append(Case([{"op": "names.sort", "seq": list(perm)}], key="sort-%s" % (perm,),
                            nontrivial=k >= 2))
            n += 1
    # numbers of two and three digits, where the order of the names (ex10 < ex2) is not the order of the numbers
    for k in range(2, 5):
        for perm in itertools.permutations([1, 2, 9, 10, 11, 100], k):
            out.append(Case([{"op": "names.sort", "seq": list(perm)}], key="sort-%s" % (perm,)))
    # discovery through GameData::from_existing, directories created in shuffled order
    nd = 40 if tier == "quick" else 400
    for i in range(nd):
        k = rng.randint(0, 7)
        order = rng.sample([0, 1, 2, 3, 4, 5, 6, 7, 8, 9], k)
        out.append(Case([{"op": "names.discover", "case": i, "order": order, "plat": rng.randint(0, 4)}],
                        key="disc-%s" % (order,), nontrivial=k >= 2))
    return out


def check(run):
    rng = random.Random(run.seed)
    for c in ("tables", "equip", "repo", "files"):
        run.model_check("mc/MC_Names.tla", "mc/MC_Names_%s.cfg" % c)
    cs = cases(run.tier, rng)
    run.rule = ("the whole finite domain is dumped from the real library: all 8x16x2 race triples, "
                "10 slots x ids (thorough: all 10000 for one body, boundary ids for every body), all character "
                "categories, all 15x10x10x5x8 file names, every arrangement of every subset of a 6/7-member "
                "repository universe, shuffled discovery; a case is one batch event, distinct by its arguments, "
                "non-trivial when it has >= 2 repositories or any formatted name")
    run.exhaustive = run.tier == "thorough"
    run.conform(cs, MODULE, CFG, prelude=race_lines(), epilogue=[{"op": "mark.end", "partial": False}])
    run.assumptions = ["documented tribe numbering (two consecutive tribe ids per race) and cXXXX path formats "
                       "as recalled from public documentation",
                       "patch-side names are observed through real ZiPatch::apply runs for all five platform codes"]


def replay(run, rp):
    run.conform([Case(rp["script"])], MODULE, CFG, shards=1)
