"""C07 - written models re-read as the same model, including after edits."""
import random
import struct
from lib.harness import Case, tlc_generate, REPO
from gen import mdl, mdlcases

MODULE, CFG = "trace/MdlTrace.tla", "trace/MdlTrace.cfg"
# strides of the bounded model -> writable declarations with exactly those strides
DECLS = {(12,): [(0, 2, 0)], (20, 4): [(0, 2, 0), (3, 14, 0), (7, 8, 1)], (4, 12, 4): [(1, 8, 0), (0, 2, 1), (2, 5, 2)]}


def split(i, n, base):
    return [[i, base]] if n == 1 else [[i - i // 2, base], [i // 2, base + i - i // 2]]


class Session:
    """mirrors the geometry a caller keeps while editing: per LOD per mesh (els, vertices, indices, nsub)"""

    def __init__(self, rng, n, lods_abs):
        self.rng, self.n = rng, n
        self.state = []
        lods = []
        for lod in lods_abs:
            meshes, st, base = [], [], 0
            for m in lod:
                els = DECLS[tuple(m["strides"])]
                idx = [rng.randrange(max(m["v"], 1)) for _ in range(m["i"])]
                me, verts = mdlcases.canonical_mesh(rng, els, m["v"], idx, len(m["subs"]), base)
                me["submeshes"] = [(o, c, 1, 0, 0) for (c, o) in [tuple(x) for x in m["subs"]]]
                meshes.append(me)
                st.append({"els": els, "verts": verts, "indices": idx, "nsub": len(m["subs"]), "shape_meshes": 0})
                base += m["i"]
            lods.append(meshes)
            self.state.append(st)
        model = mdlcases.model(rng, 5, lods, shapes=[{"name": "shp_a", "meshes": {}}, {"name": "shp_b", "meshes": {}}, {"name": "shp_c", "meshes": {}}])
        self.lines = [{"op": "mdl.open", "h": 1, "case": n, "bytes": list(mdl.build(model))},
                      {"op": "mdl.write", "h": 1, "case": n, "unedited": True}]

    def base(self, l, j):
        return sum(len(self.state[l][k]["indices"]) for k in range(j))

    def submit(self, l, j, settled, template=None, nv=None):
        s = self.state[l][j]
        line = {"op": "mdl.replace", "h": 1, "case": self.n, "lod": l, "part": j, "indices": s["indices"],
                "subs": split(len(s["indices"]), s["nsub"], self.base(l, j)), "settled": settled}
        # now and then the SubMesh carriers are taken from another part with the same number of sub-meshes
        twins = [(l2, j2) for l2 in range(len(self.state)) for j2 in range(len(self.state[l2]))
                 if (l2, j2) != (l, j) and self.state[l2][j2]["nsub"] == s["nsub"]]
        if twins and self.rng.random() < 0.35:
            line["subs_from"] = list(self.rng.choice(twins))
        if template is not None:
            line["_template"], line["nv"] = template, nv
        else:
            line["vertices"] = s["verts"]
        self.lines.append(line)

    def replace(self, l, j, v, i):
        s = self.state[l][j]
        decl, _ = mdlcases.make_decl(s["els"], 0)
        s["indices"] = [self.rng.randrange(max(min(v, 65535), 1)) for _ in range(i)]
        last = len(self.state[l]) - 1
        if v > 2000:
            template = [mdlcases.canonical_vertex(self.rng, decl)[1] for _ in range(3)]
            s["verts"] = None
            s["big"] = (template, v)
            self.submit(l, j, j == last, template, v)
        else:
            s["verts"] = [mdlcases.canonical_vertex(self.rng, decl)[1] for _ in range(v)]
            s.pop("big", None)
            self.submit(l, j, j == last)
        for k in range(j + 1, last + 1):     # the following meshes are re-submitted with shifted ranges
            sk = self.state[l][k]
            if sk.get("big"):
                self.submit(l, k, k == last, sk["big"][0], sk["big"][1])
            else:
                self.submit(l, k, k == last)

    def add_shape(self, l, j, nvals, shape=0, shape_mesh=None):
        s = self.state[l][j]
        decl, _ = mdlcases.make_decl(s["els"], 0)
        vals = []
        for _ in range(nvals):
            v = mdlcases.canonical_vertex(self.rng, decl)[1]
            vals.append({"base": self.rng.randrange(len(s["indices"])), "vertex": v})
            if s["verts"] is not None:
                s["verts"] = s["verts"] + [v]
        self.lines.append({"op": "mdl.add_shape", "h": 1, "case": self.n, "lod": l, "shape": shape,
                           "shape_mesh": s["shape_meshes"] if shape_mesh is None else shape_mesh,
                           "part": j, "values": vals, "shape_name": list(b"shp_" + bytes([97 + shape]))})
        s["shape_meshes"] += 1

    def remove_shapes(self):
        self.lines.append({"op": "mdl.remove_shapes", "h": 1, "case": self.n})
        for st in self.state:
            for s in st:
                s["shape_meshes"] = 0


def history_case(n, h, rng):
    lods_abs = [[{"v": m["v"], "i": m["i"], "strides": m["strides"], "subs": m["subs"]} for m in lod] for lod in h["init"]]
    ses = Session(rng, n, lods_abs)
    for c in h["calls"]:
        if c["op"] == "replace":
            ses.replace(c["lod"], c["part"], c["v"], c["i"])
        elif c["op"] == "add_shape":
            ses.add_shape(c["lod"], c["part"], c["n"])
        else:
            ses.remove_shapes()
    return Case(ses.lines, desc={"init": [[[m["v"], m["i"], m["strides"]] for m in lod] for lod in h["init"]],
                                 "calls": [{k: v for k, v in c.items()} for c in h["calls"]]})


def random_history(n, rng, tier):
    shapes = list(DECLS)
    lods_abs = []
    for _ in range(rng.randint(1, 3)):
        lod, base = [], 0
        for _ in range(rng.randint(1, 2)):
            st = rng.choice(shapes)
            v, i, ns = rng.choice([1, 2, 5]), rng.choice([3, 6, 9]), rng.choice([1, 2])
            lod.append({"v": v, "i": i, "strides": list(st), "subs": split(i, ns, base)})
            base += i
        lods_abs.append(lod)
    ses = Session(rng, n, lods_abs)
    calls = []
    for _ in range(rng.randint(1, 12 if tier == "thorough" else 6)):
        l = rng.randrange(len(lods_abs))
        j = rng.randrange(len(lods_abs[l]))
        v = rng.choice([0, 1, 2, 3, 7, 100, 1000]) if rng.random() < 0.97 else rng.choice([65535, 20000])
        i = rng.choice([0, 3, 6, 8, 9, 24, 300])
        ses.replace(l, j, v, i)
        calls.append(["replace", l, j, v, i])
        # now and then: shapes removed, then a shape mesh added to some mesh that has indices (any LOD, any part)
        if rng.random() < 0.35:
            ses.remove_shapes()
            l2 = rng.randrange(len(lods_abs))
            j2 = rng.randrange(len(lods_abs[l2]))
            st = ses.state[l2][j2]
            if st["indices"] and st["verts"] is not None and len(st["verts"]) >= 1:
                ses.add_shape(l2, j2, rng.randint(1, 2))
                calls.append(["remove_shapes+add_shape", l2, j2])
    return Case(ses.lines, desc={"random history": calls})


def shape_table_history(n, rng):
    """shapes removed, then every shape's table rebuilt the way an exporter does it: for each shape, one add_shape_mesh
    per mesh of the LOD in order - with an empty value list where the shape leaves the mesh alone"""
    lods_abs = []
    for _ in range(rng.randint(1, 2)):
        lod, base = [], 0
        for _ in range(rng.randint(2, 3)):
            st = rng.choice(list(DECLS))
            v, i = rng.choice([2, 3, 5]), rng.choice([3, 6])
            lod.append({"v": v, "i": i, "strides": list(st), "subs": split(i, 1, base)})
            base += i
        lods_abs.append(lod)
    ses = Session(rng, n, lods_abs)
    ses.remove_shapes()
    plan = []
    for l in range(len(lods_abs)):
        nm = len(lods_abs[l])
        for shape in range(rng.randint(2, 3)):
            pattern = [rng.random() < 0.5 for _ in range(nm)]
            if not any(pattern):
                pattern[rng.randrange(nm)] = True
            for k in range(nm):
                ses.add_shape(l, k, rng.randint(1, 2) if pattern[k] else 0, shape=shape, shape_mesh=k)
            plan.append([l, shape, pattern])
    return Case(ses.lines, desc={"shape tables rebuilt": plan})


def codec_cases(n0, rng, tier):
    """re-encoding a decoded attribute reproduces the stored bytes: every non-NaN half, every byte, the tangent codec"""
    out, n = [], n0
    halves = [h for h in range(65536) if (h >> 10) & 31 != 31 or h & 1023 == 0]      # 63488 finite + 2 infinities
    if tier == "quick":
        halves = halves[::4] + [0, 1, 0x03FF, 0x0400, 0x7BFF, 0x7C00, 0x8000, 0xFBFF, 0xFC00]
    per = 4 * 3000
    for i in range(0, len(halves), per):
        part = halves[i:i + per]
        part += [0] * ((-len(part)) % 4)
        vb = struct.pack("<%dH" % len(part), *part)
        me = mdlcases.mesh(rng, [(4, 14, 0)], 0, len(part) // 4, [0, 0, 0], 1, 0, vdata=[vb])       # UV Half4: four free halves
        b = mdl.build(mdlcases.model(rng, 5, [[me]]))
        out.append(Case([{"op": "mdl.open", "h": 1, "case": n, "bytes": list(b)},
                         {"op": "mdl.write", "h": 1, "case": n, "unedited": True}], desc={"half codec sweep from": part[0]}))
        n += 1
    # bytes: weights, colour (all four lanes), bitangent xyz over all bytes with w in {0, 255}, indices
    els = [(1, 8, 0), (7, 8, 0), (6, 8, 0), (2, 5, 0)]
    vb = b"".join(bytes([v, 255 - v, (v * 7) % 256, (v + 128) % 256]) * 2 + bytes([v, (v + 1) % 256, 255 - v, 255 * (v % 2)])
                  + bytes([v, v, 255 - v, 0]) for v in range(256))
    me = mdlcases.mesh(rng, els, 0, 256, [0, 1, 2], 1, 0, vdata=[vb])
    b = mdl.build(mdlcases.model(rng, 5, [[me]]))
    out.append(Case([{"op": "mdl.open", "h": 1, "case": n, "bytes": list(b)},
                     {"op": "mdl.write", "h": 1, "case": n, "unedited": True}], desc="byte / tangent codec sweep"))
    return out, n + 1


def writable_decl_cases(n0, rng):
    """unedited write of a canonical model for every writable (usage, type) pair, alone and combined"""
    out, n = [], n0
    combos = [[p] for p in mdlcases.WRITABLE] + [[(0, 14), (3, 14), (4, 14), (6, 8)], [(0, 3), (1, 8), (2, 5), (7, 8)], [(0, 2), (3, 2), (4, 3)]]
    for combo in combos:
        els = [(u, t, i % 2) for i, (u, t) in enumerate(combo)]
        used = sorted({e[2] for e in els})
        els = [(u, t, used.index(s)) for (u, t, s) in els]
        me, _ = mdlcases.canonical_mesh(rng, els, 3, [0, 1, 2, 2, 1, 0], 2, 0)
        me2, _ = mdlcases.canonical_mesh(rng, els, 2, [0, 1, 1], 1, 6)
        m = mdlcases.model(rng, 5, [[me, me2]], bones=["j_kosi", "j_ago"], bone_tables=[[0, 1]])
        out.append(Case([{"op": "mdl.open", "h": 1, "case": n, "bytes": list(mdl.build(m))},
                         {"op": "mdl.write", "h": 1, "case": n, "unedited": True}], desc={"unedited write": combo}))
        n += 1
    return out, n


def gap_cases(n0, rng):
    """unedited write of models whose meshes start at aligned indices, leaving gaps between the index lists (as game files do)"""
    out, n = [], n0
    for (c1, s2, c2, s3, c3) in [(3, 8, 6, 16, 3), (5, 6, 4, 16, 2), (9, 16, 3, 24, 6), (1, 2, 1, 4, 1), (7, 8, 9, 24, 3)]:
        els = [(0, 2, 0), (3, 14, 0)]
        a, _ = mdlcases.canonical_mesh(rng, els, 4, [rng.randrange(4) for _ in range(c1)], 1, 0)
        b, _ = mdlcases.canonical_mesh(rng, els, 3, [rng.randrange(3) for _ in range(c2)], 1, s2)
        c, _ = mdlcases.canonical_mesh(rng, els, 5, [rng.randrange(5) for _ in range(c3)], 2, s3)
        m = mdlcases.model(rng, 5, [[a, b, c]])
        out.append(Case([{"op": "mdl.open", "h": 1, "case": n, "bytes": list(mdl.build(m))},
                         {"op": "mdl.write", "h": 1, "case": n, "unedited": True}], desc={"index gaps": [c1, s2, c2, s3, c3]}))
        n += 1
    return out, n


def check(run):
    rng = random.Random(run.seed)
    run.model_check("mc/MC_MdlEdit.tla", "mc/MC_MdlEdit.cfg", workers=14)
    # the same invariants over longer edit histories (the VIEW hides the history): 4 edits in the quick tier (1 059 222 states),
    # 5 in the thorough tier (2 901 858); per-action coverage is read from the 3-edit run above
    run.model_check("mc/MC_MdlEdit.tla", "mc/MC_MdlEdit_4.cfg" if run.tier == "quick" else "mc/MC_MdlEdit_5.cfg", workers=14, coverage=False, xmx="12g")
    hists, st = tlc_generate("mc/MC_MdlEdit.tla", "mc/Gen_MdlEdit.cfg", workers=14)
    run.notes["generator"] = {"histories": len(hists), **st}
    # histories with 65535-vertex meshes are kept to a few (each writes megabytes)
    def big(h):
        return any(c.get("v") == 65535 for c in h["calls"])
    bigs = [h for h in hists if big(h)]
    smalls = [h for h in hists if not big(h)]
    keep = rng.sample(smalls, 700 if run.tier == "quick" else 6000) + rng.sample(bigs, 12 if run.tier == "quick" else 120)
    cases = [history_case(n, h, rng) for n, h in enumerate(keep)]
    n = len(cases)
    wc, n = writable_decl_cases(n, rng)
    cc, n = codec_cases(n, rng, run.tier)
    cases += wc + cc
    for _ in range(60 if run.tier == "quick" else 600):
        cases.append(random_history(n, rng, run.tier)); n += 1
    fx = REPO + "/resources/tests/c0201e0038_top_zeroed.mdl"
    cases.append(Case([{"op": "mdl.open", "h": 1, "case": n, "bytes": list(open(fx, "rb").read())},
                       {"op": "mdl.write", "h": 1, "case": n, "unedited": True}], desc="fixture c0201e0038_top_zeroed.mdl: parse, write"))
    n += 1
    run.rule = ("edit histories of <= 2 calls, one per transition of the bounded edit model (replace with vertex counts 0/1/3/65535 and "
                "index counts 0/3/6/8, add_shape_mesh, remove_shape_meshes over 21 initial models; a seeded sample of them is replayed, "
                "each abstract replace as the real call plus the consistent re-submission of the LOD's following meshes), seeded random "
                "histories of 1..12 replaces with up to 65535 vertices, unedited write of canonical models for every writable (usage, type) "
                "pair, codec sweeps over every finite half and every byte, and the repository's sample model; after every settled edit "
                "the written bytes, their length and the re-parsed geometry are validated; shape tables removed and rebuilt for 2..3 shapes "
                "over 2..3 meshes per LOD with empty value lists where a shape leaves a mesh alone: every part reports exactly the shapes "
                "that were given values on it; all cases non-trivial")
    for _ in range(60 if run.tier == "quick" else 600):
        cases.append(shape_table_history(n, rng)); n += 1
    gc, n = gap_cases(n, rng)
    cases += gc
    run.conform(cases, MODULE, CFG, shards=14, xmx="7g")
    run.assumptions = ["version-5 models with the writer's attribute encodings (position/normal/uv/weights/indices/bitangent/colour)",
                       "geometry of meshes above 2000 vertices is compared by the shim's bit-exact echo test (DESIGN appendix B)"]


def replay(run, rp):
    run.conform([Case(rp["script"])], MODULE, CFG, shards=1)
