--------------------------------- MODULE Tex ---------------------------------
(* C13 - texture files: 80-byte little-endian header (u32 attribute flags,    *)
(* u32 format, u16 width, height, depth, mip count, 3 + 13 u32 offsets) and a  *)
(* payload decoded to width x height x depth RGBA pixels.                     *)
(* Formats: B8G8R8A8 (0x1450), BC1 (0x3420), BC3 (0x3431), BC5 (0x6230), as    *)
(* defined by the Direct3D block-compression specification with the           *)
(* conventional integer arithmetic (bit-replicating 565 expansion, truncating  *)
(* thirds / halves / sevenths / fifths).                                       *)
EXTENDS Naturals, Integers, Sequences, FiniteSets, Words

F_BGRA == 5200   \* 0x1450
F_BC1 == 13344   \* 0x3420
F_BC3 == 13361   \* 0x3431
F_BC5 == 25136   \* 0x6230

Header(b) == [attr |-> FromLE(b, 0), format |-> U16LE(b, 4) + 65536 * U16LE(b, 6),
              width |-> U16LE(b, 8), height |-> U16LE(b, 10), depth |-> U16LE(b, 12)]
\* three-dimensional exactly when the TEXTURE_TYPE3_D flag (0x1000000) is set
Is3D(h) == (h.attr[1] \div 256) % 2 = 1

-----------------------------------------------------------------------------
(* colour endpoints *)
R565(q) == LET r == q \div 2048 IN r * 8 + r \div 4
G565(q) == LET g == (q \div 32) % 64 IN g * 4 + g \div 16
B565(q) == LET bb == q % 32 IN bb * 8 + bb \div 4
RGB(q) == <<R565(q), G565(q), B565(q)>>
\* palette of a BC1 colour block at 0-based offset o of payload p: four <<r,g,b,a>>; a = -1: unconstrained
Bc1Palette(p, o) ==
  LET q0 == U16LE(p, o)
      q1 == U16LE(p, o + 2)
      c0 == RGB(q0)
      c1 == RGB(q1)
      mix(a, b, wa, wb, dv) == [k \in 1..3 |-> (wa * a[k] + wb * b[k]) \div dv]
  IN IF q0 > q1
     THEN << c0 \o <<255>>, c1 \o <<255>>, mix(c0, c1, 2, 1, 3) \o <<255>>, mix(c0, c1, 1, 2, 3) \o <<255>> >>
     ELSE << c0 \o <<255>>, c1 \o <<255>>, mix(c0, c1, 1, 1, 2) \o <<255>>, <<0, 0, 0, -1>> >>
\* 2-bit selector of texel t (0..15) of the colour block at o
Bc1Sel(p, o, t) == (p[o + 5 + t \div 4] \div Pow2(2 * (t % 4))) % 4

(* alpha / single-channel blocks: 8-value palette, 3-bit selectors in 48 bits *)
AlphaPalette(p, o) ==
  LET a0 == p[o + 1]
      a1 == p[o + 2]
  IN IF a0 > a1
     THEN <<a0, a1, (6 * a0 + a1) \div 7, (5 * a0 + 2 * a1) \div 7, (4 * a0 + 3 * a1) \div 7,
            (3 * a0 + 4 * a1) \div 7, (2 * a0 + 5 * a1) \div 7, (a0 + 6 * a1) \div 7>>
     ELSE <<a0, a1, (4 * a0 + a1) \div 5, (3 * a0 + 2 * a1) \div 5, (2 * a0 + 3 * a1) \div 5,
            (a0 + 4 * a1) \div 5, 0, 255>>
AlphaSel(p, o, t) ==
  LET bit == 3 * t
      k == o + 3 + bit \div 8                       \* 1-based index of the byte holding the low bit
      two == p[k] + 256 * (IF bit \div 8 < 5 THEN p[k + 1] ELSE 0)
  IN (two \div Pow2(bit % 8)) % 8

-----------------------------------------------------------------------------
(* pixel addressing: the depth slices are stacked vertically *)
BlockBytes(f) == IF f = F_BC1 THEN 8 ELSE 16
\* expected pixel <<r,g,b,a>> at column x, row yy of the stacked image (all 0-based)
Pixel(h, p, x, yy) ==
  IF h.format = F_BGRA
  THEN LET o == 4 * (yy * h.width + x) IN <<p[o + 3], p[o + 2], p[o + 1], p[o + 4]>>
  ELSE LET nbx == (h.width + 3) \div 4
           o == BlockBytes(h.format) * ((yy \div 4) * nbx + x \div 4)
           t == 4 * (yy % 4) + (x % 4)
       IN CASE h.format = F_BC1 -> Bc1Palette(p, o)[Bc1Sel(p, o, t) + 1]
            [] h.format = F_BC3 -> LET c == Bc1Palette(p, o + 8)[Bc1Sel(p, o + 8, t) + 1]
                                   IN <<c[1], c[2], c[3], AlphaPalette(p, o)[AlphaSel(p, o, t) + 1]>>
            [] h.format = F_BC5 -> <<AlphaPalette(p, o)[AlphaSel(p, o, t) + 1],
                                     AlphaPalette(p, o + 8)[AlphaSel(p, o + 8, t) + 1], 0, 255>>
\* every output pixel reads a texel inside its own block, no clipped texel is read
PayloadNeeded(h) ==
  IF h.format = F_BGRA THEN 4 * h.width * h.height * h.depth
  ELSE BlockBytes(h.format) * ((h.width + 3) \div 4) * ((h.height * h.depth + 3) \div 4)
=============================================================================
