------------------------------- MODULE Names -------------------------------
(* C15 - race/tribe/gender tables, game path formatters, repository order,   *)
(* read-side and patch-side sqpack file names.  Written from the game's own  *)
(* numbering (tribe ids 1..16 = two per race in race order, cXXXX body codes)*)
(* and from the property statement, not from the Rust tables.                *)
EXTENDS Naturals, Sequences, SequencesExt, FiniteSets, FiniteSetsExt, Text

Races   == 1..8      \* Hyur, Elezen, Lalafell, Miqote, Roegadyn, AuRa, Hrothgar, Viera
Tribes  == 1..16
Genders == 0..1      \* male, female

-----------------------------------------------------------------------------
(* Tribes *)
TribesOf(r) == {2 * r - 1, 2 * r}
Valid(r, t, g) == r \in Races /\ g \in Genders /\ t \in TribesOf(r)
ValidTriples == {x \in Races \X Tribes \X Genders : Valid(x[1], x[2], x[3])}

\* structural law, stated for an arbitrary table tr : Races -> SUBSET Tribes
TribesPartition(tr) ==
  /\ \A r \in Races : Cardinality(tr[r]) = 2
  /\ \A r1, r2 \in Races : r1 # r2 => tr[r1] \cap tr[r2] = {}
  /\ UNION {tr[r] : r \in Races} = Tribes

-----------------------------------------------------------------------------
(* Body codes.  A body type is (race, gender) except that the two Hyur       *)
(* tribes are distinct bodies.                                               *)
BodyType(r, t, g) == <<r, g, IF r = 1 THEN t ELSE 0>>

\* the documented table (cXXXX directory numbers of the game)
DocCode(r, t, g) ==
  LET base == CASE r = 1 /\ t = 1 -> 101 [] r = 1 /\ t = 2 -> 301
                [] r = 2 -> 501 [] r = 3 -> 1101 [] r = 4 -> 701 [] r = 5 -> 901
                [] r = 6 -> 1301 [] r = 7 -> 1501 [] r = 8 -> 1701
  IN base + 100 * g

\* structural law for an arbitrary code table c : ValidTriples -> Nat
CodeInjectiveOnBodyTypes(c) ==
  \A x, y \in DOMAIN c :
     BodyType(x[1], x[2], x[3]) # BodyType(y[1], y[2], y[3]) => c[x] # c[y]
\* witnesses of a violation (for reporting)
CodeCollisions(c) ==
  {<<x, y>> \in (DOMAIN c) \X (DOMAIN c) :
     /\ BodyType(x[1], x[2], x[3]) # BodyType(y[1], y[2], y[3])
     /\ c[x] = c[y] /\ x[1] < y[1]}

-----------------------------------------------------------------------------
(* Path formatters (byte sequences) *)
S_CharaHumanC == <<99,104,97,114,97,47,104,117,109,97,110,47,99>>              \* "chara/human/c"
S_SkelMid     == <<47,115,107,101,108,101,116,111,110,47,98,97,115,101,47,98,48,48,48,49,47,115,107,108,95,99>> \* "/skeleton/base/b0001/skl_c"
S_SkelEnd     == <<98,48,48,48,49,46,115,107,108,98>>                          \* "b0001.sklb"
S_CharaEquipE == <<99,104,97,114,97,47,101,113,117,105,112,109,101,110,116,47,101>> \* "chara/equipment/e"
S_ModelC      == <<47,109,111,100,101,108,47,99>>                              \* "/model/c"
S_Obj         == <<47,111,98,106,47>>                                          \* "/obj/"
S_Mdl         == <<46,109,100,108>>                                            \* ".mdl"

SkeletonPath(code) ==
  S_CharaHumanC \o DecPad(code, 4) \o S_SkelMid \o DecPad(code, 4) \o S_SkelEnd

Slots == 0..9   \* head, hands, legs, feet, body, earring, neck, wrists, ring-left, ring-right
SlotAbbr(s) == CASE s = 0 -> <<109,101,116>> [] s = 1 -> <<103,108,118>>   \* met glv
                 [] s = 2 -> <<100,119,110>> [] s = 3 -> <<115,104,111>>   \* dwn sho
                 [] s = 4 -> <<116,111,112>> [] s = 5 -> <<101,97,114>>    \* top ear
                 [] s = 6 -> <<110,101,107>> [] s = 7 -> <<119,114,115>>   \* nek wrs
                 [] s = 8 -> <<114,105,108>> [] s = 9 -> <<114,105,114>>   \* ril rir

EquipFile(code, id, s) ==
  <<99>> \o DecPad(code, 4) \o <<101>> \o DecPad(id, 4) \o <<95>> \o SlotAbbr(s) \o S_Mdl
EquipPath(code, id, s) ==
  S_CharaEquipE \o DecPad(id, 4) \o <<47,109,111,100,101,108,47>> \o EquipFile(code, id, s)

\* reference deconstructor of an equipment *file name* cCCCCeIIII_sss.mdl
Deconstruct(f) ==
  IF Len(f) < 14 THEN <<-1, -1>>
  ELSE LET id == ParseDec(SubSeq(f, 7, 10))
           ab == SubSeq(f, 12, 14)
           ss == {s \in Slots : SlotAbbr(s) = ab}
       IN IF id < 0 \/ ss = {} THEN <<-1, -1>> ELSE <<id, CHOOSE s \in ss : TRUE>>

CharCats == 0..4  \* body hair face tail ear
CatDir(c)    == CASE c = 0 -> <<98,111,100,121>> [] c = 1 -> <<104,97,105,114>>
                  [] c = 2 -> <<102,97,99,101>> [] c = 3 -> <<116,97,105,108>>
                  [] c = 4 -> <<122,101,97,114>>
CatAbbr(c)   == CASE c = 0 -> <<116,111,112>> [] c = 1 -> <<104,105,114>>
                  [] c = 2 -> <<102,97,99>> [] c = 3 -> <<116,105,108>>
                  [] c = 4 -> <<122,101,114>>
CatPrefix(c) == CASE c = 0 -> <<98>> [] c = 1 -> <<104>> [] c = 2 -> <<102>>
                  [] c = 3 -> <<116>> [] c = 4 -> <<122>>
CharacterPath(cat, ver, code) ==
  S_CharaHumanC \o DecPad(code, 4) \o S_Obj \o CatDir(cat) \o <<47>> \o CatPrefix(cat)
    \o DecPad(ver, 4) \o S_ModelC \o DecPad(code, 4) \o CatPrefix(cat) \o DecPad(ver, 4)
    \o <<95>> \o CatAbbr(cat) \o S_Mdl

-----------------------------------------------------------------------------
(* Repository order.  A repository is its number: 0 = base, n = expansion n. *)
IsBaseThenNumber(seq) == \A i \in 1..(Len(seq) - 1) : seq[i] < seq[i + 1]

\* the comparator as designed in the library ("base is always less")
CmpLess(a, b) == IF a = 0 THEN TRUE ELSE IF b = 0 THEN FALSE ELSE a < b
\* stable insertion of x into an ordered sequence using only CmpLess
InsertBy(seq, x) ==
  LET ks == {k \in 1..Len(seq) : CmpLess(x, seq[k])}
      k  == IF ks = {} THEN Len(seq) + 1 ELSE Min(ks)
  IN SubSeq(seq, 1, k - 1) \o <<x>> \o SubSeq(seq, k, Len(seq))
SortBy(seq) == FoldLeft(InsertBy, <<>>, seq)
RefSorted(S) == SetToSortSeq(S, <)

-----------------------------------------------------------------------------
(* SqPack file names *)
Categories == {0, 1, 2, 3, 4, 5, 6, 7, 8, 9, 10, 11, 12, 18, 19}
Platforms  == 0..4
PlatTag(p) == CASE p = 0 -> <<119,105,110,51,50>> [] p = 1 -> <<112,115,51>>
                [] p = 2 -> <<112,115,52>> [] p = 3 -> <<112,115,53>>
                [] p = 4 -> <<108,121,115>>
S_Index == <<46,105,110,100,101,120>>
S_Dat   == <<46,100,97,116>>

\* read side: two-hex-digit category, two-digit expansion, two-digit chunk
ReadStem(cat, ex, chunk, p) ==
  HexPad(cat, 2) \o DecPad(ex, 2) \o DecPad(chunk, 2) \o <<46>> \o PlatTag(p)
ReadIndexName(cat, ex, chunk, p)  == ReadStem(cat, ex, chunk, p) \o S_Index
ReadIndex2Name(cat, ex, chunk, p) == ReadIndexName(cat, ex, chunk, p) \o <<50>>
ReadDatName(cat, ex, chunk, p, d) == ReadStem(cat, ex, chunk, p) \o S_Dat \o Dec(d)

\* patch side (ZiPatch): main id, sub id = expansion << 8 | chunk, file id
SubId(ex, chunk) == ex * 256 + chunk
PatchStem(main, sub, p) == HexPad(main, 2) \o HexPad(sub, 4) \o <<46>> \o PlatTag(p)
PatchDatName(main, sub, file, p) == PatchStem(main, sub, p) \o S_Dat \o Dec(file)
PatchIndexName(main, sub, file, p) ==
  PatchStem(main, sub, p) \o S_Index \o (IF file = 0 THEN <<>> ELSE Dec(file))
ExFolder(ex) == IF ex = 0 THEN <<102,102,120,105,118>> ELSE <<101,120>> \o Dec(ex)
=============================================================================
