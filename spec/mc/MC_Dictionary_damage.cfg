SPECIFICATION Spec
CONSTANT Units = {97}
CONSTANT Depth = 2
CONSTANT Page = 1
CONSTANT Damage = TRUE
CONSTANT Smalls <- SmallsNone
INVARIANT StackBounded
INVARIANT Agrees
PROPERTY Terminates
CHECK_DEADLOCK FALSE
