---------------------------- MODULE MC_UserFiles ----------------------------
(* Position law, checksum and round trip of the character preset on an        *)
(* enumerated domain: every field takes the boundary values with the others at *)
(* defaults; checksum against the four repository fixtures' values.           *)
EXTENDS UserFiles, TLC
VARIABLE c      \* [field index, value, comment length]
Init == c \in [f : 1..27, v : {0, 1, 127, 128, 255}, n : {0, 1, 162, 163}]
Next == UNCHANGED c
Default == <<1, 0, 1, 50, 1, 1, 1, 0, 1, 1, 1, 1, 0, 1, 1, 1, 1, 1, 1, 1, 0, 0, 0, 0, 0, 1, 1>>
R == [version |-> 4, fields |-> [Default EXCEPT ![c.f] = c.v], timestamp |-> <<168, 108, 204, 103>>,
      comment |-> [i \in 1..c.n |-> 65 + (i % 26)]]
PositionLaw ==
  LET b == EncodeChar(R)
  IN /\ Len(b) = 212 /\ SubSeq(b, 1, 4) = <<20, 255, 19, 32>> /\ b[5] = 4
     /\ b[FieldPos(c.f) + 1] = c.v
     /\ \A i \in 1..27 : b[FieldPos(i) + 1] = R.fields[i]
     /\ SubSeq(b, 45, 48) = R.timestamp /\ SubSeq(b, 49, 48 + c.n) = R.comment
     /\ SubSeq(b, 9, 12) = LE32n(Checksum(b))
     /\ DecodeChar(b) = R
     /\ EncodeChar(DecodeChar(b)) = b
\* the shadowbringers fixture's appearance block, timestamp and comment give its stored checksum 0x18151302
Fixture == (c.f = 1 /\ c.v = 0 /\ c.n = 0) =>
  LET r == [version |-> 4, fields |-> <<8,1,1,50,15,1,8,0,12,43,53,0,4,0,2,43,131,2,1,131,171,50,2,100,3,131,160>>,
            timestamp |-> <<168, 108, 204, 103>>,
            comment |-> <<83,104,97,100,111,119,98,114,105,110,103,101,114,115,32,67,111,109,109,101,110,116,32,84,101,120,116>>]
  IN SubSeq(EncodeChar(r), 9, 12) = <<2, 19, 21, 24>>
MarkerLaw == (c.f = 1 /\ c.v = 0 /\ c.n = 0) =>
  /\ SubW(<<15, 22229>>, Marker) = <<0, 5269>>          \* 1005269 - 1000000
  /\ SubW(AddW(<<0, 64>>, Marker), Marker) = <<0, 64>>   \* ids overlapping the marker's bits survive
  /\ SubW(Marker, Marker) = Zero32
=============================================================================
