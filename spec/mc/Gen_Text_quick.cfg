SPECIFICATION Spec
CONSTANTS MaxCats = 2  MaxLines = 1  MaxCalls = 3  Emit = TRUE
VIEW view
CHECK_DEADLOCK FALSE
INVARIANT EmitHistory
