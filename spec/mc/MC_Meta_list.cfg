INIT InitList
NEXT Stutter
INVARIANT ListRoundTrip
INVARIANT DecAddLaws
CHECK_DEADLOCK FALSE
