SPECIFICATION Spec
CONSTANTS MaxEdits = 2  Emit = TRUE  RuntimeBase = 1000
VIEW view
CHECK_DEADLOCK FALSE
INVARIANT EmitHistory
