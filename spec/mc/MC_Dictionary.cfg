SPECIFICATION Spec
CONSTANT Units = {97, 98}
CONSTANT Depth = 1
CONSTANT Page = 2
CONSTANT Damage = FALSE
CONSTANT Smalls <- SmallsDef
INVARIANT Result
INVARIANT NeverBad
INVARIANT PrefixSoFar
INVARIANT StackBounded
INVARIANT Agrees
CHECK_DEADLOCK FALSE
