---------------------------- MODULE MC_Lifecycle ----------------------------
(* Bounded model of Lifecycle.tla: two repositories, two chunks, two paths     *)
(* (one naming the base game, one naming the expansion), every order of        *)
(* open / lookup / patch / needs_repair / perform_repair up to MaxCalls.       *)
(* MC_Lifecycle.cfg checks what holds of the library as implemented;           *)
(* MC_Lifecycle_ideal.cfg states what a user would like to hold and does not - *)
(* TLC's counterexamples are the shortest histories that show it (DESIGN 11.6).*)
EXTENDS Lifecycle, Json, SequencesExt

CONSTANTS MaxCalls, Emit
MRepos == {0, 1}
MChunks == {0, 1}
MPaths == {"pa", "pb"}
MNames(p) == IF p = "pa" THEN 0 ELSE 1

Contents == {<< >>, [p \in {"pa"} |-> 1], [p \in {"pb"} |-> 1], [p \in {"pa", "pb"} |-> 2]}
InitialIdx == { << >>,
                [k \in {<<0, 0>>} |-> [p \in {"pa", "pb"} |-> 1]],
                [k \in {<<0, 0>>, <<1, 0>>} |-> IF k = <<0, 0>> THEN [p \in {"pa"} |-> 1] ELSE [p \in {"pb"} |-> 1]],
                [k \in {<<0, 1>>, <<1, 1>>} |-> IF k = <<0, 1>> THEN [p \in {"pa"} |-> 1] ELSE [p \in {"pb"} |-> 1]] }
Worlds == {[dirs |-> d, ver |-> v, bck |-> b, idx |-> i] :
             d \in {{}, {1}}, v \in SUBSET {<<"game", 0>>, <<"repo", 1>>}, b \in SUBSET {0, 1}, i \in InitialIdx}
\* a world is consistent when nothing lives in a directory that does not exist
Consistent(w) == /\ \A k \in DOMAIN w.idx : HasDir(w, k[1])
                 /\ (<<"repo", 1>> \in w.ver \/ 1 \in w.bck) => 1 \in w.dirs
Deltas == {[k |-> "write", repo |-> r, chunk |-> c, content |-> x] : r \in MRepos, c \in MChunks, x \in Contents \ {<< >>}}
          \cup {[k |-> "delete", repo |-> r, chunk |-> c] : r \in MRepos, c \in MChunks}

VARIABLES disk, view, call, dirty, hist
vars == <<disk, view, call, dirty, hist>>
mview == <<disk, view, call, dirty>>
None == [op |-> "none"]
Init == /\ disk \in {w \in Worlds : Consistent(w)}
        /\ view = DoOpen(disk) /\ call = None /\ dirty = FALSE
        /\ hist = <<[op |-> "open", world |-> disk]>>
Log(c) == hist' = Append(hist, c)
Open == /\ view' = DoOpen(disk) /\ dirty' = FALSE /\ call' = [op |-> "open"] /\ Log([op |-> "reopen"]) /\ UNCHANGED disk
Query(p) == LET r == DoQuery(disk, view, p)
            IN /\ view' = r.view /\ call' = [op |-> "query", path |-> p, ans |-> r.ans] /\ Log([op |-> "query", path |-> p])
               /\ UNCHANGED <<disk, dirty>>
Patch(d) == /\ (d.k = "delete" => <<d.repo, d.chunk>> \in DOMAIN disk.idx)
            /\ disk' = DoPatch(disk, d) /\ dirty' = TRUE /\ call' = [op |-> "patch"] /\ Log([op |-> "patch", delta |-> d])
            /\ UNCHANGED view
NeedsRepair == /\ call' = [op |-> "needs_repair", todo |-> DoNeedsRepair(disk, view)] /\ Log([op |-> "needs_repair"])
               /\ UNCHANGED <<disk, view, dirty>>
PerformRepair == LET todo == DoNeedsRepair(disk, view)
                 IN /\ todo # {}
                    /\ disk' = DoRepair(disk, todo) /\ dirty' = TRUE
                    /\ call' = [op |-> "perform_repair", todo |-> todo, before |-> disk] /\ Log([op |-> "perform_repair"])
                    /\ UNCHANGED view
Next == /\ Len(hist) <= MaxCalls
        /\ \/ Open \/ NeedsRepair \/ PerformRepair
           \/ \E p \in MPaths : Query(p)
           \/ \E d \in Deltas : Patch(d)
Spec == Init /\ [][Next]_vars

-----------------------------------------------------------------------------
\* ---- what holds of the library as implemented
\* as long as nothing changed the disk since the handle was opened, every answer is a fresh handle's answer
CleanHandleIsFresh == (~dirty /\ call.op = "query") => call.ans = FreshAnswer(disk, call.path)
CleanRepairViewIsFresh == (~dirty /\ call.op = "needs_repair") => call.todo = FreshNeedsRepair(disk)
\* the memo only holds files that existed when they were parsed, and on a clean handle it equals the disk
SnapshotOfDisk == ~dirty => \A k \in DOMAIN view.snap : k \in DOMAIN disk.idx /\ view.snap[k] = disk.idx[k]
\* a lookup never forgets: the memo grows
MemoGrows == [][\A k \in DOMAIN view.snap : call'.op # "open" => (k \in DOMAIN view'.snap /\ view'.snap[k] = view.snap[k])]_vars
\* a repair touches only repositories whose version was unreadable when the handle was opened ...
RepairTouchesOnlyReported ==
  call.op = "perform_repair" =>
     \A k \in DOMAIN call.before.idx : k \notin DOMAIN disk.idx => k[1] \in {t.repo : t \in call.todo}
\* ... and a restore never removes anything
RestoreKeepsData ==
  call.op = "perform_repair" =>
     \A t \in call.todo : t.action = "restore" => \A k \in FilesOf(call.before, t.repo) : k \in DOMAIN disk.idx
\* for an expansion the repair converges: a handle opened afterwards no longer reports it
ExpansionRepairConverges ==
  call.op = "perform_repair" => \A t \in call.todo : t.repo # 0 => t.repo \notin {u.repo : u \in FreshNeedsRepair(disk)}

\* ---- what a user would like to hold and does not (MC_Lifecycle_ideal.cfg, one at a time)
\* the handle answers like a fresh one whatever happened since it was opened
AlwaysFresh == call.op = "query" => call.ans = FreshAnswer(disk, call.path)
\* a repair never empties a repository whose version file is (by now) present
RepairSparesVersioned ==
  call.op = "perform_repair" =>
     \A t \in call.todo : (t.action = "missing" /\ VersionReadAt(t.repo) \in call.before.ver) => FilesOf(call.before, t.repo) \subseteq DOMAIN disk.idx
\* a repair converges for the base game too
RepairConverges == call.op = "perform_repair" => FreshNeedsRepair(disk) = {}

IdxList(d) == LET ks == SetToSeq(DOMAIN d.idx)
              IN [i \in 1..Len(ks) |-> [repo |-> ks[i][1], chunk |-> ks[i][2],
                                        ents |-> LET ps == SetToSeq(DOMAIN d.idx[ks[i]]) IN [j \in 1..Len(ps) |-> [path |-> ps[j], loc |-> d.idx[ks[i]][ps[j]]]]]]
WorldJson(d) == [dirs |-> SetToSeq(d.dirs), game_ver |-> <<"game", 0>> \in d.ver, repo_ver |-> SetToSeq({r \in MRepos : <<"repo", r>> \in d.ver}),
                 bck |-> SetToSeq(d.bck), idx |-> IdxList(d)]
HistJson == [i \in 1..Len(hist) |->
               IF hist[i].op = "open" THEN [op |-> "open", world |-> WorldJson(hist[i].world)]
               ELSE IF hist[i].op = "patch"
                    THEN [op |-> "patch", k |-> hist[i].delta.k, repo |-> hist[i].delta.repo, chunk |-> hist[i].delta.chunk,
                          ents |-> IF hist[i].delta.k = "write"
                                   THEN LET ps == SetToSeq(DOMAIN hist[i].delta.content) IN [j \in 1..Len(ps) |-> [path |-> ps[j], loc |-> hist[i].delta.content[ps[j]]]]
                                   ELSE << >>]
               ELSE hist[i]]
EmitHistory == (Emit /\ call.op # "none") => PrintT("REPLAY|" \o ToJson(HistJson))
=============================================================================
