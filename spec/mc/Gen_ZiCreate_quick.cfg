INIT InitPair
NEXT NextPair
CONSTANTS Block = 2  HeaderCells = 16  Zero = 0  Emit = TRUE
CONSTANT Conts <- Conts3
CONSTANT Paths <- Paths3
CONSTANT EmptyHead <- MCEmptyHead
INVARIANT EmitPair
CHECK_DEADLOCK FALSE
