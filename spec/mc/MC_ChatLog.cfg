SPECIFICATION Spec
CONSTANT MaxEntries = 3
INVARIANT ReadsBackWritten
INVARIANT Formed
INVARIANT Tiles
CHECK_DEADLOCK FALSE
