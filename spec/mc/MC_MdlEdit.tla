----------------------------- MODULE MC_MdlEdit -----------------------------
(* Every edit history of <= MaxEdits calls over small models: the derived      *)
(* header is self-consistent in every reachable state.  Also the generator of *)
(* edit histories (one per transition).                                        *)
EXTENDS MdlEdit, TLC, Json
CONSTANTS MaxEdits, Emit

VCounts == {0, 1, 3, 65535}
ICounts == {0, 3, 6, 8}
Shapes == {[strides |-> <<12>>, nsub |-> 1], [strides |-> <<20, 4>>, nsub |-> 2], [strides |-> <<4, 12, 4>>, nsub |-> 1]}
\* contiguous sub-mesh split of i indices starting at base into n parts (first part takes the remainder)
Split(i, n, base) == IF n = 1 THEN << <<i, base>> >> ELSE << <<i - i \div 2, base>>, <<i \div 2, base + i - i \div 2>> >>
MeshOf(sh, v, i, base) == [v |-> v, i |-> i, strides |-> sh.strides, subs |-> Split(i, sh.nsub, base)]
\* initial models: 1 LOD with 1..2 meshes, or 2 LODs with 1 mesh each
InitModels ==
  {<< <<MeshOf(a, 3, 6, 0)>> >> : a \in Shapes}
    \cup {<< <<MeshOf(a, 3, 6, 0), MeshOf(b, 1, 3, 6)>> >> : a, b \in Shapes}
    \cup {<< <<MeshOf(a, 3, 6, 0)>>, <<MeshOf(b, 1, 3, 0)>> >> : a, b \in Shapes}

VARIABLES lods, shapes, pre, call, hist     \* shapes = [meshes, values]: sizes of the shape tables
vars == <<lods, shapes, pre, call, hist>>
view == <<lods, shapes, pre, call>>
None == [op |-> "none"]
Init == /\ lods \in InitModels /\ shapes = [meshes |-> 0, values |-> 0] /\ pre = lods /\ call = None
        /\ hist = [init |-> lods, calls |-> <<>>]
Base(l, j) == SumSeq([k \in 1..(j - 1) |-> lods[l][k].i])
\* replace one mesh's geometry; the caller re-supplies consistent ranges for the following meshes of the LOD
Replace(l, j, v, i) ==
  LET m == lods[l][j]
      newLod == [k \in 1..Len(lods[l]) |->
                   IF k < j THEN lods[l][k]
                   ELSE IF k = j THEN [m EXCEPT !.v = v, !.i = i, !.subs = Split(i, Len(m.subs), Base(l, j))]
                   ELSE [lods[l][k] EXCEPT !.subs = Split(lods[l][k].i, Len(lods[l][k].subs),
                                                          Base(l, j) + i + SumSeq([q \in 1..(k - 1 - j) |-> lods[l][j + q].i]))]]
      c == [op |-> "replace", lod |-> l - 1, part |-> j - 1, v |-> v, i |-> i]
  IN /\ pre' = lods /\ lods' = [lods EXCEPT ![l] = newLod] /\ call' = c
     /\ hist' = [hist EXCEPT !.calls = Append(@, c)] /\ UNCHANGED shapes
RemoveShapes == /\ pre' = lods /\ shapes' = [meshes |-> 0, values |-> 0] /\ call' = [op |-> "remove_shapes"]
                /\ hist' = [hist EXCEPT !.calls = Append(@, [op |-> "remove_shapes"])] /\ UNCHANGED lods
AddShape(l, j, n) ==
  LET c == [op |-> "add_shape", lod |-> l - 1, part |-> j - 1, n |-> n]
  IN /\ lods[l][j].i > 0 /\ lods[l][j].v + n <= 65535
     /\ pre' = lods /\ lods' = [lods EXCEPT ![l][j].v = @ + n]
     /\ shapes' = [meshes |-> shapes.meshes + 1, values |-> shapes.values + n] /\ call' = c
     /\ hist' = [hist EXCEPT !.calls = Append(@, c)]
Next == /\ Len(hist.calls) < MaxEdits
        /\ \/ \E l \in 1..Len(lods) : \E j \in 1..Len(lods[l]) : \E v \in VCounts, i \in ICounts : Replace(l, j, v, i)
           \/ RemoveShapes
           \/ \E l \in 1..Len(lods) : \E j \in 1..Len(lods[l]) : \E n \in {1, 2} : AddShape(l, j, n)
Spec == Init /\ [][Next]_vars

H == UpdateHeaders(lods, 12 * shapes.meshes + 4 * shapes.values)
Inv_SectionsDisjoint == SectionsDisjoint(H)
Inv_SectionsInBounds == SectionsInBounds(H)
Inv_IndexPadded16 == IndexPadded16(H)
Inv_Sizes == SizesAreCountTimesStride(lods, H)
Inv_StreamsTile == StreamsTile(lods, H)
Inv_MeshIndexRanges == MeshIndexRangesDisjoint(lods, H)
Inv_Consistent == \A l \in 1..Len(lods) : ConsistentSubs(lods[l])
EmitHistory == (Emit /\ call.op # "none") => PrintT("REPLAY|" \o ToJson(hist))
=============================================================================
