------------------------------ MODULE MC_Floats ------------------------------
(* Every half pattern: the conversion is a sign-preserving, order-preserving   *)
(* embedding with the documented special values; known anchors.               *)
EXTENDS Floats, TLC
VARIABLE h
Init == h \in 0..65535
Next == UNCHANGED h
\* magnitude as an orderable pair
Mag(w) == <<w[1] % 32768, w[2]>>
Less(a, b) == a[1] < b[1] \/ (a[1] = b[1] /\ a[2] < b[2])
HalfLaws ==
  LET w == HalfToF32(h)
  IN /\ w[1] \div 32768 = h \div 32768                                         \* sign kept
     /\ IsNaNHalf(h) <=> IsNaNF32(w)
     /\ (h % 32768 < 31744 /\ h % 32768 > 0) => Less(Mag(HalfToF32(h - 1)), Mag(w))   \* strictly increasing in magnitude
     /\ (h = 15360 => w = OneF32) /\ (h = 48128 => w = MinusOneF32)            \* 0x3C00, 0xBC00
     /\ (h = 1 => w = <<13184, 0>>)                                            \* 2^-24 = 0x33800000
     /\ (h = 1023 => w = <<14463, 49152>>)                                     \* largest subnormal 0x387FC000
     /\ (h = 31743 => w = <<18303, 57344>>)                                    \* 65504 = 0x477FE000
     /\ (h = 31744 => w = <<32640, 0>>)                                        \* +inf
     /\ (h = 0 => w = Zero32 /\ U16ToF32(0) = Zero32 /\ U16ToF32(1) = OneF32 /\ U16ToF32(65535) = <<18303, 65280>>
               /\ Unorm8ToF32(255) = OneF32 /\ Unorm8ToF32(0) = Zero32 /\ Unorm8ToF32(51) = <<15948, 52429>>  \* 0.2
               /\ Tangent8ToF32(255) = OneF32 /\ Tangent8ToF32(0) = MinusOneF32)
=============================================================================
