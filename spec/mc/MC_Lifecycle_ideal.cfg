\* What a user of one long-lived handle would like to hold and does not: each invariant is violated; TLC's
\* counterexample is the shortest history (DESIGN 11.6).  Not run by any registered check.
SPECIFICATION Spec
CONSTANTS
  Repos <- MRepos
  Chunks <- MChunks
  Paths <- MPaths
  Names <- MNames
  MaxCalls = 4
  Emit = FALSE
VIEW mview
INVARIANT AlwaysFresh
INVARIANT RepairSparesVersioned
INVARIANT RepairConverges
CHECK_DEADLOCK FALSE
