INIT InitRepo
NEXT NextRepo
CONSTANT Universe = {0, 1, 2, 3, 5, 9}
INVARIANT SortedIsBaseThenNumber
CHECK_DEADLOCK FALSE
