SPECIFICATION Spec
CONSTANT N = 4
INVARIANT OnChain
INVARIANT LinkMatchesItem
INVARIANT Result
INVARIANT FoldAgrees
PROPERTY Climbs
PROPERTY Terminates
CHECK_DEADLOCK FALSE
