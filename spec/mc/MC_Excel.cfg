INIT Init
NEXT Next
CONSTANT Emit = FALSE
INVARIANT RoundTrip
INVARIANT NameLaws
CHECK_DEADLOCK FALSE
