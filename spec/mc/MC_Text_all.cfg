SPECIFICATION Spec
CONSTANTS MaxCats = 2  MaxLines = 2  MaxCalls = 1000000  Emit = FALSE
VIEW view
INVARIANT RoundTrip
INVARIANT CanonicalReproduced
INVARIANT StaysInDomain
INVARIANT SetValueLaw
INVARIANT QueriesPure
INVARIANT HasKeyAgrees
INVARIANT HasCategoryAgrees
INVARIANT SetIdempotent
INVARIANT ExlLaw
CHECK_DEADLOCK FALSE
