INIT InitPair
NEXT NextPair
CONSTANTS Block = 2  HeaderCells = 16  Zero = 0  
CONSTANT EmptyHead <- MCEmptyHead
INVARIANT CreateLaw
CHECK_DEADLOCK FALSE
