INIT InitPair
NEXT NextPair
CONSTANTS Block = 2  HeaderCells = 16  Zero = 0  Emit = FALSE
CONSTANT Conts <- Conts3
CONSTANT Paths <- Paths4
CONSTANT EmptyHead <- MCEmptyHead
INVARIANT CreateLaw
CHECK_DEADLOCK FALSE
