----------------------------- MODULE MC_Hashes -----------------------------
(* Design-level checks of Hashes.tla against published values and against    *)
(* the bit-serial definition; s ranges over a small exhaustive string domain.*)
EXTENDS Hashes, TLC, FiniteSets

VARIABLE s
Alpha == {0, 47, 65, 97, 122, 255}
Init == s \in UNION {[1..n -> Alpha] : n \in 0..3}
Next == UNCHANGED s

S_123456789 == <<49,50,51,52,53,54,55,56,57>>
S_abc == <<97,98,99>>
S_fips56 == <<97,98,99,100,98,99,100,101,99,100,101,102,100,101,102,103,101,102,103,104,102,103,104,105,103,104,105,106,104,105,106,107,105,106,107,108,106,107,108,109,107,108,109,110,108,109,110,111,109,110,111,112,110,111,112,113>>
Hex(bs) == bs
Once == s = <<>>
Published == Once =>
  /\ ZlibCrc(S_123456789) = <<52212, 14630>>                       \* CBF43926
  /\ Jamcrc(S_123456789) = <<13323, 50905>>                        \* 340BC6D9
  /\ \A i \in 0..255 : \A c \in {Zero32, Ones32, <<4660, 22136>>} :
        CrcByte(c, i) = CrcByteSerial(c, i)
  /\ CrcTable[1] = <<30471, 12438>> /\ CrcTable[255] = <<11522, 61325>>  \* 77073096, 2D02EF8D
  /\ Sha1(<<>>) = <<218,57,163,238,94,107,75,13,50,85,191,239,149,96,24,144,175,216,7,9>>
  /\ Sha1(S_abc) = <<169,153,62,54,71,6,129,106,186,62,37,113,120,80,194,108,156,208,216,157>>
  /\ Sha1(S_fips56) = <<132,152,62,68,28,59,210,110,186,174,74,161,249,81,41,229,229,70,112,241>>
  \* shader keys from the repository's own test (PASS_0 -> C5A5389C)
  /\ CrcZeroInit(<<80,65,83,83,95,48>>) = <<50597, 14492>>
Laws ==
  /\ Jamcrc(s) = NotW(ZlibCrc(s))
  /\ PathHash(s) = PathHash(Lower(s))
  /\ PathHash([i \in 1..Len(s) |-> IF IsLower(s[i]) THEN s[i] - 32 ELSE s[i]]) = PathHash(s)
  /\ CrcRun(Ones32, s) = FoldLeft(CrcByteSerial, Ones32, s)
  /\ Len(Pad(s)) % 64 = 0 /\ Len(Sha1(s)) = 20
PadBoundaries == Once =>
  \A n \in {0, 1, 54, 55, 56, 57, 63, 64, 65, 118, 119, 120, 121, 127, 128} :
     LET m == Pad([i \in 1..n |-> 97])
     IN /\ Len(m) = (IF n % 64 < 56 THEN (n \div 64 + 1) * 64 ELSE (n \div 64 + 2) * 64)
        /\ m[n + 1] = 128
        /\ m[Len(m)] = (n * 8) % 256 /\ m[Len(m) - 1] = (n * 8) \div 256
=============================================================================
