------------------------------ MODULE MC_Names ------------------------------
(* Bounded exhaustive checks of Names.tla's own definitions (design level).  *)
(* One variable s; each cfg picks an Init/Next pair.                         *)
EXTENDS Names, TLC

VARIABLE s
Stutter == UNCHANGED s

\* --- tables -------------------------------------------------------------
InitTriples == s \in ValidTriples
DocTribes == [r \in Races |-> TribesOf(r)]
DocTable  == [x \in ValidTriples |-> DocCode(x[1], x[2], x[3])]
TablesOk ==
  /\ TribesPartition(DocTribes)
  /\ CodeInjectiveOnBodyTypes(DocTable)
  /\ DocCode(s[1], s[2], s[3]) \in 101..1801
\* skeleton paths differ whenever body types differ
SkeletonInjective ==
  \A y \in ValidTriples :
     BodyType(s[1], s[2], s[3]) # BodyType(y[1], y[2], y[3])
       => SkeletonPath(DocTable[s]) # SkeletonPath(DocTable[y])

\* --- equipment ------------------------------------------------------------
EquipIds == 0..9999
InitEquip == s \in [id : EquipIds, slot : Slots]
EquipRoundTrip ==
  \A code \in {101, 1801} :
     Deconstruct(EquipFile(code, s.id, s.slot)) = <<s.id, s.slot>>
\* equipment and character paths are injective in (code, id, slot) on a boundary domain
BIds == {0, 1, 9, 10, 99, 100, 999, 1000, 9998, 9999}
BCodes == {101, 201, 1001, 1101, 1801}
Once == s.id = 0 /\ s.slot = 0      \* evaluate a constant-level law in one state only
EquipInjective == Once =>
  LET D == BCodes \X BIds \X Slots
  IN Cardinality({EquipPath(x[1], x[2], x[3]) : x \in D}) = Cardinality(D)
CharInjective == Once =>
  LET D == CharCats \X BIds \X BCodes
  IN Cardinality({CharacterPath(x[1], x[2], x[3]) : x \in D}) = Cardinality(D)

\* --- repository discovery and ordering --------------------------------------
CONSTANT Universe            \* e.g. {0, 1, 2, 3, 5, 9}
InitRepo == s = [disc |-> <<>>, sorted |-> FALSE]
Discover(r) == /\ ~s.sorted /\ r \notin Range(s.disc)
               /\ s' = [s EXCEPT !.disc = Append(@, r)]
Sort == /\ ~s.sorted
        /\ s' = [disc |-> SortBy(s.disc), sorted |-> TRUE]
NextRepo == (\E r \in Universe : Discover(r)) \/ Sort
SortedIsBaseThenNumber ==
  s.sorted => /\ IsBaseThenNumber(s.disc)
              /\ s.disc = RefSorted(Range(s.disc))

\* --- file names -------------------------------------------------------------
InitFiles == s \in [cat : Categories, ex : 0..9, chunk : 0..9, plat : Platforms, dat : 0..7]
ReadEqualsPatch ==
  /\ ReadDatName(s.cat, s.ex, s.chunk, s.plat, s.dat)
       = PatchDatName(s.cat, SubId(s.ex, s.chunk), s.dat, s.plat)
  /\ ReadIndexName(s.cat, s.ex, s.chunk, s.plat)
       = PatchIndexName(s.cat, SubId(s.ex, s.chunk), 0, s.plat)
  /\ ReadIndex2Name(s.cat, s.ex, s.chunk, s.plat)
       = PatchIndexName(s.cat, SubId(s.ex, s.chunk), 2, s.plat)
FileDomain == Categories \X (0..9) \X (0..9) \X Platforms \X (0..7)
NameInjective == (s.cat = 0 /\ s.ex = 0 /\ s.chunk = 0 /\ s.plat = 0 /\ s.dat = 0) =>
  Cardinality({ExFolder(x[2]) \o <<47>> \o ReadDatName(x[1], x[2], x[3], x[4], x[5]) : x \in FileDomain})
     = Cardinality(FileDomain)
\* beyond the domain the two sides part (documented limit of the agreement)
AgreementLimit ==
  ReadDatName(0, 10, 0, 0, 0) # PatchDatName(0, SubId(10, 0), 0, 0)
=============================================================================
