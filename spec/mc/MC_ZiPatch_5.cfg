SPECIFICATION Spec
CONSTANTS Block = 2  HeaderCells = 16  Zero = 0  MaxLen = 5  Emit = FALSE
CONSTANT EmptyHead <- MCEmptyHead
INVARIANT OkIffEof
INVARIANT NoErrOnWellFormed
INVARIANT NamesAreCanonical
INVARIANT FoldAgrees
INVARIANT Landing
PROPERTY Frame
CHECK_DEADLOCK FALSE
