INIT InitFiin
NEXT Stutter
INVARIANT FiinRoundTrip
CHECK_DEADLOCK FALSE
