SPECIFICATION Spec
CONSTANTS
  Repos <- MRepos
  Chunks <- MChunks
  Paths <- MPaths
  Names <- MNames
  MaxCalls = 1000000
  Emit = FALSE
VIEW mview
INVARIANT CleanHandleIsFresh
INVARIANT CleanRepairViewIsFresh
INVARIANT SnapshotOfDisk
INVARIANT RepairTouchesOnlyReported
INVARIANT RestoreKeepsData
INVARIANT ExpansionRepairConverges
PROPERTY MemoGrows
CHECK_DEADLOCK FALSE
