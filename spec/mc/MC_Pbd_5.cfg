SPECIFICATION Spec
CONSTANT N = 5
INVARIANT OnChain
INVARIANT LinkMatchesItem
INVARIANT Result
INVARIANT FoldAgrees
PROPERTY Climbs
PROPERTY Terminates
CHECK_DEADLOCK FALSE
