SPECIFICATION Spec
CONSTANTS MaxCalls = 1000000  Emit = FALSE
CONSTANT KeyFn <- MemoKey
CONSTANT CatFn <- MemoCat
CONSTANT RepoFn <- MemoRepo
CONSTANT Cat <- ByteCat
CONSTANT Size <- ByteSize
CONSTANT Lit <- ByteLit
VIEW view
INVARIANT AnswerIsReference
INVARIANT HistoryFree
INVARIANT CachePure
INVARIANT CaseFree
INVARIANT FallbackToBase
INVARIANT UnknownCategoryAbsent
INVARIANT Unambiguous
CHECK_DEADLOCK FALSE
