---------------------------- MODULE MC_MtrlShpk ----------------------------
(* Selector arithmetic and node resolution of MtrlShpk.tla on an enumerated   *)
(* domain: the polynomial against hand-computed values, modular multiplication *)
(* against small products, alias resolution on a small selector table.         *)
EXTENDS MtrlShpk, TLC
VARIABLE k
Keys4 == {<<0, 0>>, <<0, 1>>, <<0, 31>>, <<65535, 65535>>, <<4660, 22136>>}
Init == k \in Keys4 \X Keys4
Next == UNCHANGED k
Laws ==
  /\ Selector(<<>>) = Zero32
  /\ Selector(<<k[1]>>) = k[1]
  /\ Selector(<<k[1], k[2]>>) = AddW(k[1], MulSmall(k[2], 31))
  /\ Selector(<<k[1], k[2], k[1]>>) = AddW(AddW(k[1], MulSmall(k[2], 31)), MulSmall(k[1], 961))
  /\ MulW(k[1], k[2]) = MulW(k[2], k[1])
  /\ MulW(k[1], <<0, 31>>) = MulSmall(k[1], 31)
  /\ MulW(<<65535, 65535>>, <<65535, 65535>>) = <<0, 1>>                 \* (-1)^2
  /\ MulW(<<1, 0>>, <<1, 0>>) = Zero32                                    \* 2^16 * 2^16
  /\ MulW(<<0, 65535>>, <<0, 65535>>) = <<65534, 1>>                     \* 0xFFFE0001
  /\ SelectorFromAll(<<k[1]>>, <<k[2]>>, <<>>, <<k[1], k[2]>>)
       = Selector(<<k[1], k[2], Zero32, Selector(<<k[1], k[2]>>)>>)
\* alias resolution: nodes first, then aliases, first match wins
P == [table |-> << <<k[1], 1>>, <<k[2], 2>>, <<<<9, 9>>, 1>>, <<k[1], 2>> >>]
Resolution ==
  /\ FindNode(P, k[1]) = 1
  /\ FindNode(P, k[2]) = (IF k[2] = k[1] THEN 1 ELSE 2)
  /\ FindNode(P, <<9, 9>>) = 1
  /\ FindNode(P, <<7, 7>>) = 0
=============================================================================
