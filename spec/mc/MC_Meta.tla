------------------------------ MODULE MC_Meta ------------------------------
(* Spec-internal round trips of Meta.tla on a small domain.                  *)
EXTENDS Meta, TLC, FiniteSets

VARIABLE s
Stutter == UNCHANGED s

\* ---- FIIN: all file sets of <= 2 files over small names/contents
Names == {<<97>>, <<97,46,98>>, [i \in 1..63 |-> 120]}
Contents == {<<>>, <<0>>, <<1,2,3>>, [i \in 1..56 |-> i]}
InitFiin == s \in UNION {[1..n -> Names \X Contents] : n \in 0..2}
FiinRoundTrip ==
  LET es == [i \in 1..Len(s) |-> EntryOf(s[i][1], s[i][2])]
      b == RenderFiin(es)
  IN /\ Len(b) = 1024 + 96 * Len(s)
     /\ ParseFiin(b) = es
     /\ RenderFiin(ParseFiin(b)) = b

\* ---- patch lists
Nums == {<<48>>, <<49>>, <<50,49,52,55,52,56,51,54,52,56>>, <<57,48,48,55,49,57,57,50,53,52,55,52,48,57,57,51>>,
         <<52,54,49,49,54,56,54,48,49,56,52,50,55,51,56,55,57,48,52>>}   \* 0 1 2^31 2^53+1 2^62
Hashes1 == {<< <<97,98>> >>, << <<97,98>>, <<99>> >>}
Entries == [length : Nums, size : {<<48>>, <<55>>}, a : {<<55,49>>}, b : {<<52>>},
            version : {<<50,48,50,51,46,48,57>>}, hbs : {<<53,48>>}, hashes : Hashes1,
            url : {<<104,116,116,112,58,47,47,120>>}]
InitList == s \in [kind : {"boot", "game"}, es : UNION {[1..n -> Entries] : n \in 0..2}]
ListRoundTrip ==
  LET t == RenderList(s.kind, <<73,68>>, <<108,111,99>>, s.es)
      p == ParseList(s.kind, t)
  IN /\ p.patches = [i \in 1..Len(s.es) |-> Listed(s.kind, s.es[i])]
     /\ p.total = DecSum([i \in 1..Len(s.es) |-> s.es[i].length])
DecAddLaws == (s.es = <<>> /\ s.kind = "boot") =>
  /\ DecAdd(<<57,57>>, <<49>>) = <<49,48,48>>
  /\ DecAdd(<<48>>, <<48>>) = <<48>>
  /\ DecAdd(<<52,54,49,49,54,56,54,48,49,56,52,50,55,51,56,55,57,48,52>>, <<52,54,49,49,54,56,54,48,49,56,52,50,55,51,56,55,57,48,51>>)
       = <<57,50,50,51,51,55,50,48,51,54,56,53,52,55,55,53,56,48,55>>    \* 2^62 + 2^62-1 = 2^63-1
  /\ \A x, y \in 0..120 : DecAdd(Dec(x), Dec(y)) = Dec(x + y)
=============================================================================
