----------------------------- MODULE MC_ChatLog -----------------------------
(* Every log of up to MaxEntries entries over small alphabets is written by   *)
(* ChatLog.tla's writer and read back by its reader.                          *)
EXTENDS ChatLog, TLC
CONSTANT MaxEntries
Msgs == {<< >>, <<97>>, <<97, 98>>, <<0>>}
Es == [time : {1, 70000}, filter : {3, 170}, channel : {0, 59}, message : Msgs]
VARIABLES es, B
Force(x) == SubSeq(x, 1, Len(x))
Init == /\ es \in UNION {[1..k -> Es] : k \in 0..MaxEntries}
        /\ B = Force(LogBytes(es))
Next == UNCHANGED <<es, B>>
Spec == Init /\ [][Next]_<<es, B>>
ReadsBackWritten ==
  /\ Count(B) = Len(es)
  /\ \A i \in 1..Len(es) : LET r == Entries(B)[i]
                           IN /\ r.time = <<es[i].time \div 65536, es[i].time % 65536>> /\ r.filter = es[i].filter
                              /\ r.channel = es[i].channel /\ r.message = es[i].message
Formed == WellFormedLog(B)
\* a message is exactly the gap between its entry's fixed part and the next entry: nothing is shared, nothing is lost
Tiles == Len(B) = 8 + 4 * Len(es) + FoldLeft(LAMBDA a, i : a + 10 + Len(es[i].message), 0, [i \in 1..Len(es) |-> i])
=============================================================================
