INIT Init
NEXT Next
INVARIANT VectorHolds
CHECK_DEADLOCK FALSE
