----------------------------- MODULE MC_Blowfish -----------------------------
(* The specification and the pi-derived tables against the classic published *)
(* ECB vectors (Schneier / Eric Young), and the inversion laws on an           *)
(* enumerated domain.  One state per (key, check).                            *)
EXTENDS Blowfish, TLC, FiniteSets

\* key, plaintext, ciphertext as big-endian words (the published form)
\* key 0000000000000000 plain 0000000000000000 cipher 4EF997456198DD78
\* key FFFFFFFFFFFFFFFF plain FFFFFFFFFFFFFFFF cipher 51866FD5B85ECB8A
\* key 3000000000000000 plain 1000000000000001 cipher 7D856F9A613063F2
\* key 1111111111111111 plain 1111111111111111 cipher 2466DD878B963C9D
\* key 0123456789ABCDEF plain 1111111111111111 cipher 61F9C3802281B096
\* key 1111111111111111 plain 0123456789ABCDEF cipher 7D0CC630AFDA1EC7
\* key FEDCBA9876543210 plain 0123456789ABCDEF cipher 0ACEAB0FC6A0A28D
Vectors == <<
  << <<0,0,0,0,0,0,0,0>>, <<0, 0>>, <<0, 0>>, <<20217, 38725>>, <<24984, 56696>> >>,
  << <<255,255,255,255,255,255,255,255>>, <<65535, 65535>>, <<65535, 65535>>, <<20870, 28629>>, <<47198, 52106>> >>,
  << <<48,0,0,0,0,0,0,0>>, <<4096, 0>>, <<0, 1>>, <<32133, 28570>>, <<24880, 25586>> >>,
  << <<17,17,17,17,17,17,17,17>>, <<4369, 4369>>, <<4369, 4369>>, <<9318, 56711>>, <<35734, 15517>> >>,
  << <<1,35,69,103,137,171,205,239>>, <<4369, 4369>>, <<4369, 4369>>, <<25081, 50048>>, <<8833, 45206>> >>,
  << <<17,17,17,17,17,17,17,17>>, <<291, 17767>>, <<35243, 52719>>, <<32012, 50736>>, <<45018, 7879>> >>,
  << <<254,220,186,152,118,84,50,16>>, <<291, 17767>>, <<35243, 52719>>, <<2766, 43791>>, <<50848, 41613>> >>
>>

VARIABLE v
Init == v \in 1..Len(Vectors)
Next == UNCHANGED v
VectorHolds ==
  LET key == Vectors[v][1]
      st == Schedule(key)
      e == EncPair(st, Vectors[v][2], Vectors[v][3])
  IN /\ e = <<Vectors[v][4], Vectors[v][5]>>
     /\ DecPair(st, e[1], e[2]) = <<Vectors[v][2], Vectors[v][3]>>
     \* inversion on an enumerated set of blocks
     /\ \A a \in {0, 1, 255, 4660, 65535} : \A b \in {0, 7, 65535} :
          DecPair(st, EncPair(st, <<a, b>>, <<b, a>>)[1], EncPair(st, <<a, b>>, <<b, a>>)[2]) = <<<<a, b>>, <<b, a>>>>
     \* framing: decrypting an encryption returns the zero-padded message, for every length 0..17
     /\ \A n \in 0..17 : LET m == [i \in 1..n |-> (i * 37 + v) % 256]
                         IN /\ Decrypt(st, Encrypt(st, m)) = Pad8(m)
                            /\ Len(Encrypt(st, m)) = 8 * ((n + 7) \div 8)
=============================================================================
