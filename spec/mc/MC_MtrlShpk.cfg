INIT Init
NEXT Next
INVARIANT Laws
INVARIANT Resolution
CHECK_DEADLOCK FALSE
