------------------------------- MODULE MC_Pbd -------------------------------
(* C16: the deformer chain walk of Assets16.tla explored as a state machine   *)
(* over every forest of up to N items, every link table permutation and every *)
(* decided (from, to) query.  One WalkStep per action.  The result is judged  *)
(* against a declarative reading of the property: the bones of the start item *)
(* and of its ancestors in order, up to but excluding the first ancestor that *)
(* carries the target body id, or through the root when none does.            *)
EXTENDS Assets16, TLC
CONSTANT N

Items == 1..N
\* parent functions (0 = root) without cycles: following parents N times always reaches 0
Up(par, i, k) == FoldLeft(LAMBDA x, j : IF x = 0 THEN 0 ELSE par[x], i, Idx(k))
Forests == {par \in [Items -> 0..N] : \A i \in Items : Up(par, i, N) = 0}
Perms == {f \in [Items -> Items] : \A i, j \in Items : i # j => f[i] # f[j]}
BodyOf(i) == 100 * i + 1
BonesOf(i) == [k \in 1..(i % 3) |-> [name |-> <<i, k>>, m |-> <<i, k, 0>>]]     \* 0..2 bones; tokens stand for names and matrices

\* the file's view of a forest: item i is described by link perm[i]; children in ascending item order
Children(par, p) == {j \in Items : par[j] = p}
NextSibling(par, i) == LET later == {j \in Children(par, par[i]) : j > i} IN IF later = {} THEN 0 ELSE Min(later)
FirstChild(par, i) == IF Children(par, i) = {} THEN 0 ELSE Min(Children(par, i))
L(perm, i) == IF i = 0 THEN -1 ELSE perm[i] - 1          \* 0-based link index, -1 = none
InvPerm(perm, l) == CHOOSE i \in Items : perm[i] = l
Build(par, perm) ==
  [items |-> [i \in Items |-> [body |-> BodyOf(i), link |-> perm[i] - 1, bones |-> BonesOf(i)]],
   links |-> [l \in Items |-> LET i == InvPerm(perm, l)
                              IN [parent |-> L(perm, par[i]), first |-> L(perm, FirstChild(par, i)), next |-> L(perm, NextSibling(par, i)), deformer |-> i - 1]]]

\* the property, read declaratively on the forest
ChainLen(par, i) == Cardinality({k \in 0..N : Up(par, i, k) # 0})
Cut(par, i, to) == Min({k \in 1..ChainLen(par, i) : k = ChainLen(par, i) \/ BodyOf(Up(par, i, k)) = to})
Expected(par, i, to) == FlattenSeq([k \in 1..Cut(par, i, to) |-> BonesOf(Up(par, i, k - 1))])
Depth(par, i) == ChainLen(par, i)

VARIABLES par, perm, from, to, w
vars == <<par, perm, from, to, w>>
P == Build(par, perm)
Init == /\ par \in Forests
        /\ perm \in Perms
        /\ from \in Items /\ to \in Items \cup {N + 1}         \* N + 1: a body id no item carries
        /\ Decided(Build(par, perm), BodyOf(from), BodyOf(to))
        /\ w = WalkInit(Build(par, perm), BodyOf(from))
Next == /\ ~w.done
        /\ w' = WalkStep(P, BodyOf(to), w)
        /\ UNCHANGED <<par, perm, from, to>>
Spec == Init /\ [][Next]_vars /\ WF_vars(Next)

\* the walk is on the ancestor chain of the start item, and what it has gathered is the chain so far
OnChain == \E k \in 0..N : Up(par, from, k) = w.item /\ (~w.done => w.acc = FlattenSeq([j \in 1..k |-> BonesOf(Up(par, from, j - 1))]))
LinkMatchesItem == P.links[w.link].deformer + 1 = w.item
Result == w.done => w.acc = Expected(par, from, BodyOf(to))
\* termination measure: every step that does not finish moves one level up
Climbs == [][~w'.done => Depth(par, w'.item) < Depth(par, w.item)]_vars
Terminates == <>w.done
\* the fold used by the trace specification takes enough steps
FoldAgrees == (w = WalkInit(P, BodyOf(from))) => Walk(P, BodyOf(from), BodyOf(to)).done /\ Walk(P, BodyOf(from), BodyOf(to)).acc = Expected(par, from, BodyOf(to))
=============================================================================
