SPECIFICATION Spec
CONSTANTS Block = 2  HeaderCells = 16  Zero = 0  MaxLen = 2  Emit = TRUE
CONSTANT EmptyHead <- MCEmptyHead
CHECK_DEADLOCK FALSE
INVARIANT EmitSeq
