------------------------------ MODULE MC_Excel ------------------------------
(* Spec-internal round trip: the specification's own writer for EXH/EXD and  *)
(* ReadRow agree on every schema of 1..2 columns of any of the 19 types at    *)
(* any non-overlapping offsets of an 8-byte fixed region, plain and sub-row   *)
(* sheets, extreme values per type.  Also the generator of those schemas.     *)
EXTENDS Excel, TLC, Json
CONSTANTS Emit

BE16(n) == <<n \div 256, n % 256>>
BE32(n) == <<n \div 16777216, (n \div 65536) % 256, (n \div 256) % 256, n % 256>>
Zeros(n) == [i \in 1..n |-> 0]
Put(b, o, v) == [i \in 1..Len(b) |-> IF i > o /\ i <= o + Len(v) THEN v[i - o] ELSE b[i]]

EncodeExh(s) ==
  <<69,88,72,70>> \o BE16(3) \o BE16(s.data_offset) \o BE16(Len(s.columns)) \o BE16(Len(s.pages)) \o BE16(1)
    \o <<0, 0, 0, s.variant, 0, 0>> \o BE32(s.row_count) \o Zeros(8)
    \o Flatten([i \in 1..Len(s.columns) |-> BE16(s.columns[i][1]) \o BE16(s.columns[i][2])])
    \o Flatten([i \in 1..Len(s.pages) |-> BE32(s.pages[i][1]) \o BE32(s.pages[i][2])])
    \o <<s.lang, 0>>

\* fixed region + heap of one record (cells given as reported values)
EncodeRecord(s, rec) ==
  LET step(acc, i) ==
        LET t == s.columns[i][1]
            o == s.columns[i][2]
            v == rec[i].b
        IN IF t = T_String
           THEN [fixed |-> Put(acc.fixed, o, BE32(Len(acc.heap))), heap |-> acc.heap \o v \o <<0>>]
           ELSE IF IsPacked(t)
           THEN [acc EXCEPT !.fixed[o + 1] = @ + v[1] * Pow2(t - 25)]
           ELSE [acc EXCEPT !.fixed = Put(@, o, v)]
  IN FoldLeft(step, [fixed |-> Zeros(s.data_offset), heap |-> <<>>], [i \in 1..Len(s.columns) |-> i])
EncodeRow(s, row) ==
  IF s.variant = 2
  THEN LET body == Flatten([k \in 1..Len(row.subs) |-> BE16(k - 1) \o EncodeRecord(s, row.subs[k]).fixed])
       IN BE32(Len(body)) \o BE16(Len(row.subs)) \o body
  ELSE LET r == EncodeRecord(s, row.subs[1])
       IN BE32(Len(r.fixed) + Len(r.heap)) \o BE16(1) \o r.fixed \o r.heap
EncodeExd(s, rows) ==
  LET bodies == [i \in 1..Len(rows) |-> EncodeRow(s, rows[i])]
      start == 32 + 8 * Len(rows)
      off(i) == start + FoldLeft(LAMBDA a, j : a + Len(bodies[j]), 0, [j \in 1..(i - 1) |-> j])
  IN <<69,88,68,70>> \o BE16(2) \o <<0, 0>> \o BE32(8 * Len(rows)) \o Zeros(20)
       \o Flatten([i \in 1..Len(rows) |-> BE32(rows[i].id) \o BE32(off(i))])
       \o Flatten(bodies)

-----------------------------------------------------------------------------
Region == 8
\* value sets per type (as reported: tag + big-endian bytes)
Vals(t) ==
  CASE t = T_String -> {[t |-> "str", b |-> <<>>], [t |-> "str", b |-> <<97>>], [t |-> "str", b |-> <<72,105,32,33>>]}
    [] t = T_Bool \/ IsPacked(t) -> {[t |-> "bool", b |-> <<0>>], [t |-> "bool", b |-> <<1>>]}
    [] OTHER -> {[t |-> TypeTag(t), b |-> [i \in 1..Width(t) |-> x]] : x \in {0, 128, 255}}
          \cup {[t |-> TypeTag(t), b |-> [i \in 1..Width(t) |-> i]]}
Cols == {<<t, o>> : t \in ColumnTypes, o \in 0..(Region - 1)}
Fits(c) == c[2] + Width(c[1]) <= Region
Overlap(c, e) == ~(c[2] + Width(c[1]) <= e[2] \/ e[2] + Width(e[1]) <= c[2])
Compatible(c, e) == ~Overlap(c, e) \/ (IsPacked(c[1]) /\ IsPacked(e[1]) /\ c[1] # e[1])
Schemas1 == {<<c>> : c \in {x \in Cols : Fits(x)}}
Schemas2 == {<<c, e>> : c \in {x \in Cols : Fits(x) /\ x[2] \in {0, 3}}, e \in {x \in Cols : Fits(x)}} 
ColSets == Schemas1 \cup {q \in Schemas2 : Compatible(q[1], q[2])}

VARIABLE s      \* [cols, variant, nsubs]
Init == s \in [cols : ColSets, variant : {1, 2}, nsubs : {1, 2, 3}]
Next == UNCHANGED s
Schema == [data_offset |-> Region, variant |-> s.variant, columns |-> s.cols, pages |-> << <<5, 2>> >>, lang |-> 2, row_count |-> 2]
\* sub-row sheets carry no strings (string addressing in sub-rows is not documented)
Sensible == /\ (s.variant = 1 => s.nsubs = 1)
            /\ (s.variant = 2 => \A i \in 1..Len(s.cols) : s.cols[i][1] # T_String)
\* all value combinations of the first record; further records take the "other" value
RoundTrip == Sensible =>
  \A v1 \in Vals(s.cols[1][1]) : \A v2 \in (IF Len(s.cols) = 2 THEN Vals(s.cols[2][1]) ELSE {[t |-> "none", b |-> <<>>]}) :
    LET rec == IF Len(s.cols) = 2 THEN <<v1, v2>> ELSE <<v1>>
        rows == << [id |-> 5, subs |-> [k \in 1..s.nsubs |-> rec]], [id |-> 6, subs |-> [k \in 1..s.nsubs |-> rec]] >>
        hb == EncodeExh(Schema)
        db == EncodeExd(Schema, rows)
        exh == ParseExh(hb)
    IN /\ exh.columns = s.cols /\ exh.data_offset = Region /\ exh.variant = s.variant /\ exh.pages = << <<5, 2>> >>
       /\ ReadRow(exh, db, 5) = rows[1].subs /\ ReadRow(exh, db, 6) = rows[2].subs
       /\ ~HasRow(db, 7)
NameLaws == (s.variant = 1 /\ s.nsubs = 1 /\ s.cols = <<<<0, 0>>>>) =>
  /\ ExdName(<<73,116,101,109>>, 0, 0) = <<73,116,101,109,95,48,46,101,120,100>>                 \* Item_0.exd
  /\ ExdName(<<73,116,101,109>>, 2, 500) = <<73,116,101,109,95,53,48,48,95,101,110,46,101,120,100>>  \* Item_500_en.exd
  /\ ExhPath(<<73,116,101,109>>) = <<101,120,100,47,105,116,101,109,46,101,120,104>>             \* exd/item.exh
EmitSchema == (Emit /\ Sensible) => PrintT("REPLAY|" \o ToJson(s))
=============================================================================
