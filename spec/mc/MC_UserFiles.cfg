INIT Init
NEXT Next
INVARIANT PositionLaw
INVARIANT Fixture
INVARIANT MarkerLaw
CHECK_DEADLOCK FALSE
