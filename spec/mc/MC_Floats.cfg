INIT Init
NEXT Next
INVARIANT HalfLaws
CHECK_DEADLOCK FALSE
