INIT Init
NEXT Next
CONSTANT Emit = TRUE
CHECK_DEADLOCK FALSE
INVARIANT EmitDecl
