INIT Init
NEXT Next
INVARIANT Published
INVARIANT Laws
INVARIANT PadBoundaries
CHECK_DEADLOCK FALSE
