--------------------------- MODULE MC_LayerGroup ---------------------------
(* Beyond the list: LayerGroup.tla's reader against a writer stated in TLA+.  *)
(* Every small group (up to MaxLayers layers of up to MaxObjects instance     *)
(* objects of the five record types, names of 0 / 1 / 3 bytes) is written in the  *)
(* canonical layout - object table behind the layer header, records in table  *)
(* order, each followed by its name, then the referenced-set list and the     *)
(* layer name - and read back: the reader must return exactly what was        *)
(* written (ReadsBackWritten), the file must state its own length and keep every       *)
(* structure inside it (WellFormed), and no two structures may overlap        *)
(* (Disjoint: the starts the offset tables name are strictly increasing).     *)
EXTENDS LayerGroup, TLC
CONSTANTS MaxLayers, MaxObjects

Names == {<< >>, <<97>>, <<97, 98, 99>>}
Pad4(s) == s \o [i \in 1..((4 - (Len(s) % 4)) % 4) |-> 0]
Words(ns) == FlattenSeq([i \in 1..Len(ns) |-> LE32n(ns[i])])
Limbs(n) == <<n \div 65536, n % 65536>>

\* an abstract object: type, id, name, nine transform words, record words
Objects == {[type |-> TypeMarker, id |-> 7, name |-> nm, t |-> [j \in 1..9 |-> 65536 * j + j], d |-> <<2, 66000, 3>>] : nm \in Names}
           \cup {[type |-> TypePop, id |-> 70000, name |-> nm, t |-> [j \in 1..9 |-> j], d |-> <<3, 12, 2, 1065353216, 200>>] : nm \in Names}
           \cup {[type |-> TypeBg, id |-> 13, name |-> nm, t |-> [j \in 1..9 |-> 7 * j], d |-> <<500, 70003, 2, 255, 65537, 4, 1, 0, 1, 1073741824>>] : nm \in Names}
           \cup {[type |-> TypeEnv, id |-> 9, name |-> nm, t |-> [j \in 1..9 |-> 3 * j], d |-> <<300, 70001, 2, 1, 77, 1065353216, 15, 1056964608, 3, 400>>] : nm \in Names}
           \cup {[type |-> TypeExit, id |-> 11, name |-> nm, t |-> [j \in 1..9 |-> 5 * j], d |-> <<6, 1234, 1, 1, 40000, 129, 66000, 70002, 8, 1078530011>>] : nm \in Names}
ObjRecord(o) ==
  LET data == IF o.type = TypeMarker THEN Words(o.d)
              ELSE IF o.type = TypeBg THEN Words(SubSeq(o.d, 1, 6)) \o <<o.d[7], o.d[8], o.d[9], 0>> \o LE32n(o.d[10])
              ELSE IF o.type = TypePop THEN Words(SubSeq(o.d, 1, 4)) \o <<o.d[5], 0, 0, 0>> \o LE32n(0)
              ELSE IF o.type = TypeEnv THEN Words(SubSeq(o.d, 1, 3)) \o <<o.d[4], o.d[5], 0, 0>> \o Words(SubSeq(o.d, 6, 10))
              ELSE LE32n(o.d[1]) \o LE16(o.d[2]) \o <<o.d[3], 0>> \o LE32n(0) \o LE32n(o.d[4]) \o LE16(o.d[5]) \o LE16(o.d[6])
                   \o Words(SubSeq(o.d, 7, 10)) \o LE32n(0)
  IN Pad4(LE32n(o.type) \o LE32n(o.id) \o LE32n(48 + Len(data)) \o Words(o.t) \o data \o o.name \o <<0>>)
Layer(id, nm, objs) == [id |-> id, name |-> nm, objects |-> objs]
LayerBytes(l) ==
  LET n == Len(l.objects)
      recs == [k \in 1..n |-> ObjRecord(l.objects[k])]
      off(k) == 4 * n + FoldLeft(LAMBDA a, j : a + Len(recs[j]), 0, [j \in 1..(k - 1) |-> j])
      region == Words([k \in 1..n |-> off(k)]) \o FlattenSeq(recs)
      sets == 52 + Len(region)
      name == sets + 12
      end == name + Len(Pad4(l.name \o <<0>>))
  IN LE32n(l.id) \o LE32n(name) \o LE32n(52) \o LE32n(n) \o <<1, 0, 1, 0>> \o LE32n(sets) \o LE16(2024) \o LE16(3) \o <<4, 5>> \o LE16(513)
     \o <<0, 0, 0, 0>> \o LE32n(end) \o LE32n(0) \o LE32n(end) \o LE32n(0)
     \o region \o LE32n(0) \o LE32n(0) \o LE32n(0) \o Pad4(l.name \o <<0>>)
GroupBytes(ls, chunkname) ==
  LET n == Len(ls)
      lb == [i \in 1..n |-> LayerBytes(ls[i])]
      off(i) == 4 * n + FoldLeft(LAMBDA a, j : a + Len(lb[j]), 0, [j \in 1..(i - 1) |-> j])
      table == Words([i \in 1..n |-> off(i)]) \o FlattenSeq(lb)
      chunk == LE32n(827345740) \o LE32n(16 + Len(table) + Len(chunkname) + 1) \o LE32n(9) \o LE32n(16 + Len(table)) \o LE32n(16) \o LE32n(n)
               \o table \o chunkname \o <<0>>
  IN LE32n(826427212) \o LE32n(12 + Len(chunk)) \o LE32n(1) \o chunk

ObjSeqs == UNION {[1..k -> Objects] : k \in 0..MaxObjects}
LayerSet == {Layer(id, nm, objs) : id \in {5}, nm \in Names, objs \in ObjSeqs}
\* the written file is a variable (set once, in Init): a definition over `ls` would be evaluated again at every use
VARIABLES ls, B
Force(x) == SubSeq(x, 1, Len(x))
Init == /\ ls \in UNION {[1..k -> LayerSet] : k \in 0..MaxLayers}
        /\ B = Force(GroupBytes(ls, <<122>>))
Next == UNCHANGED <<ls, B>>
Spec == Init /\ [][Next]_<<ls, B>>

ReadBack == Layers(B)
ReadsBackWritten ==
  /\ Len(ReadBack) = Len(ls)
  /\ \A i \in 1..Len(ls) :
       /\ ReadBack[i].id = Limbs(ls[i].id) /\ ReadBack[i].name = ls[i].name
       /\ ReadBack[i].flags = <<TRUE, FALSE, TRUE, FALSE>> /\ ReadBack[i].festival = <<2024, 3>>
       /\ ReadBack[i].temporary = 4 /\ ReadBack[i].housing = 5 /\ ReadBack[i].mask = 513
       /\ Len(ReadBack[i].objects) = Len(ls[i].objects)
       /\ \A k \in 1..Len(ls[i].objects) :
            LET o == ls[i].objects[k]
                r == ReadBack[i].objects[k]
            IN /\ r.type = o.type /\ r.id = Limbs(o.id) /\ r.name = o.name
               /\ r.transform = [j \in 1..9 |-> Limbs(o.t[j])]
               /\ r.data = IF o.type = TypeMarker THEN <<o.d[1], Limbs(o.d[2]), Limbs(o.d[3])>>
                           ELSE IF o.type = TypeBg THEN <<Limbs(o.d[1]), Limbs(o.d[2]), o.d[3], Limbs(o.d[4]), Limbs(o.d[5]), Limbs(o.d[6]),
                                                          o.d[7] # 0, o.d[8] # 0, o.d[9] # 0, Limbs(o.d[10])>>
                           ELSE IF o.type = TypePop THEN <<o.d[1], Limbs(o.d[2]), Limbs(o.d[3]), Limbs(o.d[4]), o.d[5]>>
                           ELSE IF o.type = TypeEnv THEN <<Limbs(o.d[1]), Limbs(o.d[2]), o.d[3], o.d[4] # 0, o.d[5], Limbs(o.d[6]), Limbs(o.d[7]),
                                                           Limbs(o.d[8]), Limbs(o.d[9]), Limbs(o.d[10])>>
                           ELSE <<o.d[1], o.d[2], o.d[3] # 0, o.d[4], o.d[5], o.d[6], Limbs(o.d[7]), Limbs(o.d[8]), Limbs(o.d[9]), Limbs(o.d[10])>>
Formed == WellFormed(B) /\ LgbView(B).name = <<122>> /\ LgbView(B).layers = Len(ls)
\* layer starts and, inside a layer, object starts are strictly increasing: the structures do not overlap
Disjoint ==
  /\ \A i \in 1..(Len(ls) - 1) : U32n(B, 36 + 4 * (i - 1)) + Len(LayerBytes(ls[i])) = U32n(B, 36 + 4 * i)
  /\ \A i \in 1..Len(ls) : LET L == 36 + U32n(B, 36 + 4 * (i - 1))
                           IN \A k \in 1..(Len(ls[i].objects) - 1) : U32n(B, L + 52 + 4 * (k - 1)) < U32n(B, L + 52 + 4 * k)
=============================================================================
