INIT InitEquip
NEXT Stutter
CONSTANT Universe = {0}
INVARIANT EquipRoundTrip
INVARIANT EquipInjective
INVARIANT CharInjective
CHECK_DEADLOCK FALSE
