SPECIFICATION Spec
CONSTANTS MaxEdits = 5  Emit = FALSE  RuntimeBase = 1000
VIEW view
INVARIANT Inv_SectionsDisjoint
INVARIANT Inv_SectionsInBounds
INVARIANT Inv_IndexPadded16
INVARIANT Inv_Sizes
INVARIANT Inv_StreamsTile
INVARIANT Inv_MeshIndexRanges
INVARIANT Inv_Consistent
CHECK_DEADLOCK FALSE
