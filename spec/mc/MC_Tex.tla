------------------------------- MODULE MC_Tex -------------------------------
(* Design-level checks of Tex.tla: pixel <- (block, texel) addressing is a     *)
(* bijection onto the unclipped texels for all small geometries; mode switches *)
(* and palette laws for all endpoint orderings of a representative set.        *)
EXTENDS Tex, TLC
VARIABLE g
Init == g \in [w : 1..9, h : 1..9]
Next == UNCHANGED g
\* (block, texel) pairs addressed by the pixels of a w x h image
Src(x, y) == <<(y \div 4) * ((g.w + 3) \div 4) + x \div 4, 4 * (y % 4) + (x % 4)>>
AddressingBijective ==
  LET px == (0..(g.w - 1)) \X (0..(g.h - 1))
  IN /\ Cardinality({Src(q[1], q[2]) : q \in px}) = g.w * g.h
     /\ \A q \in px : Src(q[1], q[2])[1] < ((g.w + 3) \div 4) * ((g.h + 3) \div 4) /\ Src(q[1], q[2])[2] \in 0..15
Ends == {0, 1, 31, 32, 2016, 2048, 63488, 65534, 65535}
PaletteLaws == (g.w = 1 /\ g.h = 1) =>
  /\ \A q0, q1 \in Ends :
       LET p == <<q0 % 256, q0 \div 256, q1 % 256, q1 \div 256, 0, 0, 0, 0>>
           pal == Bc1Palette(p, 0)
       IN /\ pal[1] = RGB(q0) \o <<255>> /\ pal[2] = RGB(q1) \o <<255>>
          /\ (q0 > q1) => pal[4][4] = 255 /\ \A k \in 1..3 : pal[3][k] = (2 * pal[1][k] + pal[2][k]) \div 3
          /\ (q0 <= q1) => pal[4] = <<0, 0, 0, -1>> /\ \A k \in 1..3 : pal[3][k] = (pal[1][k] + pal[2][k]) \div 2
  /\ RGB(65535) = <<255, 255, 255>> /\ RGB(0) = <<0, 0, 0>> /\ RGB(63488) = <<255, 0, 0>> /\ RGB(2016) = <<0, 255, 0>>
  /\ \A a0, a1 \in {0, 1, 127, 128, 254, 255} :
       LET pal == AlphaPalette(<<a0, a1>>, 0)
       IN /\ pal[1] = a0 /\ pal[2] = a1
          /\ (a0 <= a1) => pal[7] = 0 /\ pal[8] = 255
          /\ (a0 > a1) => \A k \in 3..8 : pal[k] <= a0 /\ pal[k] >= a1
  \* selectors: texel t reads bits 3t..3t+2 of the 48-bit little-endian field
  /\ \A t \in 0..15 : AlphaSel(<<0, 0, 136, 198, 250, 136, 198, 250>>, 0, t) = t % 8   \* 0xFAC688 repeated = 0,1,..,7
  /\ \A t \in 0..15 : Bc1Sel(<<0, 0, 0, 0, 228, 228, 228, 228>>, 0, t) = t % 4          \* 0xE4 = 3,2,1,0
=============================================================================
