SPECIFICATION Spec
CONSTANT KeyFn <- NoKey
CONSTANT CatFn <- NoCat
CONSTANT RepoFn <- NoRepo
CONSTANT Cat <- ByteCat
CONSTANT Size <- ByteSize
CONSTANT Lit <- ByteLit
INVARIANT NoLiveStreamOnReturn
INVARIANT ModelHeaderLaw
INVARIANT LengthLaw
CHECK_DEADLOCK FALSE
