----------------------------- MODULE MC_ZiCreate -----------------------------
(* C04 at design level: for all pairs of trees over 4 paths (nesting 0..2)    *)
(* with content from {absent, empty, c1, c2}, applying the reference creator's*)
(* patch to A yields exactly B's non-empty files.                            *)
EXTENDS ZiPatch, TLC
MCEmptyHead(n) == <<100 + n>>
Paths4 == {<<102>>, <<100,47,103>>, <<100,47,101,47,104>>, <<105>>}     \* f, d/g, d/e/h, i
Conts == {<<>>, <<1>>, <<2, 3>>}
TreesOver == UNION {[S -> Conts] : S \in SUBSET Paths4}
VARIABLE pair
InitPair == pair \in TreesOver \X TreesOver
NextPair == UNCHANGED pair
CreateLaw ==
  LET A == pair[1]
      B == pair[2]
      r == Apply([files |-> A, dirs |-> {}], Create(A, B))
  IN r.res = "ok" /\ r.files = NonEmpty(B)
=============================================================================
