----------------------------- MODULE MC_ZiCreate -----------------------------
(* C04 at design level: for all pairs of trees over 4 paths (nesting 0..2)    *)
(* with content from {absent, empty, c1, c2}, applying the reference creator's*)
(* patch to A yields exactly B's non-empty files.                            *)
EXTENDS ZiPatch, TLC, Json
CONSTANTS Conts, Paths, Emit
MCEmptyHead(n) == <<100 + n>>
\* <<1>> and <<4>> have the same length: a change that keeps the size
Conts3 == {<<>>, <<1>>, <<4>>}
Conts4 == {<<>>, <<1>>, <<4>>, <<2, 3>>}
Paths4 == {<<102>>, <<100,47,103>>, <<100,47,101,47,104>>, <<105>>}     \* f, d/g, d/e/h, i
Paths3 == {<<102>>, <<100,47,103>>, <<100,47,101,47,104>>}
TreesOver == UNION {[S -> Conts] : S \in SUBSET Paths}
VARIABLE pair
InitPair == pair \in TreesOver \X TreesOver
NextPair == UNCHANGED pair
CreateLaw ==
  LET A == pair[1]
      B == pair[2]
      r == Apply([files |-> A, dirs |-> {}], Create(A, B))
  IN r.res = "ok" /\ r.files = NonEmpty(B)
\* generator: every pair, files as sequences of [p, c] records
AsList(f) == LET ps == SetToSeq(DOMAIN f) IN [i \in 1..Len(ps) |-> [p |-> ps[i], c |-> f[ps[i]]]]
EmitPair == Emit => PrintT("REPLAY|" \o ToJson([a |-> AsList(pair[1]), b |-> AsList(pair[2])]))
=============================================================================
