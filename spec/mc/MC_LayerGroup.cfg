SPECIFICATION Spec
CONSTANT MaxLayers = 2
CONSTANT MaxObjects = 1
INVARIANT ReadsBackWritten
INVARIANT Formed
INVARIANT Disjoint
CHECK_DEADLOCK FALSE
