----------------------------- MODULE MC_ZiPatch -----------------------------
(* Exhaustive bounded model of patch application (Block = 2 cells of 64      *)
(* bytes, 1 KiB header = 16 cells) over a concrete alphabet of chunks, and   *)
(* of patch creation over all pairs of small trees.  Also the generator of   *)
(* chunk sequences that are replayed against the real ZiPatch::apply.        *)
EXTENDS ZiPatch, TLC, Json

CONSTANTS MaxLen, Emit

MCEmptyHead(n) == <<100 + n>>          \* one cell standing for the 20-byte header of n blocks
Fill(v, n) == [i \in 1..n |-> v]

C1 == [main |-> 10, sub |-> 0, file |-> 0]
C2 == [main |-> 10, sub |-> 258, file |-> 3]      \* expansion 1, chunk 2, dat3
C3 == [main |-> 10, sub |-> 0, file |-> 2]        \* index2 of C1's category
P_a   == <<97,46,98,105,110>>                       \* "a.bin"
P_db  == <<100,47,98,46,98,105,110>>                \* "d/b.bin"
P_dat == DatPath(C1, 0)                             \* sqpack/ffxiv/0a0000.win32.dat0
P_mn  == <<109,47,110,47>>                          \* "m/n/"
With(c, r) == c @@ r

Alphabet == {
  [k |-> "T", plat |-> 0], [k |-> "T", plat |-> 1], [k |-> "T", plat |-> 2],
  With(C1, [k |-> "A", off |-> 0, data |-> <<1, 2>>, del |-> 0]),
  With(C1, [k |-> "A", off |-> 2, data |-> <<3, 4, 5, 6>>, del |-> 1]),
  With(C2, [k |-> "A", off |-> 0, data |-> <<7, 8>>, del |-> 1]),
  With(C1, [k |-> "D", off |-> 1, n |-> 1]),
  With(C1, [k |-> "D", off |-> 0, n |-> 3]),
  With(C2, [k |-> "E", off |-> 1, n |-> 1]),
  With(C1, [k |-> "E", off |-> 2, n |-> 3]),
  With(C1, [k |-> "H", fk |-> "D", hk |-> "V", data |-> Fill(9, HeaderCells)]),
  With(C1, [k |-> "H", fk |-> "D", hk |-> "D", data |-> Fill(10, HeaderCells)]),
  With(C1, [k |-> "H", fk |-> "I", hk |-> "V", data |-> Fill(11, HeaderCells)]),
  With(C3, [k |-> "H", fk |-> "I", hk |-> "I", data |-> Fill(12, HeaderCells)]),
  [k |-> "FA", path |-> P_a, off |-> 0, data |-> <<13>>, enc |-> "raw"],
  [k |-> "FA", path |-> P_a, off |-> 2, data |-> <<14, 15>>, enc |-> "deflate"],
  [k |-> "FA", path |-> P_db, off |-> 0, data |-> <<16, 17, 18>>, enc |-> "three"],
  [k |-> "FA", path |-> P_dat, off |-> 0, data |-> <<19>>, enc |-> "raw"],
  [k |-> "FD", path |-> P_a], [k |-> "FD", path |-> P_dat],
  [k |-> "FR", ex |-> 0], [k |-> "FR", ex |-> 1],
  [k |-> "FM", path |-> P_mn],
  [k |-> "X"], [k |-> "I"], [k |-> "ADIR", name |-> <<113>>], [k |-> "DELD", name |-> <<100>>],
  [k |-> "APLY", opt |-> 1], [k |-> "FHDR", v |-> 2], [k |-> "FHDR", v |-> 3] }
DataOps == {c \in Alphabet : NeedsPlatform(c)}

Empty == [files |-> <<>>, dirs |-> {}]
Populated == [files |-> (P_a :> <<20, 21, 22, 29, 30, 31>>) @@ (<<122>> :> <<23>>), dirs |-> {<<100>>}]   \* a.bin (longer than any write into it), z ; dir d
Touched == [files |-> (P_a :> <<20>>) @@ (P_dat :> Fill(24, 5)) @@ (DatPath(C2, 0) :> <<25, 26, 27>>)
                      @@ (P_db :> <<28>>),
            dirs |-> Ancestors(P_dat) \cup Ancestors(DatPath(C2, 0)) \cup {<<100>>}]
InitTrees == {Empty, Populated, Touched}

VARIABLES st, last, hist
vars == <<st, last, hist>>
None == [k |-> "none"]

Init == /\ \E t \in InitTrees : st = Start(t) /\ hist = [tree |-> t, patches |-> << <<>> >>]
        /\ last = None
\* well-formed streams only: data commands come after a target-info chunk
\* and D (which, unlike A/E/H, is not specified to create folders) only hits an existing sqpack folder
Chunk(c) == /\ st.res = "running" /\ (NeedsPlatform(c) => st.plat # -1)
            /\ (c.k = "D" => Ancestors(DatPath(c, st.plat)) \subseteq MustDirs(st))
            /\ st' = Step(st, c) /\ last' = c
            /\ hist' = [hist EXCEPT !.patches[Len(hist.patches)] = Append(@, c)]
Eof == /\ st.res = "running" /\ st' = Step(st, [k |-> "EOF"]) /\ last' = [k |-> "EOF"]
       /\ UNCHANGED hist
NewPatch == /\ st.res = "ok" /\ st' = Start([files |-> st.files, dirs |-> st.dirs])
            /\ last' = [k |-> "NEW"] /\ hist' = [hist EXCEPT !.patches = Append(@, <<>>)]
Size == Len(Flatten(hist.patches)) + Len(hist.patches) - 1
Next == \/ Size < MaxLen /\ ((\E c \in Alphabet : Chunk(c)) \/ NewPatch)
        \/ Size <= MaxLen /\ Eof
Spec == Init /\ [][Next]_vars

-----------------------------------------------------------------------------
OkIffEof == st.res = "ok" => last.k = "EOF"
NoErrOnWellFormed == st.res # "err"
\* every touched sqpack file carries the read-side name for its ids and the current platform
CanonicalSqpack ==
  {JoinPath(JoinPath(S_Sqpack, ExFolder(ex)), n) :
     ex \in {0, 1}, n \in UNION {{ReadDatName(10, e, ch, p, d), ReadIndexName(10, e, ch, p), ReadIndex2Name(10, e, ch, p)} :
                                 e \in {0, 1}, ch \in {0, 2}, p \in {0, 1, 2}, d \in {0, 3}}}
NamesAreCanonical == \A p \in DOMAIN st.files : IsUnder(p, S_Sqpack) => p \in CanonicalSqpack
DirsOfFilesExist == TRUE   \* MustDirs is what a replay compares; nothing to state here
\* the applied history equals the functional semantics (Apply is a fold of Step)
FoldAgrees == LET r == ApplyChain(hist.tree, [i \in 1..Len(hist.patches) |->
                           hist.patches[i] \o (IF i < Len(hist.patches) \/ st.res = "ok" THEN <<[k |-> "EOF"]>> ELSE <<>>)])
              IN st.res = "ok" => (r.files = st.files /\ r.dirs = st.dirs)
\* frame condition: a chunk changes only the file it names (FR: only files of its folder)
Frame ==
  [][\A p \in DOMAIN st.files \cup DOMAIN st'.files :
       (/\ last'.k \notin {"NEW"}
        /\ p # Target(last', st.plat)
        /\ ~(last'.k = "FR" /\ IsUnder(p, JoinPath(S_Sqpack, ExFolder(last'.ex)))))
       => Content(st'.files, p) = Content(st.files, p) /\ (p \in DOMAIN st.files <=> p \in DOMAIN st'.files)]_vars
\* every block write lands inside the file, at Block * off
Landing == last.k = "A" =>
  LET f == Target(last, st.plat) IN SubSeq(st.files[f], last.off * Block + 1, last.off * Block + Len(last.data)) = last.data

AsList(f) == LET ps == SetToSeq(DOMAIN f) IN [i \in 1..Len(ps) |-> [p |-> ps[i], c |-> f[ps[i]]]]
EmitSeq == (Emit /\ st.res = "ok") =>
  PrintT("REPLAY|" \o ToJson([files |-> AsList(hist.tree.files), dirs |-> SetToSeq(hist.tree.dirs),
                               patches |-> hist.patches]))

=============================================================================
