INIT InitFiles
NEXT Stutter
CONSTANT Universe = {0}
INVARIANT ReadEqualsPatch
INVARIANT NameInjective
INVARIANT AgreementLimit
CHECK_DEADLOCK FALSE
