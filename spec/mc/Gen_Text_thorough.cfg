SPECIFICATION Spec
CONSTANTS MaxCats = 2  MaxLines = 2  MaxCalls = 3  Emit = TRUE
VIEW view
CHECK_DEADLOCK FALSE
INVARIANT EmitHistory
