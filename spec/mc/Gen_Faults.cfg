INIT Init
NEXT Next
INVARIANT SpaceLaws
INVARIANT Emit
CHECK_DEADLOCK FALSE
