------------------------------ MODULE MC_Text ------------------------------
(* Bounded model of the configuration object under edit + byte-level laws.   *)
(* Also the generator of edit histories (transition cover, see Gen cfg).     *)
EXTENDS TextFormats, TLC, Json

CONSTANTS MaxCats, MaxLines, MaxCalls, Emit

\* small alphabets; one category name and one new value have an inner TAB (a line is a category line because of its
\* brackets, whatever else it holds; a pair splits at its first TAB only), values include the empty string
CatNames == {<<67,49>>, <<67,9,50>>}              \* "C1", "C<TAB>2"
AbsentCat == <<90>>                                 \* "Z"
Keys     == {<<97>>, <<98>>}                       \* "a" "b"
AbsentKey == <<99>>                                 \* "c"
Vals     == {<<>>, <<120>>}                        \* "" "x"
NewVals  == {<<>>, <<120,9,121>>}                  \* "" "x<TAB>y"

PairSeqs == UNION {[1..n -> Keys \X Vals] : n \in 0..MaxLines}
Cats == [name : CatNames, pairs : PairSeqs]
InitCfgs == {c \in UNION {[1..n -> Cats] : n \in 0..MaxCats} : DistinctNames(c)}

VARIABLES cfg, pre, call, hist
vars == <<cfg, pre, call, hist>>
view == <<cfg, pre, call>>          \* hist is an observation variable

None == [op |-> "none"]
Init == /\ cfg \in InitCfgs /\ pre = cfg /\ call = None
        /\ hist = [init |-> cfg, calls |-> <<>>]

Do(c, newcfg) == /\ pre' = cfg /\ cfg' = newcfg /\ call' = c
                 /\ hist' = [hist EXCEPT !.calls = Append(@, c)]

ASetValue == \E k \in Keys \cup {AbsentKey}, v \in NewVals :
               Do([op |-> "set", key |-> k, val |-> v], SetValue(cfg, k, v))
AHasKey   == \E k \in Keys \cup {AbsentKey} :
               Do([op |-> "haskey", key |-> k, ans |-> HasKey(cfg, k)], cfg)
AHasCat   == \E c \in CatNames \cup {AbsentCat} :
               Do([op |-> "hascat", cat |-> c, ans |-> HasCategory(cfg, c)], cfg)
AWrite    == Do([op |-> "write", bytes |-> RenderCfg(cfg)], cfg)
AReparse  == Do([op |-> "reparse"], ParseCfg(RenderCfg(cfg)))
\* the bound is part of the enabling condition, not a CONSTRAINT: TLC evaluates
\* invariants (and so the emitter) on states a CONSTRAINT excludes
Next == Len(hist.calls) < MaxCalls /\ (ASetValue \/ AHasKey \/ AHasCat \/ AWrite \/ AReparse)
Spec == Init /\ [][Next]_vars

-----------------------------------------------------------------------------
\* invariants (design level)
RoundTrip == ParseCfg(RenderCfg(cfg)) = cfg
CanonicalReproduced == LET t == RenderCfg(cfg) IN RenderCfg(ParseCfg(t)) = t
StaysInDomain == InDomain(cfg)
SetValueLaw == call.op = "set" => SetValueChangesAllAndOnly(pre, cfg, call.key, call.val)
QueriesPure == call.op \in {"haskey", "hascat", "write", "reparse"} => cfg = pre
HasKeyAgrees == call.op = "haskey" =>
   call.ans = (\E i \in 1..Len(cfg) : \E j \in 1..Len(cfg[i].pairs) : cfg[i].pairs[j][1] = call.key)
\* true exactly for the categories present, including those without settings
HasCategoryAgrees == call.op = "hascat" =>
   call.ans = (call.cat \in {cfg[i].name : i \in 1..Len(cfg)})
\* set_value is idempotent and insensitive to interleaved queries
SetIdempotent == call.op = "set" => SetValue(cfg, call.key, call.val) = cfg

\* generator: one shortest history per distinct (pre, call, post)
EmitHistory == (Emit /\ call.op # "none") => PrintT("REPLAY|" \o ToJson(hist))

-----------------------------------------------------------------------------
\* Excel list laws on a small domain (evaluated once)
ExlNames == {<<70,111,111>>, <<98>>}
ExlIds == {-2147483647 - 1, -1, 0, 7, 2147483647}
ExlEntries == UNION {[1..n -> ExlNames \X ExlIds] : n \in 0..2}
ExlLaw == (cfg = <<>> /\ call = None) =>
  \A v \in ExlIds : \A es \in ExlEntries :
     LET x == [version |-> v, entries |-> es]
     IN /\ ParseExl(RenderExl(x)) = x
        /\ RenderExl(ParseExl(RenderExl(x))) = RenderExl(x)
        \* comment rows are dropped
        /\ ParseExl(RenderExl(x) \o <<LF, HASH, 120, COMMA, 49>>) = x
=============================================================================
