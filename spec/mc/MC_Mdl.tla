------------------------------- MODULE MC_Mdl -------------------------------
(* Design-level check of the vertex addressing formula of Mdl.tla and the     *)
(* generator of the declaration family: every supported (usage, type) pair    *)
(* alone and every pair of elements with distinct usages, over 1..3 streams.  *)
EXTENDS Mdl, TLC, Json
CONSTANT Emit

TypeSize(t) == CASE t = T_Single3 -> 12 [] t = T_Single4 -> 16 [] t \in {T_Byte4, T_ByteFloat4, T_Half2} -> 4
                 [] t \in {T_Half4, T_UShort4} -> 8
Pairs == {p \in (0..7) \X {2, 3, 5, 8, 13, 14, 17} : Supported([usage |-> p[1], type |-> p[2]])}
VARIABLE d     \* [els : sequence of <<usage, type, stream>>, gap : 0..1]
OneEl == {<< <<p[1], p[2], s>> >> : p \in Pairs, s \in 0..2}
TwoEl == {<< <<p[1], p[2], s>>, <<q[1], q[2], t>> >> : p \in Pairs, q \in Pairs, s \in {0, 1}, t \in {0, 1, 2}}
Init == d \in [els : OneEl \cup {x \in TwoEl : x[1][1] # x[2][1]}, gap : {0, 4}]
Next == UNCHANGED d

\* offsets packed per stream in declaration order, with an optional gap; stride = extent + gap
Offset(k) == FoldLeft(LAMBDA a, j : IF d.els[j][3] = d.els[k][3] THEN a + TypeSize(d.els[j][2]) + d.gap ELSE a,
                      0, [j \in 1..(k - 1) |-> j])
Stride(s) == FoldLeft(LAMBDA a, j : IF d.els[j][3] = s THEN a + TypeSize(d.els[j][2]) + d.gap ELSE a, 0,
                      [j \in 1..Len(d.els) |-> j])
\* byte range read for element k of vertex v, stream bases 1000 * stream
ByteRange(k, v) == LET s == d.els[k][3]
                   from == 1000 * s + Offset(k) + Stride(s) * v
               IN from..(from + TypeSize(d.els[k][2]) - 1)
ElementsReadOwnBytes ==
  \A k1, k2 \in 1..Len(d.els) : \A v1, v2 \in 0..3 :
     <<k1, v1>> # <<k2, v2>> => ByteRange(k1, v1) \cap ByteRange(k2, v2) = {}
StaysInsideStream ==
  \A k \in 1..Len(d.els) : \A v \in 0..3 :
     ByteRange(k, v) \subseteq (1000 * d.els[k][3])..(1000 * d.els[k][3] + 4 * Stride(d.els[k][3]) - 1)
EmitDecl == Emit => PrintT("REPLAY|" \o ToJson([els |-> d.els, gap |-> d.gap,
                              offsets |-> [k \in 1..Len(d.els) |-> Offset(k)],
                              strides |-> [s \in 1..3 |-> Stride(s - 1)]]))
=============================================================================
