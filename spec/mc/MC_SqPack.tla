------------------------------ MODULE MC_SqPack ------------------------------
(* Bounded model of a GameData handle: an installation (disk), the memo of   *)
(* loaded index files (cache) and the reply to the last query, over all      *)
(* small layouts and all query histories up to MaxCalls.  The search is the  *)
(* implementation's (chunk-major, index before index2, load-if-absent); the  *)
(* invariants compare it with the reference semantics of SqPack.tla.         *)
EXTENDS SqPack, TLC, Json

CONSTANTS MaxCalls, Emit
ByteCat(bs) == Flatten(bs)
ByteSize(b) == Len(b)
ByteLit(b) == b

P1 == <<98,103,47,102,102,120,105,118,47,122,47,110,49,46,108,103,98>>   \* bg/ffxiv/z/n1.lgb  (base, named)
P2 == <<98,103,47,101,120,49,47,122,47,110,49,46,108,103,98>>            \* bg/ex1/z/n1.lgb    (expansion 1)
P3 == <<98,103,47,101,120,55,47,122,47,110,49,46,108,103,98>>            \* bg/ex7/z/n1.lgb    (not installed -> base)
P4 == <<98,103,47,110,50,46,108,103,98>>                                 \* bg/n2.lgb          (depth 2)
P5 == <<66,71,47,69,88,49,47,90,47,78,49,46,76,71,66>>                   \* BG/EX1/Z/N1.LGB    (upper-case twin of P2)
P6 == <<119,104,97,116,47,120,47,121,46,122>>                            \* what/x/y.z         (unknown category)
P7 == <<98,103,47,101,120,49,47,122,47,110,51,46,108,103,98>>            \* bg/ex1/z/n3.lgb    (never stored)
P8 == <<66,103,47,78,50,46,76,103,98>>                                   \* Bg/N2.Lgb          (mixed-case twin of P4)
Storable == {P1, P2, P3, P4}
Paths == {P1, P2, P3, P4, P5, P6, P7, P8}
Repos == {0, 1}

KeyMemo == [p \in Paths |-> <<Key(1, p), Key(2, p)>>]
MemoKey(kind, p) == KeyMemo[p][kind]
ResMemo == [p \in Paths |-> <<PathCategory(p), IF PathCategory(p) = -1 THEN 0 ELSE PathRepo(p, Repos)>>]
MemoCat(p) == ResMemo[p][1]
MemoRepo(p, repos) == ResMemo[p][2]

\* a placement of one storable path: chunk, which index kinds list it, dat file
Placements == [chunk : {0, 1}, kinds : {{1}, {2}, {1, 2}}, dat : {0, 1}]
\* layout = partial function Storable -> Placements with at most 2 items
Layouts == UNION {[S -> Placements] : S \in {T \in SUBSET Storable : Cardinality(T) <= 2}}
ItemOff(p) == CASE p = P1 -> 16 [] p = P2 -> 24 [] p = P3 -> 32 [] p = P4 -> 40
DiskOf(lay) ==
  LET ids == {[repo |-> PathRepo(p, Repos), cat |-> 2, chunk |-> lay[p].chunk, kind |-> k] :
                p \in DOMAIN lay, k \in {1, 2}}
      used == {i \in ids : \E p \in DOMAIN lay : PathRepo(p, Repos) = i.repo /\ lay[p].chunk = i.chunk /\ i.kind \in lay[p].kinds}
      items(i) == SetToSortSeq({p \in DOMAIN lay : PathRepo(p, Repos) = i.repo /\ lay[p].chunk = i.chunk /\ i.kind \in lay[p].kinds},
                               LAMBDA a, b : ItemOff(a) < ItemOff(b))
  IN [repos |-> Repos, plat |-> 0,
      files |-> {[repo |-> i.repo, cat |-> i.cat, chunk |-> i.chunk, kind |-> i.kind,
                  entries |-> [j \in 1..Len(items(i)) |->
                                 [key |-> MemoKey(i.kind, items(i)[j]), dat |-> lay[items(i)[j]].dat, off |-> ItemOff(items(i)[j])]]] :
                 i \in used}]

VARIABLES lay, disk, cache, pre, call, hist
vars == <<lay, disk, cache, pre, call, hist>>
view == <<lay, cache, pre, call>>
FileId(f) == <<f.repo, f.cat, f.chunk, f.kind>>

\* the implementation's search on the memo: load candidates in order until one holds the key
Search(p) ==
  IF MemoCat(p) = -1 THEN [found |-> FALSE, loaded |-> {}]
  ELSE LET cands == FilesFor(disk, MemoRepo(p, Repos), MemoCat(p))
           holds(f) == \E i \in 1..Len(f.entries) : f.entries[i].key = MemoKey(f.kind, p)
           hit == {f \in cands : holds(f)}
           first == IF hit = {} THEN 1000 ELSE Min({CandidateOrder(f) : f \in hit})
       IN [found |-> hit # {},
           loaded |-> {FileId(f) : f \in {g \in cands : CandidateOrder(g) <= first}},
           loc |-> IF hit = {} THEN [chunk |-> -1, dat |-> -1, off |-> -1] ELSE Probe(disk, p)]

None == [op |-> "none"]
Init == /\ lay \in Layouts /\ disk = DiskOf(lay) /\ cache = {} /\ pre = {} /\ call = None
        /\ hist = <<>>
Query(op, p) ==
  LET r == Search(p)
      ans == IF ~r.found THEN [some |-> FALSE]
             ELSE [some |-> TRUE, chunk |-> r.loc.chunk, dat |-> r.loc.dat, off |-> r.loc.off]
  IN /\ pre' = cache /\ cache' = cache \cup r.loaded
     /\ call' = [op |-> op, path |-> p, ans |-> ans]
     /\ hist' = Append(hist, [op |-> op, path |-> p])
     /\ UNCHANGED <<lay, disk>>
Next == Len(hist) < MaxCalls /\ \E op \in {"exists", "find_offset", "extract"}, p \in Paths : Query(op, p)
Spec == Init /\ [][Next]_vars

-----------------------------------------------------------------------------
\* every reply is the reference answer, whatever was queried before
AnswerIsReference ==
  call.op # "none" =>
     /\ call.ans.some = Stored(disk, call.path)
     /\ call.ans.some => [chunk |-> call.ans.chunk, dat |-> call.ans.dat, off |-> call.ans.off] \in Locations(disk, call.path)
\* in every reachable memo state, every path would get the same answer as on a fresh handle
HistoryFree == \A p \in Paths : Search(p).found = Stored(disk, p)
CachePure == cache \subseteq {FileId(f) : f \in disk.files}
CaseFree == /\ Stored(disk, P5) = Stored(disk, P2) /\ Stored(disk, P8) = Stored(disk, P4)
            /\ Locations(disk, P5) = Locations(disk, P2) /\ Locations(disk, P8) = Locations(disk, P4)
\* a second segment that is not an installed repository resolves in the base repository
FallbackToBase == PathRepo(P3, Repos) = 0 /\ PathRepo(P4, Repos) = 0 /\ PathRepo(P2, Repos) = 1 /\ PathRepo(P1, Repos) = 0
UnknownCategoryAbsent == ~Stored(disk, P6)
\* a consistent layout designates one location per stored path
Unambiguous == \A p \in Paths : Cardinality(Locations(disk, p)) <= 1

LayList == LET ps == SetToSeq(DOMAIN lay)
           IN [i \in 1..Len(ps) |-> [path |-> ps[i], chunk |-> lay[ps[i]].chunk, kinds |-> SetToSeq(lay[ps[i]].kinds),
                                     dat |-> lay[ps[i]].dat, off |-> ItemOff(ps[i])]]
EmitHistory == (Emit /\ call.op # "none") => PrintT("REPLAY|" \o ToJson([layout |-> LayList, calls |-> hist]))
=============================================================================
