INIT Init
NEXT Next
INVARIANT AddressingBijective
INVARIANT PaletteLaws
CHECK_DEADLOCK FALSE
