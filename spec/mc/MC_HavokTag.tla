---------------------------- MODULE MC_HavokTag ----------------------------
(* C16: the tag file reader of HavokTag.tla explored as a state machine over  *)
(* every file a small writer can produce: 1..2 bones with equal or different  *)
(* names (string back-references) and every parent choice, with / without a   *)
(* decoy variant, absent / present inherited and optional members, minimal    *)
(* and padded integers, three type table orders.  One TagStep per action.     *)
EXTENDS HavokTag, TLC

S_hkRootLevelContainerNamedVariant == <<104, 107, 82, 111, 111, 116, 76, 101, 118, 101, 108, 67, 111, 110, 116, 97, 105, 110, 101, 114, 78, 97, 109, 101, 100, 86, 97, 114, 105, 97, 110, 116>>
S_hkRootLevelContainer == <<104, 107, 82, 111, 111, 116, 76, 101, 118, 101, 108, 67, 111, 110, 116, 97, 105, 110, 101, 114>>
S_hkBaseObject == <<104, 107, 66, 97, 115, 101, 79, 98, 106, 101, 99, 116>>
S_hkReferencedObject == <<104, 107, 82, 101, 102, 101, 114, 101, 110, 99, 101, 100, 79, 98, 106, 101, 99, 116>>
S_hkaAnimationContainer == <<104, 107, 97, 65, 110, 105, 109, 97, 116, 105, 111, 110, 67, 111, 110, 116, 97, 105, 110, 101, 114>>
S_hkaBone == <<104, 107, 97, 66, 111, 110, 101>>
S_hkaSkeleton == <<104, 107, 97, 83, 107, 101, 108, 101, 116, 111, 110>>
S_name == <<110, 97, 109, 101>>
S_className == <<99, 108, 97, 115, 115, 78, 97, 109, 101>>
S_variant == <<118, 97, 114, 105, 97, 110, 116>>
S_namedVariants == <<110, 97, 109, 101, 100, 86, 97, 114, 105, 97, 110, 116, 115>>
S_memSizeAndFlags == <<109, 101, 109, 83, 105, 122, 101, 65, 110, 100, 70, 108, 97, 103, 115>>
S_skeletons == <<115, 107, 101, 108, 101, 116, 111, 110, 115>>
S_bindings == <<98, 105, 110, 100, 105, 110, 103, 115>>
S_lockTranslation == <<108, 111, 99, 107, 84, 114, 97, 110, 115, 108, 97, 116, 105, 111, 110>>
S_parentIndices == <<112, 97, 114, 101, 110, 116, 73, 110, 100, 105, 99, 101, 115>>
S_bones == <<98, 111, 110, 101, 115>>
S_referencePose == <<114, 101, 102, 101, 114, 101, 110, 99, 101, 80, 111, 115, 101>>
S_referenceFloats == <<114, 101, 102, 101, 114, 101, 110, 99, 101, 70, 108, 111, 97, 116, 115>>
S_hkxScene == <<104, 107, 120, 83, 99, 101, 110, 101>>
S_Scene == <<83, 99, 101, 110, 101, 32, 68, 97, 116, 97>>
S_Merged == <<77, 101, 114, 103, 101, 100, 32, 65, 110, 105, 109, 97, 116, 105, 111, 110, 32, 67, 111, 110, 116, 97, 105, 110, 101, 114>>
S_hkaAnimationBinding == <<104, 107, 97, 65, 110, 105, 109, 97, 116, 105, 111, 110, 66, 105, 110, 100, 105, 110, 103>>
S_skel == <<115, 107, 101, 108, 101, 116, 111, 110>>
S_boneA == <<106, 95, 107, 111, 115, 105>>
S_boneB == <<110, 95, 104, 97, 114, 97>>

M(name, bits, cls) == [name |-> name, bits |-> bits, tuple |-> 0, cls |-> cls]
TypeDefs == <<
  [name |-> S_hkRootLevelContainerNamedVariant, parent |-> 0,
   members |-> <<M(S_name, TString, << >>), M(S_className, TString, << >>), M(S_variant, TObject, S_hkReferencedObject)>>],
  [name |-> S_hkRootLevelContainer, parent |-> 0, members |-> <<M(S_namedVariants, 16 + TStruct, S_hkRootLevelContainerNamedVariant)>>],
  [name |-> S_hkBaseObject, parent |-> 0, members |-> << >>],
  [name |-> S_hkReferencedObject, parent |-> 3, members |-> <<M(S_memSizeAndFlags, TInt, << >>)>>],
  [name |-> S_hkaAnimationContainer, parent |-> 4,
   members |-> <<M(S_skeletons, 16 + TObject, S_hkaSkeleton), M(S_bindings, 16 + TObject, S_hkaAnimationBinding)>>],
  [name |-> S_hkaBone, parent |-> 0, members |-> <<M(S_name, TString, << >>), M(S_lockTranslation, TByte, << >>)>>],
  [name |-> S_hkaSkeleton, parent |-> 4,
   members |-> <<M(S_name, TString, << >>), M(S_parentIndices, 16 + TInt, << >>), M(S_bones, 16 + TStruct, S_hkaBone),
                 M(S_referencePose, 16 + TVec12, << >>), M(S_referenceFloats, 16 + TReal, << >>)>>] >>
\* emission orders: a parent always precedes its children, nothing else is fixed
Orders == << <<1, 2, 3, 4, 5, 6, 7>>, <<6, 3, 4, 7, 5, 1, 2>>, <<3, 4, 7, 6, 2, 1, 5>> >>
FileIndex(o, d) == CHOOSE k \in 1..7 : o[k] = d
WriteTypes(w, o) ==
  FoldLeft(LAMBDA acc, k : LET d == TypeDefs[o[k]] IN EncType(acc, d.name, IF d.parent = 0 THEN 0 ELSE FileIndex(o, d.parent), d.members), w, Idx(7))

PoseOf(i) == [j \in 1..12 |-> <<i, j>>]
WriteFile(m) ==
  LET o == Orders[m.order]
      w0 == WriteTypes(EncInt(EncInt(WInit(m.z), 1), 3), o)
      nb == Len(m.bones)
      nv == IF m.decoy THEN 2 ELSE 1
      \* object 1: the root container with its variants, column by column
      r1 == EncRaw(EncInt(EncRaw(EncInt(EncInt(w0, 4), FileIndex(o, 2)), EncBits(<<TRUE>>)), nv), EncBits(<<TRUE, TRUE, TRUE>>))
      r2 == EncStrs(r1, IF m.decoy THEN <<S_Scene, S_Merged>> ELSE <<S_Merged>>)
      r3 == EncStrs(r2, IF m.decoy THEN <<S_hkxScene, S_hkaAnimationContainer>> ELSE <<S_hkaAnimationContainer>>)
      r4 == EncInts(r3, IF m.decoy THEN <<0, 2>> ELSE <<2>>)
      \* object 2: the animation container (inherited memSizeAndFlags, skeletons, bindings left out)
      c1 == EncRaw(EncInt(EncInt(r4, 4), FileIndex(o, 5)), EncBits(<<m.mem, TRUE, FALSE>>))
      c2 == IF m.mem THEN EncInt(c1, -1) ELSE c1
      c3 == EncInt(EncInt(c2, 1), 3)
      \* object 3: the skeleton
      s1 == EncRaw(EncInt(EncInt(c3, 4), FileIndex(o, 7)), EncBits(<<m.mem, TRUE, TRUE, TRUE, TRUE, m.floats>>))
      s2 == IF m.mem THEN EncInt(s1, 70000) ELSE s1
      s3 == EncStr(s2, S_skel)
      s4 == EncInts(EncInt(EncInt(s3, nb), 0), [i \in 1..nb |-> m.bones[i].parent])
      s5 == EncStrs(EncRaw(EncInt(s4, nb), EncBits(<<TRUE, m.lock>>)), [i \in 1..nb |-> m.bones[i].name])
      s6 == IF m.lock THEN EncRaw(s5, [i \in 1..nb |-> i % 2]) ELSE s5
      s7 == EncRaw(EncInt(s6, nb), FlattenSeq([i \in 1..nb |-> FlattenSeq([j \in 1..12 |-> BytesLE(PoseOf(i)[j])])]))
      s8 == IF m.floats THEN EncRaw(EncInt(s7, 1), <<0, 0, 128, 63>>) ELSE s7
  IN EncInt(s8, 7).out
Expected(m) == [i \in 1..Len(m.bones) |-> Bone(m.bones[i].name, m.bones[i].parent, PoseOf(i))]

Names == {S_boneA, S_boneB}
BoneSeqs == {<<[name |-> a, parent |-> -1]>> : a \in Names}
            \cup {<<[name |-> a, parent |-> -1], [name |-> c, parent |-> p]>> : a \in Names, c \in Names, p \in {-1, 0}}
Models == [bones : BoneSeqs, decoy : BOOLEAN, lock : BOOLEAN, mem : BOOLEAN, floats : BOOLEAN, z : 0..1, order : 1..3]

VARIABLES m, file, st
vars == <<m, file, st>>
Init == /\ m \in Models
        /\ file = WriteFile(m)
        /\ st = TagInit(file)
Next == /\ st.status = "run"
        /\ st' = TagStep(file, st)
        /\ UNCHANGED <<m, file>>
Spec == Init /\ [][Next]_vars /\ WF_vars(Next)

NeverBad == st.status \in {"run", "end"} /\ st.p <= Len(file)
\* at the end everything was consumed, every table has exactly the written entries, and the skeleton is the written one
EndState == st.status = "end" =>
  /\ st.p = Len(file)
  /\ Len(st.types) = 8 /\ Len(st.objs) = 4
  /\ \A k \in 1..7 : st.types[k + 1].name = TypeDefs[Orders[m.order][k]].name
  /\ SkeletonOf(st) = Expected(m)
\* a literal is remembered once: the writer never repeats one, so the table has no duplicates beyond the two built-ins
NoDuplicateStrings == \A i, j \in 3..Len(st.strs) : i # j => st.strs[i] # st.strs[j]
\* every item consumes input and the tables only grow
Progress == [][st'.p > st.p]_vars
TablesGrow == [][IsPrefix(st.strs, st'.strs) /\ IsPrefix(st.types, st'.types) /\ IsPrefix(st.objs, st'.objs)]_vars
Terminates == <>(st.status = "end")

\* packed integers: decode(encode(n) with z redundant groups, followed by anything) = n, at the right position
Once == st.p = 8 /\ m = [bones |-> <<[name |-> S_boneA, parent |-> -1]>>, decoy |-> FALSE, lock |-> FALSE, mem |-> FALSE, floats |-> FALSE, z |-> 0, order |-> 1]
Edge == {63, 64, 65, 8191, 8192, 8193, 1048575, 1048576, 1048577, 134217727, 134217728, 134217729, 1073741823}
PackedLaw == Once =>
  \A n \in (-3000..3000) \cup Edge \cup {0 - e : e \in Edge} : \A z \in 0..(5 - Len(EncPacked(n))) :      \* at most five bytes: a 32-bit reader
    LET e == EncPackedPadded(n, z)
        r == PackedAt(e \o <<255, 0>>, 0)
    IN r.v = n /\ r.p = Len(e) /\ (z = 0 => Len(e) = (IF n < 64 /\ n > -64 THEN 1 ELSE IF n < 8192 /\ n > -8192 THEN 2 ELSE IF n < 1048576 /\ n > -1048576 THEN 3
                                                        ELSE IF n < 134217728 /\ n > -134217728 THEN 4 ELSE 5))
\* presence bits: least significant bit first, a whole number of bytes
BitsLaw == Once =>
  \A n \in 0..10 : \A flags \in [1..n -> BOOLEAN] :
    LET e == EncBits(flags) IN Len(e) = (n + 7) \div 8 /\ BitField(e, 0, n).v = flags /\ BitField(e, 0, n).p = Len(e)
=============================================================================
