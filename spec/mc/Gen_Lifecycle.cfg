SPECIFICATION Spec
CONSTANTS
  Repos <- MRepos
  Chunks <- MChunks
  Paths <- MPaths
  Names <- MNames
  MaxCalls = 3
  Emit = TRUE
VIEW mview
CHECK_DEADLOCK FALSE
INVARIANT EmitHistory
