SPECIFICATION Spec
CONSTANTS MaxCalls = 3  Emit = TRUE
CONSTANT KeyFn <- MemoKey
CONSTANT CatFn <- MemoCat
CONSTANT RepoFn <- MemoRepo
CONSTANT Cat <- ByteCat
CONSTANT Size <- ByteSize
CONSTANT Lit <- ByteLit
VIEW view
CHECK_DEADLOCK FALSE
INVARIANT EmitHistory
