SPECIFICATION Spec
CONSTANTS MaxCalls = 3  Emit = TRUE
CONSTANT KeyFn <- MemoKey
CONSTANT CatFn <- MemoCat
CONSTANT RepoFn <- MemoRepo
VIEW view
CHECK_DEADLOCK FALSE
INVARIANT EmitHistory
