----------------------------- MODULE Gen_Faults -----------------------------
(* Enumerates the fault space of every base described in the file named by    *)
(* the environment variable BASES (one JSON object per line) and checks its   *)
(* laws: every fault changes the file, truncations shorten it, field faults    *)
(* keep its length and touch only their field.                                 *)
EXTENDS Faults, TLC, Json, IOUtils
Bases == ndJsonDeserialize(IOEnv.BASES)
VARIABLE i
Init == i \in 1..Len(Bases)
Next == UNCHANGED i
B == Bases[i]
\* a stand-in file with the base's field contents (only the fields matter for the laws); materialised once per state
StandOf(b) == LET f == [k \in 1..b.len |->
                          LET hit == {j \in 1..Len(b.fields) : k > b.fields[j].off /\ k <= b.fields[j].off + b.fields[j].w}
                          IN IF hit = {} THEN 170 ELSE LET j == Min(hit) IN b.fields[j].orig[k - b.fields[j].off]]
              IN SubSeq(f, 1, b.len)
SpaceLaws ==
  B.len > 700 \/
  LET stand == StandOf(B)
  IN \A f \in FaultsOf(B) :
       LET m == ApplyFault(stand, f)
       IN /\ m # stand
          /\ (f.k = "trunc" => Len(m) = f.n /\ f.n < B.len /\ m = SubSeq(stand, 1, f.n))
          /\ (f.k = "set" => Len(m) = B.len /\ \A k \in 1..B.len : (k <= f.off \/ k > f.off + Len(f.v)) => m[k] = stand[k])
Emit == PrintT("REPLAY|" \o ToJson([base |-> B.id, faults |-> SetToSeq(FaultsOf(B))]))
=============================================================================
