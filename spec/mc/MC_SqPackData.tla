---------------------------- MODULE MC_SqPackData ----------------------------
(* Data side of SqPack.tla on byte sequences: every model entry with 0..2     *)
(* blocks per section (6561 descriptors), standard and texture entries, and   *)
(* the block reader with the inflate-stream lifecycle as a state machine.     *)
EXTENDS SqPack, TLC
ByteCat(bs) == Flatten(bs)
ByteSize(b) == Len(b)
ByteLit(b) == b
NoKey(k, p) == <<>>
NoCat(p) == -1
NoRepo(p, r) == 0

B1 == <<1, 2>>
B2 == <<3>>
Runs == {<<>>, <<B1>>, <<B1, B2>>}

VARIABLES d, rd
vars == <<d, rd>>
\* rd: the block reader: blocks left, zlib stream state, outcome
Idle == [left |-> 0, z |-> "none", pc |-> "idle", res |-> "running", ok |-> TRUE]
Init == /\ d \in [kind : {"mdl"}, version : {5}, decls : {1}, mats : {2}, lods : {3}, stream : {FALSE}, edge : {FALSE},
                  stack : Runs, runtime : Runs, vertex : [1..3 -> Runs], index : [1..3 -> Runs]]
             \cup [kind : {"std"}, blocks : Runs]
             \cup [kind : {"tex"}, header : {<<9, 9>>}, mips : [1..2 -> Runs] \cup {<<>>}]
        /\ rd = [Idle EXCEPT !.left = 2, !.pc = "header"]

\* ---- block reader: header -> (raw copy | init -> inflate -> end) -> next block
ReadHeader == /\ rd.pc = "header" /\ rd.left > 0
              /\ \/ rd' = [rd EXCEPT !.pc = "copy"]                 \* 32000 marker: stored raw
                 \/ rd' = [rd EXCEPT !.pc = "init"]                 \* deflated
                 \/ rd' = [rd EXCEPT !.pc = "idle", !.res = "none"] \* unreadable header
Copy == /\ rd.pc = "copy"
        /\ \/ rd' = [rd EXCEPT !.pc = "header", !.left = @ - 1]
           \/ rd' = [rd EXCEPT !.pc = "idle", !.res = "none"]       \* short read
InflateInit == /\ rd.pc = "init"
               /\ \/ rd' = [rd EXCEPT !.pc = "inflate", !.z = "live"]
                  \/ rd' = [rd EXCEPT !.pc = "idle", !.res = "none"]   \* init failed: no stream was created
Inflate == /\ rd.pc = "inflate"
           /\ rd' = [rd EXCEPT !.pc = "end", !.ok = TRUE] \/ rd' = [rd EXCEPT !.pc = "end", !.ok = FALSE]
\* the stream is ended on success AND on failure before the reader returns
InflateEnd == /\ rd.pc = "end"
              /\ rd' = IF rd.ok THEN [rd EXCEPT !.pc = "header", !.left = @ - 1, !.z = "none"]
                       ELSE [rd EXCEPT !.pc = "idle", !.z = "none", !.res = "none"]
Done == /\ rd.pc = "header" /\ rd.left = 0 /\ rd' = [rd EXCEPT !.pc = "idle", !.res = "some"]
Next == (ReadHeader \/ Copy \/ InflateInit \/ Inflate \/ InflateEnd \/ Done) /\ UNCHANGED d
Spec == Init /\ [][Next]_vars

NoLiveStreamOnReturn == rd.res # "running" => rd.z = "none"
ModelHeaderLaw == d.kind = "mdl" => HeaderDescribesOutput(d)
LengthLaw ==
  /\ d.kind = "std" => Extract(d) = Flatten(d.blocks)
  /\ d.kind = "tex" => Len(Extract(d)) = 2 + FoldLeft(LAMBDA a, m : a + Len(Flatten(m)), 0, d.mips)
  /\ d.kind = "mdl" => Len(Extract(d)) = 68 + Len(Flatten(d.stack)) + Len(Flatten(d.runtime))
                         + FoldLeft(LAMBDA a, i : a + Len(Flatten(d.vertex[i])) + Len(Flatten(d.index[i])), 0, <<1, 2, 3>>)
=============================================================================
