---------------------------- MODULE MC_Dictionary ----------------------------
(* Beyond the list: the dictionary walk of Dictionary.tla explored as a state *)
(* machine over every small character trie.  A trie is laid out into the five *)
(* tables by Build (entry 0 and pointer 0 are reserved: 0 means NoTree); the  *)
(* walk takes one WalkStep per action; its output is judged against the       *)
(* declarative word list of the tree.  A second family damages one pointer of *)
(* the laid-out tables (every child pointer set to every entry id): the walk  *)
(* then either still terminates with some list or reports "bad" after at most *)
(* a bounded number of steps - it never runs on.                              *)
EXTENDS Dictionary, TLC
CONSTANTS Units, Depth, Page, Damage, Smalls

\* ------------------------------------------------------------------ trees
\* records tagged by kind: leaf / tail (units) / branch (kids = sequence of [u, sub]; compact: an all-leaf branch stored without pointers) / none
Leaf == [kind |-> "leaf"]
NoTree == [kind |-> "none"]
Tails == {[kind |-> "tail", tail |-> <<u>>] : u \in Units} \cup {[kind |-> "tail", tail |-> <<u, v>>] : u \in Units, v \in Units}
RECURSIVE Trees(_)
Kids(subs) == {<<[u |-> u, sub |-> s]>> : u \in Units, s \in subs}
              \cup {<<[u |-> u, sub |-> s], [u |-> v, sub |-> r]>> : u \in Units, v \in Units, s \in subs, r \in subs}
Trees(d) == IF d = 0 THEN Tails \cup {[kind |-> "branch", kids |-> k, compact |-> c] : k \in Kids({Leaf}), c \in BOOLEAN}
            ELSE Tails \cup {[kind |-> "branch", kids |-> k, compact |-> FALSE] : k \in Kids({Leaf} \cup Trees(d - 1))}
                       \cup {[kind |-> "branch", kids |-> k, compact |-> TRUE] : k \in Kids({Leaf})}
IsTail(tr) == tr.kind = "tail"

\* the property, read on the tree
RECURSIVE TreeWords(_, _)
TreeWords(tr, prefix) ==
  IF IsTail(tr) THEN <<prefix \o tr.tail>>
  ELSE FlattenSeq([i \in 1..Len(tr.kids) |->
                     IF tr.kids[i].sub = Leaf THEN <<prefix \o <<tr.kids[i].u>>>>
                     ELSE TreeWords(tr.kids[i].sub, prefix \o <<tr.kids[i].u>>)])
RECURSIVE Height(_)
Height(tr) == IF IsTail(tr) THEN 1
              ELSE 1 + Max({0} \cup {Height(tr.kids[i].sub) : i \in {j \in 1..Len(tr.kids) : tr.kids[j].sub # Leaf}})

\* ------------------------------------------------------------------ layout: returns the tables and the id of the tree's entry
Empty == [begin |-> << >>, inner |-> <<0>>, chara |-> << >>, word |-> << >>,
          entries |-> <<[flag |-> 0, sibling |-> 0, child |-> 0, offset |-> 0]>>, block |-> <<0, 7>>]
RECURSIVE Lay(_, _)
Lay(tr, t) ==
  IF IsTail(tr)
  THEN [t |-> [t EXCEPT !.word = @ \o tr.tail \o <<0>>,
                        !.entries = Append(@, [flag |-> 1, sibling |-> 1, child |-> 0, offset |-> 2 * Len(t.word)])],
        eid |-> Len(t.entries)]
  ELSE LET \* children first, left to right
           laid == FoldLeft(LAMBDA acc, i :
                              IF tr.kids[i].sub = Leaf THEN [t |-> acc.t, ids |-> Append(acc.ids, 0)]
                              ELSE LET r == Lay(tr.kids[i].sub, acc.t) IN [t |-> r.t, ids |-> Append(acc.ids, r.eid)],
                            [t |-> t, ids |-> << >>], DIdx(Len(tr.kids)))
           t1 == laid.t
           n == Len(tr.kids)
       IN [t |-> [t1 EXCEPT !.chara = @ \o [i \in 1..n |-> tr.kids[i].u],
                            !.inner = IF tr.compact THEN @ ELSE @ \o laid.ids,
                            !.entries = Append(@, [flag |-> 0, sibling |-> n, child |-> IF tr.compact THEN 0 ELSE Len(t1.inner),
                                                    offset |-> 2 * Len(t1.chara)])],
           eid |-> Len(t1.entries)]
\* start table of 2 * Page slots; the trees hang at the given slots (slot index -> tree); class 7 = high byte 1
Build(slots) ==
  LET r == FoldLeft(LAMBDA acc, id :
                      IF slots[id + 1] = NoTree THEN [t |-> acc.t, b |-> Append(acc.b, 0)]
                      ELSE LET x == Lay(slots[id + 1], acc.t) IN [t |-> x.t, b |-> Append(acc.b, x.eid)],
                    [t |-> Empty, b |-> << >>], [i \in 1..(2 * Page) |-> i - 1])
  IN [r.t EXCEPT !.begin = r.b, !.block = <<0, 1>>]
Expected(slots) ==
  FlattenSeq([k \in 1..(2 * Page) |-> IF slots[k] = NoTree THEN << >>
                                      ELSE TreeWords(slots[k], <<IF k - 1 >= Page THEN (k - 1) % Page ELSE 0>>)])

\* one damaged child pointer: inner[p] := v
Damaged(t) == {[t EXCEPT !.inner[p] = v] : p \in 2..Len(t.inner), v \in 0..(Len(t.entries) + 1)}

SmallsDef == {NoTree, [kind |-> "tail", tail |-> <<99>>], [kind |-> "tail", tail |-> <<99, 100>>]}
SmallsNone == {NoTree}

VARIABLES slots, t, w, n
vars == <<slots, t, w, n>>
\* one tree of the full depth at any slot, optionally a second, small one (a tail) at another slot
Place(big, at, small, sat) == [k \in 1..(2 * Page) |-> IF k = at THEN big ELSE IF k = sat THEN small ELSE NoTree]
SlotSets == {Place(big, at, small, sat) : big \in Trees(Depth), at \in 1..(2 * Page), small \in Smalls, sat \in 1..(2 * Page)}
Init == /\ slots \in SlotSets
        /\ t \in (IF Damage THEN Damaged(Build(slots)) ELSE {Build(slots)})
        /\ w = WalkInit
        /\ n = 0
Next == /\ w.status = "run"
        /\ w' = WalkStep(t, Page, w)
        /\ n' = n + 1
        /\ UNCHANGED <<slots, t>>
Spec == Init /\ [][Next]_vars /\ WF_vars(Next)

Intact == t = Build(slots)
\* an intact file is listed completely, in order, and never reported bad
Result == Intact /\ w.status = "done" => w.out = Expected(slots)
NeverBad == Intact => w.status # "bad"
\* what has been listed so far is a prefix of the final list
PrefixSoFar == Intact => IsPrefix(w.out, Expected(slots))
\* the stack never holds more frames than there are entries (+1 for the frame that detects it)
StackBounded == Len(w.stack) <= Len(t.entries) + 1
\* the recursive definition used by the trace specification agrees with the machine
Agrees == w.status # "run" => LET r == Listing(t, Page) IN /\ r.ok = (w.status = "done")
                                                          /\ (r.ok => r.ws = w.out)
\* the walk ends, also on damaged tables; Fuel bounds the steps (every step advances a round, pops, or starts a slot)
Terminates == <>(w.status # "run")
Fuel == 2 * Page + 2 + 40 * (Len(t.entries) + 1) * (Len(t.entries) + 1)
StepsBounded == n <= Fuel
=============================================================================
