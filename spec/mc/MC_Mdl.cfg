INIT Init
NEXT Next
CONSTANT Emit = FALSE
INVARIANT ElementsReadOwnBytes
INVARIANT StaysInsideStream
CHECK_DEADLOCK FALSE
