SPECIFICATION Spec
INVARIANT NeverBad
INVARIANT EndState
INVARIANT NoDuplicateStrings
INVARIANT PackedLaw
INVARIANT BitsLaw
PROPERTY Progress
PROPERTY TablesGrow
PROPERTY Terminates
CHECK_DEADLOCK FALSE
