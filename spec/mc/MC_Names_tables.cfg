INIT InitTriples
NEXT Stutter
CONSTANT Universe = {0}
INVARIANT TablesOk
INVARIANT SkeletonInjective
CHECK_DEADLOCK FALSE
