---------------------------- MODULE TextFormats ----------------------------
(* C08 - the configuration file and the Excel list as byte grammars, and the *)
(* configuration object as a state machine under set_value.                  *)
(* Written from the format description (docs.xiv.zone/format/cfg, exl) and   *)
(* the property statement.                                                   *)
(*                                                                           *)
(* Abstract configuration: a sequence of categories                         *)
(*     [name |-> bytes, pairs |-> << <<key bytes, value bytes>>, ... >>]     *)
EXTENDS Naturals, Integers, Sequences, SequencesExt, FiniteSets, Text

CR == 13  LF == 10  TAB == 9  NUL == 0  LT == 60  GT == 62  COMMA == 44  HASH == 35

-----------------------------------------------------------------------------
(* Writer: per category CRLF <name> CRLF, then key TAB value CRLF per line;  *)
(* one NUL terminates the file.                                              *)
RenderPair(p) == p[1] \o <<TAB>> \o p[2] \o <<CR, LF>>
RenderCat(c)  == <<CR, LF, LT>> \o c.name \o <<GT, CR, LF>> \o Flatten([i \in 1..Len(c.pairs) |-> RenderPair(c.pairs[i])])
RenderCfg(cfg) == Flatten([i \in 1..Len(cfg) |-> RenderCat(cfg[i])]) \o <<NUL>>

(* Reader: LF-separated lines, one trailing CR stripped; empty lines and the *)
(* NUL line are skipped; a line with < or > opens a category named by the    *)
(* text between its first and last character; other lines with a TAB are     *)
(* key/value pairs of the current category, split at the first TAB.          *)
StripCR(s) == IF Len(s) > 0 /\ s[Len(s)] = CR THEN SubSeq(s, 1, Len(s) - 1) ELSE s
Lines(t) ==
  LET raw == Split(t, LF)
      \* a final empty piece after a trailing LF is not a line; a final piece
      \* without LF is a line and keeps a trailing CR (only CRLF is a terminator)
      n == IF raw[Len(raw)] = <<>> THEN Len(raw) - 1 ELSE Len(raw)
  IN [i \in 1..n |-> IF i < Len(raw) THEN StripCR(raw[i]) ELSE raw[i]]
Has(s, c) == \E i \in 1..Len(s) : s[i] = c
IsCatLine(s) == Has(s, LT) \/ Has(s, GT)
ParseStep(acc, line) ==
  IF line = <<>> \/ line = <<NUL>> THEN acc
  ELSE IF IsCatLine(line)
       THEN Append(acc, [name |-> SubSeq(line, 2, Len(line) - 1), pairs |-> <<>>])
  ELSE IF acc # <<>> /\ Has(line, TAB)
       THEN LET k == FirstIndexOf(line, TAB)
                p == <<SubSeq(line, 1, k - 1), SubSeq(line, k + 1, Len(line))>>
            IN [acc EXCEPT ![Len(acc)].pairs = Append(@, p)]
  ELSE acc
ParseCfg(t) == FoldLeft(ParseStep, <<>>, Lines(t))

-----------------------------------------------------------------------------
(* The object under edit *)
SetValue(cfg, k, v) ==
  [i \in 1..Len(cfg) |->
     [cfg[i] EXCEPT !.pairs = [j \in 1..Len(cfg[i].pairs) |->
        IF cfg[i].pairs[j][1] = k THEN <<k, v>> ELSE cfg[i].pairs[j]]]]
HasKey(cfg, k) == \E i \in 1..Len(cfg) : \E j \in 1..Len(cfg[i].pairs) : cfg[i].pairs[j][1] = k
HasCategory(cfg, c) == \E i \in 1..Len(cfg) : cfg[i].name = c

\* "changes the value of every occurrence of that key and nothing else"
SetValueChangesAllAndOnly(old, new, k, v) ==
  /\ Len(new) = Len(old)
  /\ \A i \in 1..Len(old) :
       /\ new[i].name = old[i].name
       /\ Len(new[i].pairs) = Len(old[i].pairs)
       /\ \A j \in 1..Len(old[i].pairs) :
            /\ new[i].pairs[j][1] = old[i].pairs[j][1]
            /\ new[i].pairs[j][2] = IF old[i].pairs[j][1] = k THEN v ELSE old[i].pairs[j][2]

\* the domain of the round-trip laws (property's quantifier)
\* keys are free of TAB as well; names and values may hold it (brackets decide the line kind, the first TAB splits a pair)
PlainText(s) == \A i \in 1..Len(s) : s[i] \notin {LT, GT, TAB, CR, LF, NUL}
LineText(s) == \A i \in 1..Len(s) : s[i] \notin {LT, GT, CR, LF, NUL}
DistinctNames(cfg) == \A i, j \in 1..Len(cfg) : i # j => cfg[i].name # cfg[j].name
InDomain(cfg) ==
  /\ DistinctNames(cfg)
  /\ \A i \in 1..Len(cfg) :
       /\ LineText(cfg[i].name)
       /\ \A j \in 1..Len(cfg[i].pairs) : PlainText(cfg[i].pairs[j][1]) /\ LineText(cfg[i].pairs[j][2])

-----------------------------------------------------------------------------
(* Excel list: "EXLT,<version>" then one "name,id" row per entry, LF between *)
(* rows, no trailing newline; rows starting with # are comments.             *)
DecSigned(n) == IF n = (-2147483647 - 1) THEN <<45,50,49,52,55,52,56,51,54,52,56>>
                ELSE IF n < 0 THEN <<45>> \o Dec(-n) ELSE Dec(n)
S_EXLT == <<69, 88, 76, 84>>
RenderExl(x) ==
  S_EXLT \o <<COMMA>> \o DecSigned(x.version)
    \o Flatten([i \in 1..Len(x.entries) |-> <<LF>> \o x.entries[i][1] \o <<COMMA>> \o DecSigned(x.entries[i][2])])

\* signed 32-bit decimal: optional sign, 1..10 digits, in range; Nil otherwise
IsI32Text(s) ==
  LET neg == Len(s) > 0 /\ s[1] = 45
      pos == Len(s) > 0 /\ s[1] = 43
      d   == IF neg \/ pos THEN Tail(s) ELSE s
  IN /\ Len(d) >= 1 /\ \A i \in 1..Len(d) : IsDigit(d[i])
     /\ LET sig == SelectSeq(d, LAMBDA c : TRUE)   \* digits, leading zeros allowed
            nz  == IF \E i \in 1..Len(sig) : sig[i] # 48
                   THEN SubSeq(sig, Min({i \in 1..Len(sig) : sig[i] # 48}), Len(sig)) ELSE <<48>>
            lim == IF neg THEN <<50,49,52,55,52,56,51,54,52,56>> ELSE <<50,49,52,55,52,56,51,54,52,55>>
        IN \/ Len(nz) < 10
           \/ Len(nz) = 10 /\ (nz = lim \/ \E i \in 1..10 : (nz[i] < lim[i] /\ \A j \in 1..(i - 1) : nz[j] = lim[j]))
I32Value(s) ==
  LET neg == s[1] = 45
      d   == IF neg \/ s[1] = 43 THEN Tail(s) ELSE s
  \* accumulate negatively so that -2^31 is reachable without overflow
  IN LET m == FoldLeft(LAMBDA acc, c : acc * 10 - (c - 48), 0, d)
     IN IF neg THEN m ELSE -m
ExlStep(acc, line) ==
  IF ~Has(line, COMMA) THEN acc
  ELSE LET k == FirstIndexOf(line, COMMA)
           name == SubSeq(line, 1, k - 1)
           val  == SubSeq(line, k + 1, Len(line))
       IN IF ~IsI32Text(val) THEN acc
          ELSE IF name = S_EXLT THEN [acc EXCEPT !.version = I32Value(val)]
          ELSE IF Len(name) > 0 /\ name[1] = HASH THEN acc
          ELSE [acc EXCEPT !.entries = Append(@, <<name, I32Value(val)>>)]
ParseExl(t) == FoldLeft(ExlStep, [version |-> 0, entries |-> <<>>], Lines(t))
ExlContains(x, name) == \E i \in 1..Len(x.entries) : x.entries[i][1] = name
=============================================================================
