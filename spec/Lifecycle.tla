------------------------------ MODULE Lifecycle ------------------------------
(* Beyond the listed properties: the life cycle a launcher drives on ONE      *)
(* GameData handle - open, look up, patch, look up again, check for repair,   *)
(* repair - composed from the pieces the other modules specify in isolation   *)
(* (SqPack.tla: lookup on a fixed installation; ZiPatch.tla: a patch on a      *)
(* tree).  What the composition adds is the handle's *view* of the world:      *)
(*   - the repositories and their version strings are read once, at open;     *)
(*   - an index file is parsed the first time a lookup reaches it and kept;   *)
(*     files that were absent are looked for again on every lookup;           *)
(*   - apply_patch and perform_repair change the disk and leave the view.     *)
(* The module describes the library AS IMPLEMENTED (operators Do...) next to   *)
(* the answers a fresh handle would give (Fresh...), so that both the         *)
(* invariants that hold and the ideal ones that do not can be stated, and so   *)
(* that a trace of the real library can be checked against either.            *)
(*                                                                             *)
(* Abstraction: an index file is a function path -> location; hashing, file   *)
(* names and byte layouts are SqPack.tla's business.  One category.            *)
EXTENDS Naturals, Sequences, FiniteSets, FiniteSetsExt, TLC

CONSTANTS Repos,      \* repository numbers, 0 = base game
          Chunks,     \* chunk numbers, searched in ascending order
          Paths,      \* game paths
          Names(_)    \* the repository a path names by its second segment (need not be installed)

\* ---------------------------------------------------------------- the world
\* disk = [dirs  |-> set of expansion repositories whose directory exists (the base always exists),
\*         ver   |-> set of version files present: <<"game", 0>> (ffxivgame.ver), <<"repo", r>> (sqpack/<name>/<name>.ver),
\*         bck   |-> set of repositories with a readable backup version file,
\*         idx   |-> function <<repo, chunk>> -> (function path -> location), for the index files present]
HasDir(disk, r) == r = 0 \/ r \in disk.dirs
\* where a repository's version is READ from when a handle is opened, and where a repair WRITES it
VersionReadAt(r) == IF r = 0 THEN <<"game", 0>> ELSE <<"repo", r>>
VersionWrittenAt(r) == <<"repo", r>>
FilesOf(disk, r) == {k \in DOMAIN disk.idx : k[1] = r}
Keep(f, S) == [x \in S |-> f[x]]

\* ---------------------------------------------------------------- the handle's view
\* view = [known |-> repositories found at open, hadVersion |-> those whose version file was readable at open,
\*         snap |-> function <<repo, chunk>> -> index content, for the files parsed so far]
DoOpen(disk) ==
  [known |-> {r \in Repos : HasDir(disk, r)},
   hadVersion |-> {r \in Repos : HasDir(disk, r) /\ VersionReadAt(r) \in disk.ver},
   snap |-> << >>]

\* a path resolves in the repository it names when the handle knows it, else in the base
ResolveIn(known, p) == IF Names(p) \in known THEN Names(p) ELSE 0
\* what the handle sees of file k: its snapshot when parsed before, else the file on disk (parsed now), else nothing
Seen(disk, view, k) == IF k \in DOMAIN view.snap THEN view.snap[k] ELSE IF k \in DOMAIN disk.idx THEN disk.idx[k] ELSE << >>
Lists(content, p) == p \in DOMAIN content
\* lookup: chunks in ascending order, first file that lists the path; every file reached on the way is parsed and kept
DoQuery(disk, view, p) ==
  LET r == ResolveIn(view.known, p)
      hits == {c \in Chunks : Lists(Seen(disk, view, <<r, c>>), p)}
      last == IF hits = {} THEN Max(Chunks) ELSE Min(hits)
      reached == {<<r, c>> : c \in {d \in Chunks : d <= last}}
      parsed == {k \in reached : k \notin DOMAIN view.snap /\ k \in DOMAIN disk.idx}
  IN [ans |-> IF hits = {} THEN [some |-> FALSE] ELSE [some |-> TRUE, loc |-> Seen(disk, view, <<r, Min(hits)>>)[p]],
      view |-> [view EXCEPT !.snap = [k \in DOMAIN view.snap \cup parsed |-> IF k \in DOMAIN view.snap THEN view.snap[k] ELSE disk.idx[k]]]]
\* the answer of a handle opened now
FreshAnswer(disk, p) == DoQuery(disk, DoOpen(disk), p).ans

\* ---------------------------------------------------------------- patches (their effect on index files)
\* write: the index file <<r, c>> gets this content (its directory is created when missing); delete: it is removed
DoPatch(disk, d) ==
  CASE d.k = "write" -> [disk EXCEPT !.idx = [k \in DOMAIN disk.idx \cup {<<d.repo, d.chunk>>} |-> IF k = <<d.repo, d.chunk>> THEN d.content ELSE disk.idx[k]],
                                     !.dirs = IF d.repo = 0 THEN @ ELSE @ \cup {d.repo}]
    [] d.k = "delete" -> [disk EXCEPT !.idx = Keep(disk.idx, DOMAIN disk.idx \ {<<d.repo, d.chunk>>})]

\* ---------------------------------------------------------------- repair
\* needs_repair: the repositories whose version was unreadable AT OPEN; the action looks at the backup file NOW
DoNeedsRepair(disk, view) ==
  {[repo |-> r, action |-> IF r \in disk.bck THEN "restore" ELSE "missing"] : r \in view.known \ view.hadVersion}
\* perform_repair: "missing" empties the repository directory; both write the version file
DoRepair(disk, todo) ==
  LET wiped == {t.repo : t \in {u \in todo : u.action = "missing"}}
  IN [disk EXCEPT !.idx = Keep(disk.idx, {k \in DOMAIN disk.idx : k[1] \notin wiped}),
                  !.ver = @ \cup {VersionWrittenAt(t.repo) : t \in todo},
                  !.bck = @ \ wiped]
FreshNeedsRepair(disk) == DoNeedsRepair(disk, DoOpen(disk))
=============================================================================
