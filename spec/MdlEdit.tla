------------------------------- MODULE MdlEdit -------------------------------
(* C07 - a parsed model under edit.  Abstract state: per LOD a sequence of     *)
(* meshes [v |-> vertex count, i |-> index count, strides |-> Seq(Nat),       *)
(* subs |-> Seq(<<index count, index offset>>)], plus the shape tables'       *)
(* sizes.  UpdateHeaders is the header recomputation as designed in the       *)
(* library (mesh start index = offset of its first sub-mesh, stream offsets   *)
(* sequential per LOD, index sections padded to 16, LOD sections laid out     *)
(* vertex-then-index after the runtime part); the invariants are the          *)
(* property's self-consistency conditions.                                     *)
EXTENDS Naturals, Sequences, SequencesExt, FiniteSets, FiniteSetsExt

CONSTANT RuntimeBase      \* bytes before the data that do not depend on geometry

Sum(f, S) == FoldSet(LAMBDA x, a : a + f[x], 0, S)
SumSeq(q) == FoldLeft(LAMBDA a, x : a + x, 0, q)
StrideSum(m) == SumSeq(m.strides)
\* index padding as implemented: to the next multiple of 16, a full 16 when already aligned
PadIdx(n) == n + (IF n % 16 = 0 THEN 16 ELSE 16 - (n % 16))

\* header derived from the abstract model (shapeBytes: size of the shape tables in the runtime part)
UpdateHeaders(lods, shapeBytes) ==
  LET dataOffset == RuntimeBase + shapeBytes
      vsize(l) == SumSeq([j \in 1..Len(lods[l]) |-> lods[l][j].v * StrideSum(lods[l][j])])
      isize(l) == PadIdx(2 * SumSeq([j \in 1..Len(lods[l]) |-> lods[l][j].i]))
      before(l) == SumSeq([k \in 1..(l - 1) |-> vsize(k) + isize(k)])
      \* stream offsets: sequential over meshes and streams of the LOD
      vb(l, j, s) == SumSeq([k \in 1..(j - 1) |-> lods[l][k].v * StrideSum(lods[l][k])])
                     + lods[l][j].v * SumSeq(SubSeq(lods[l][j].strides, 1, s - 1))
  IN [l \in 1..Len(lods) |->
        [voff |-> dataOffset + before(l), vsize |-> vsize(l),
         ioff |-> dataOffset + before(l) + vsize(l), isize |-> isize(l),
         meshes |-> [j \in 1..Len(lods[l]) |->
                       [start |-> lods[l][j].subs[1][2],
                        vb |-> [s \in 1..Len(lods[l][j].strides) |-> vb(l, j, s)]]]]]
FileLen(h) == h[Len(h)].ioff + h[Len(h)].isize

\* ---- the property's conditions on a derived header
Iv(a, b) == <<a, b>>
Disj(x, y) == x[2] <= y[1] \/ y[2] <= x[1] \/ x[1] = x[2] \/ y[1] = y[2]
Sections(h) == {Iv(h[l].voff, h[l].voff + h[l].vsize) : l \in 1..Len(h)} \cup {Iv(h[l].ioff, h[l].ioff + h[l].isize) : l \in 1..Len(h)}
SectionsDisjoint(h) == \A x, y \in Sections(h) : x # y => Disj(x, y)
SectionsInBounds(h) == \A x \in Sections(h) : x[2] <= FileLen(h)
IndexPadded16(h) == \A l \in 1..Len(h) : h[l].isize % 16 = 0
SizesAreCountTimesStride(lods, h) ==
  \A l \in 1..Len(h) : /\ h[l].vsize = SumSeq([j \in 1..Len(lods[l]) |-> lods[l][j].v * StrideSum(lods[l][j])])
                       /\ h[l].isize >= 2 * SumSeq([j \in 1..Len(lods[l]) |-> lods[l][j].i])
\* every stream of every mesh lies inside its LOD's vertex section, streams do not overlap
StreamsTile(lods, h) ==
  \A l \in 1..Len(h) :
    LET rs == {<<j, s>> : j \in 1..Len(lods[l]), s \in 1..3}
        ok(p) == p[2] <= Len(lods[l][p[1]].strides)
        rng(p) == Iv(h[l].meshes[p[1]].vb[p[2]], h[l].meshes[p[1]].vb[p[2]] + lods[l][p[1]].v * lods[l][p[1]].strides[p[2]])
    IN /\ \A p \in {q \in rs : ok(q)} : rng(p)[2] <= h[l].vsize
       /\ \A p, q \in {r \in rs : ok(r)} : p # q => Disj(rng(p), rng(q))
\* with consistently supplied sub-mesh ranges the meshes' index ranges are disjoint and inside the section
ConsistentSubs(lod) ==    \* contiguous split of the LOD's index list over meshes and their sub-meshes
  LET flat == FoldLeft(LAMBDA a, j : a \o lod[j].subs, <<>>, [j \in 1..Len(lod) |-> j])
  IN /\ \A j \in 1..Len(lod) : SumSeq([s \in 1..Len(lod[j].subs) |-> lod[j].subs[s][1]]) = lod[j].i
     /\ flat[1][2] = 0
     /\ \A k \in 1..(Len(flat) - 1) : flat[k + 1][2] = flat[k][2] + flat[k][1]
MeshIndexRangesDisjoint(lods, h) ==
  \A l \in 1..Len(h) : ConsistentSubs(lods[l]) =>
     /\ \A j \in 1..Len(lods[l]) : 2 * (h[l].meshes[j].start + lods[l][j].i) <= h[l].isize
     /\ \A j, k \in 1..Len(lods[l]) : j # k =>
          Disj(Iv(h[l].meshes[j].start, h[l].meshes[j].start + lods[l][j].i), Iv(h[l].meshes[k].start, h[l].meshes[k].start + lods[l][k].i))
=============================================================================
