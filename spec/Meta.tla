-------------------------------- MODULE Meta --------------------------------
(* C10 - file-info tables (FIIN) and patch lists.                            *)
(* FIIN: "FileInfo", 16 zero bytes, u32 1024, u32 size of the entry table,   *)
(* zero padding up to 1024, then 96-byte records: u32 size, 4 zero bytes,    *)
(* 64-byte NUL-padded name, 20-byte SHA-1 padded to 24 (all little-endian).  *)
(* Patch list: multipart-style text, CRLF line ends, tab-separated rows.     *)
(* 63-bit numbers are decimal digit strings (byte sequences) throughout.     *)
EXTENDS Naturals, Sequences, SequencesExt, Words, Text, Hashes

Zeros(n) == [i \in 1..n |-> 0]
PadTo(s, n) == s \o Zeros(n - Len(s))
LE32(n) == BytesLE(FromNat(n))
S_FileInfo == <<70,105,108,101,73,110,102,111>>

\* entry = [size |-> Nat, name |-> bytes (1..64, no NUL; 64 fills the field), digest |-> 20 bytes]
RenderFiinEntry(e) == LE32(e.size) \o Zeros(4) \o PadTo(e.name, 64) \o PadTo(e.digest, 24)
RenderFiin(es) ==
  S_FileInfo \o Zeros(16) \o LE32(1024) \o LE32(96 * Len(es)) \o Zeros(992)
    \o Flatten([i \in 1..Len(es) |-> RenderFiinEntry(es[i])])
EntryOf(name, content) == [size |-> Len(content), name |-> name, digest |-> Sha1(content)]

TrimNul(s) ==   \* strip leading and trailing NULs
  LET nz == {i \in 1..Len(s) : s[i] # 0}
  IN IF nz = {} THEN <<>> ELSE SubSeq(s, Min(nz), Max(nz))
ParseFiin(b) ==
  LET n == U16LE(b, 28) \div 96       \* table size < 65536 in the bounded domain
  IN [i \in 1..n |->
        LET o == 1024 + 96 * (i - 1)
        IN [size |-> U16LE(b, o) + 65536 * U16LE(b, o + 2),
            name |-> TrimNul(SubSeq(b, o + 9, o + 72)),
            digest |-> SubSeq(b, o + 73, o + 92)]]

-----------------------------------------------------------------------------
(* decimal digit strings *)
IsDigits(s) == Len(s) >= 1 /\ \A i \in 1..Len(s) : IsDigit(s[i])
StripZeros(s) ==
  LET nz == {i \in 1..Len(s) : s[i] # 48}
  IN IF nz = {} THEN <<48>> ELSE SubSeq(s, Min(nz), Len(s))
DecAdd(a, b) ==
  LET n == (IF Len(a) > Len(b) THEN Len(a) ELSE Len(b)) + 1
      da(k) == IF k <= Len(a) THEN a[Len(a) - k + 1] - 48 ELSE 0   \* k-th digit from the right
      db(k) == IF k <= Len(b) THEN b[Len(b) - k + 1] - 48 ELSE 0
      r == FoldLeft(LAMBDA acc, k : LET sum == da(k) + db(k) + acc[1]
                                    IN <<sum \div 10, <<48 + (sum % 10)>> \o acc[2]>>,
                    <<0, << >> >>, [k \in 1..n |-> k])
  IN StripZeros(r[2])
DecSum(ds) == FoldLeft(DecAdd, <<48>>, ds)

-----------------------------------------------------------------------------
(* Patch list.  kind "boot" | "game".                                         *)
(* entry = [length, size : digits, a, b : digits, version : bytes,           *)
(*          hbs : digits, hashes : Seq(bytes), url : bytes]                   *)
CRLF == <<13, 10>>
S_Dashes == <<45, 45>>
S_CT  == <<67,111,110,116,101,110,116,45,84,121,112,101,58,32,97,112,112,108,105,99,97,116,105,111,110,47,111,99,116,101,116,45,115,116,114,101,97,109>>
S_CL  == <<67,111,110,116,101,110,116,45,76,111,99,97,116,105,111,110,58,32>>
S_XPL == <<88,45,80,97,116,99,104,45,76,101,110,103,116,104,58,32>>
S_sha1 == <<115,104,97,49>>
T == <<9>>
RenderRow(kind, e) ==
  e.length \o T \o e.size \o T \o e.a \o T \o e.b \o T \o e.version \o T
    \o (IF kind = "game" THEN S_sha1 \o T \o e.hbs \o T \o Join(e.hashes, <<44>>) \o T ELSE <<>>)
    \o e.url \o CRLF
RenderList(kind, id, loc, es) ==
  S_Dashes \o id \o CRLF \o S_CT \o CRLF \o S_CL \o loc \o CRLF
    \o S_XPL \o DecSum([i \in 1..Len(es) |-> es[i].length]) \o CRLF \o CRLF
    \o Flatten([i \in 1..Len(es) |-> RenderRow(kind, es[i])])
    \o S_Dashes \o id \o S_Dashes \o CRLF

\* split on CRLF
SplitCRLF(t) ==
  LET ps == SelectSeq([i \in 1..(Len(t) - 1) |-> i], LAMBDA i : t[i] = 13 /\ t[i + 1] = 10)
      n == Len(ps)
      from(k) == IF k = 1 THEN 1 ELSE ps[k - 1] + 2
      to(k) == IF k = n + 1 THEN Len(t) ELSE ps[k] - 1
  IN [k \in 1..(n + 1) |-> SubSeq(t, from(k), to(k))]
\* what a parse must recover: the listed fields of every row and the total
ParseRow(kind, row) ==
  LET f == Split(row, 9)
  IN IF kind = "boot"
     THEN [length |-> f[1], size |-> f[2], version |-> f[5], hbs |-> <<48>>, hashes |-> <<>>, url |-> f[6]]
     ELSE [length |-> f[1], size |-> f[2], version |-> f[5], hbs |-> f[7], hashes |-> Split(f[8], 44), url |-> f[9]]
ParseList(kind, t) ==
  LET parts == SplitCRLF(t)
      rows == SubSeq(parts, 6, Len(parts) - 2)
      xpl == SelectSeq(parts, LAMBDA p : StartsWith(p, S_XPL))
  IN [total |-> IF xpl = <<>> THEN <<48>> ELSE SubSeq(xpl[1], Len(S_XPL) + 1, Len(xpl[1])),
      patches |-> [i \in 1..Len(rows) |-> ParseRow(kind, rows[i])]]
\* projection of an entry to the fields a parse recovers
Listed(kind, e) ==
  [length |-> e.length, size |-> e.size, version |-> e.version,
   hbs |-> IF kind = "game" THEN e.hbs ELSE <<48>>,
   hashes |-> IF kind = "game" THEN e.hashes ELSE <<>>, url |-> e.url]
=============================================================================
