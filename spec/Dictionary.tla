----------------------------- MODULE Dictionary -----------------------------
(* Beyond the listed properties (value level; C18 only says "no crash"):      *)
(* the word dictionary (.dic), a character trie flattened into five tables.   *)
(*                                                                            *)
(*   begin    u16 per start index; 0 = no word starts here, else an entry id  *)
(*   inner    u16 child pointers: entry id of the subtree, 0 = the word ends  *)
(*   chara    u16 code units: the branch characters of unflagged entries      *)
(*   word     u16 code units, NUL-terminated tails of flagged entries         *)
(*   entries  (flag, sibling, child, offset):                                 *)
(*            flag = 0  a branch with `sibling` children; child i has the     *)
(*                      character chara[offset/2 + i] and, when child # 0,    *)
(*                      the pointer inner[child + i]                          *)
(*            flag # 0  a tail: the units of `word` from offset/2 up to the   *)
(*                      next NUL                                              *)
(*   block    256 words: class of the high byte of a start index              *)
(*                                                                            *)
(* The listing of all words is a depth-first walk.  It is written three       *)
(* times here: declaratively on a tree (TreeWords, used by the model), as a   *)
(* recursive function on the tables (Listing, used by the trace              *)
(* specification) and as a state machine with an explicit stack (WalkStep),   *)
(* which is what the model explores and what shows where a walk can fail to   *)
(* end: a pointer cycle makes the stack grow beyond the number of entries,    *)
(* and the machine then stops with status "bad" - such a file has no word     *)
(* list.  Table layout and the quirks of the walk are as implemented (the     *)
(* format is documented by the library only): a flagged entry yields the same *)
(* tail for each of its `sibling` rounds; the first character of a word is    *)
(* the low byte of its start index when the index's high byte has a class,    *)
(* else NUL.                                                                  *)
EXTENDS Words, Sequences, SequencesExt, FiniteSetsExt, Naturals

DIdx(n) == [i \in 1..n |-> i]
None == [some |-> FALSE]
Some(v) == [some |-> TRUE, v |-> v]

\* ------------------------------------------------------------------ strings of one (entry, round)
\* entry ids, offsets and indices are 0-based as in the file; sequences are 1-based
HasEntry(t, eid) == eid >= 0 /\ eid < Len(t.entries)
TailEnd(t, b) == Min({k \in (b + 1)..Len(t.word) : k = Len(t.word) \/ t.word[k + 1] = 0})
StrOf(t, eid, i) ==
  IF ~HasEntry(t, eid) THEN None
  ELSE LET e == t.entries[eid + 1]
       IN IF e.flag = 0
          THEN LET pos == e.offset \div 2 + i
               IN IF pos >= Len(t.chara) THEN None
                  ELSE IF t.chara[pos + 1] = 0 THEN None ELSE Some(<<t.chara[pos + 1]>>)
          ELSE LET b == e.offset \div 2
               IN IF b >= Len(t.word) THEN None ELSE Some(SubSeq(t.word, b + 1, TailEnd(t, b)))

\* first character of the words that start at index id (Page = 256 in the file)
HasClass(t, hi) == \E k \in 1..Len(t.block) : t.block[k] % 65536 = hi
FirstUnit(t, id, page) == IF id \div page = 0 \/ ~HasClass(t, id \div page) THEN 0 ELSE id % page

\* ------------------------------------------------------------------ the walk as a state machine
\* w = [id, stack, out, status]; a frame is [eid, i, prefix]
WalkInit == [id |-> 0, stack |-> << >>, out |-> << >>, status |-> "run"]
Top(w) == w.stack[Len(w.stack)]
Pop(w) == [w EXCEPT !.stack = SubSeq(w.stack, 1, Len(w.stack) - 1)]
Advance(w) == [w EXCEPT !.stack[Len(w.stack)].i = @ + 1]
Emit(w, s) == [Advance(w) EXCEPT !.out = Append(@, s)]
WalkStep(t, page, w) ==
  IF w.status # "run" THEN w
  ELSE IF w.stack = << >>
  THEN IF w.id >= Len(t.begin) THEN [w EXCEPT !.status = "done"]
       ELSE IF t.begin[w.id + 1] = 0 THEN [w EXCEPT !.id = @ + 1]
       ELSE [w EXCEPT !.id = @ + 1,
                      !.stack = <<[eid |-> t.begin[w.id + 1], i |-> 0, prefix |-> <<FirstUnit(t, w.id, page)>>]>>]
  ELSE LET f == Top(w)
       IN IF ~HasEntry(t, f.eid) \/ Len(w.stack) > Len(t.entries) THEN [w EXCEPT !.status = "bad"]
          ELSE LET node == t.entries[f.eid + 1]
               IN IF f.i >= node.sibling THEN Pop(w)
                  ELSE LET cur == StrOf(t, f.eid, f.i)
                       IN IF ~cur.some THEN Pop(w)                       \* the rest of this node is given up
                          ELSE IF node.child = 0 THEN Emit(w, f.prefix \o cur.v)
                          ELSE IF node.child + f.i >= Len(t.inner) THEN [w EXCEPT !.status = "bad"]
                          ELSE LET nxt == t.inner[node.child + f.i + 1]
                               IN IF nxt = 0 THEN Emit(w, f.prefix \o cur.v)
                                  ELSE [Advance(w) EXCEPT !.stack = Append(@, [eid |-> nxt, i |-> 0, prefix |-> f.prefix \o cur.v])]

\* ------------------------------------------------------------------ the same listing as a recursive function
\* result [ok, ws]; depth counts the entries on the current path
RECURSIVE NodeWords(_, _, _, _)
NodeWords(t, eid, prefix, depth) ==
  IF ~HasEntry(t, eid) \/ depth > Len(t.entries) THEN [ok |-> FALSE, ws |-> << >>]
  ELSE LET node == t.entries[eid + 1]
           round(acc, k) ==
             IF ~acc.ok \/ acc.stop THEN acc
             ELSE LET i == k - 1
                      cur == StrOf(t, eid, i)
                  IN IF ~cur.some THEN [acc EXCEPT !.stop = TRUE]
                     ELSE IF node.child = 0 THEN [acc EXCEPT !.ws = Append(@, prefix \o cur.v)]
                     ELSE IF node.child + i >= Len(t.inner) THEN [acc EXCEPT !.ok = FALSE]
                     ELSE LET nxt == t.inner[node.child + i + 1]
                          IN IF nxt = 0 THEN [acc EXCEPT !.ws = Append(@, prefix \o cur.v)]
                             ELSE LET sub == NodeWords(t, nxt, prefix \o cur.v, depth + 1)
                                  IN [acc EXCEPT !.ok = sub.ok, !.ws = @ \o sub.ws]
           r == FoldLeft(round, [ok |-> TRUE, stop |-> FALSE, ws |-> << >>], DIdx(node.sibling))
       IN [ok |-> r.ok, ws |-> r.ws]
Listing(t, page) ==
  FoldLeft(LAMBDA acc, k :
             IF ~acc.ok \/ t.begin[k] = 0 THEN acc
             ELSE LET sub == NodeWords(t, t.begin[k], <<FirstUnit(t, k - 1, page)>>, 1)
                  IN [ok |-> sub.ok, ws |-> acc.ws \o sub.ws],
           [ok |-> TRUE, ws |-> << >>], DIdx(Len(t.begin)))

\* ------------------------------------------------------------------ the file (as implemented)
\* hdr  = the bytes 0x8724 .. 0x8B50 of the file: 5 block offsets, 5 block lengths, 4 bytes, 256 class words
\* data = the bytes from 0x8950 on, which the block offsets are relative to (the generator keeps blocks behind the
\*        class words, which overlap the first 0x200 bytes of this area)
D32(b, o) == U16LE(b, o) + 65536 * U16LE(b, o + 2)
BlockOff(hdr, k) == D32(hdr, 4 * (k - 1))
BlockLen(hdr, k) == D32(hdr, 20 + 4 * (k - 1))
U16s(data, off, n) == [i \in 1..n |-> U16LE(data, off + 2 * (i - 1))]
Tables(hdr, data) ==
  [begin |-> U16s(data, BlockOff(hdr, 1), BlockLen(hdr, 1) \div 2),
   inner |-> U16s(data, BlockOff(hdr, 2), BlockLen(hdr, 2) \div 2),
   chara |-> U16s(data, BlockOff(hdr, 3), BlockLen(hdr, 3) \div 2),
   word  |-> U16s(data, BlockOff(hdr, 4), BlockLen(hdr, 4) \div 2),
   entries |-> [i \in 1..(BlockLen(hdr, 5) \div 16) |->
                  LET o == BlockOff(hdr, 5) + 16 * (i - 1)
                  IN [flag |-> D32(data, o), sibling |-> D32(data, o + 4), child |-> D32(data, o + 8), offset |-> D32(data, o + 12)]],
   block |-> [i \in 1..256 |-> D32(hdr, 44 + 4 * (i - 1))]]
\* every block lies inside the logged data
InData(hdr, data) == \A k \in 1..5 : BlockOff(hdr, k) + BlockLen(hdr, k) <= Len(data)
=============================================================================
