-------------------------------- MODULE SqPack --------------------------------
(* C01 / C02 - SqPack archives.                                              *)
(*                                                                           *)
(* Lookup side: an installation is a set of repositories (0 = base game      *)
(* "ffxiv", n = expansion "exn") and, per (repository, category, chunk,      *)
(* kind) an optional index file = a sequence of entries                      *)
(*     [key |-> hash key, dat |-> 0..7, off |-> offset in 128-byte units]    *)
(* A game path names its category by its first segment and its repository by *)
(* its second segment (base game when that is not an installed expansion).   *)
(* It is stored iff an index file of that repository and category, in any    *)
(* chunk, holds its key: <<hash(file name), hash(folder)>> for index files,  *)
(* <<hash(whole path)>> for index2 files; hashing is JAMCRC of the           *)
(* lower-cased bytes.                                                        *)
(*                                                                           *)
(* Data side: entries of a dat file are lists of blocks; extraction          *)
(* concatenates the decoded blocks per kind (standard / texture / model).    *)
EXTENDS Naturals, Sequences, SequencesExt, FiniteSets, FiniteSetsExt, Words, Text, Hashes, Names

\* the key function is a parameter so that the exhaustive configs can memoise it
\* (cfg: KeyFn <- Key for traces, KeyFn <- MemoKey in mc/)
CONSTANT KeyFn(_, _), CatFn(_), RepoFn(_, _)
\* payload algebra: concatenation of a sequence of payloads, size of a payload, payload of literal bytes
CONSTANT Cat(_), Size(_), Lit(_)

-----------------------------------------------------------------------------
(* Path -> category, repository, keys *)
CategoryOf(t) ==
  CASE t = <<99,111,109,109,111,110>> -> 0                       \* common
    [] t = <<98,103,99,111,109,109,111,110>> -> 1                \* bgcommon
    [] t = <<98,103>> -> 2                                        \* bg
    [] t = <<99,117,116>> -> 3                                    \* cut
    [] t = <<99,104,97,114,97>> -> 4                              \* chara
    [] t = <<115,104,97,100,101,114>> -> 5                        \* shader
    [] t = <<117,105>> -> 6                                       \* ui
    [] t = <<115,111,117,110,100>> -> 7                           \* sound
    [] t = <<118,102,120>> -> 8                                   \* vfx
    [] t = <<117,105,95,115,99,114,105,112,116>> -> 9             \* ui_script
    [] t = <<101,120,100>> -> 10                                  \* exd
    [] t = <<103,97,109,101,95,115,99,114,105,112,116>> -> 11     \* game_script
    [] t = <<109,117,115,105,99>> -> 12                           \* music
    [] t = <<115,113,112,97,99,107,95,116,101,115,116>> -> 18     \* sqpack_test
    [] t = <<100,101,98,117,103>> -> 19                           \* debug
    [] OTHER -> -1
RepoName(n) == ExFolder(n)      \* "ffxiv" / "exN"

\* segments of the lower-cased path
Segs(p) == Split(Lower(p), 47)
PathCategory(p) == IF Len(Segs(p)) < 2 THEN -1 ELSE CategoryOf(Segs(p)[1])
\* repos = set of installed repository numbers (always contains 0)
PathRepo(p, repos) ==
  LET tok == Segs(p)[2]
      hit == {n \in repos : RepoName(n) = tok}
  IN IF hit = {} THEN 0 ELSE CHOOSE n \in hit : TRUE

\* keys: kind 1 = index (folder / file hashes), kind 2 = index2 (whole path)
Key(kind, p) ==
  LET lp == Lower(p)
      k == LastIndexOf(lp, 47)
  IN IF kind = 1 THEN <<Jamcrc(SubSeq(lp, k + 1, Len(lp))), Jamcrc(SubSeq(lp, 1, k - 1))>>
     ELSE <<Jamcrc(lp)>>

-----------------------------------------------------------------------------
(* The installation and the reference answers.                                *)
(* disk = [repos |-> set, plat |-> 0..4, files |-> set of index files         *)
(*         [repo, cat, chunk, kind, entries]]                                 *)
FilesFor(disk, repo, cat) == {f \in disk.files : f.repo = repo /\ f.cat = cat}
Hits(disk, p) ==
  IF CatFn(p) = -1 THEN {}
  ELSE {<<f, i>> \in UNION {{f} \X (1..Len(f.entries)) : f \in FilesFor(disk, RepoFn(p, disk.repos), CatFn(p))} :
          f.entries[i].key = KeyFn(f.kind, p)}
Stored(disk, p) == Hits(disk, p) # {}
\* all designated locations [chunk, dat, off]; a consistent installation designates exactly one
Locations(disk, p) == {[chunk |-> h[1].chunk, dat |-> h[1].entries[h[2]].dat, off |-> h[1].entries[h[2]].off] : h \in Hits(disk, p)}

\* implementation-shaped search: chunk-major, index before index2, memoised files
CandidateOrder(f) == 2 * f.chunk + (f.kind - 1)
Probe(disk, p) ==
  LET hs == Hits(disk, p)
      best == CHOOSE h \in hs : \A g \in hs : CandidateOrder(h[1]) < CandidateOrder(g[1])
                                               \/ (CandidateOrder(h[1]) = CandidateOrder(g[1]) /\ h[2] <= g[2])
  IN [chunk |-> best[1].chunk, dat |-> best[1].entries[best[2]].dat, off |-> best[1].entries[best[2]].off]

-----------------------------------------------------------------------------
(* Data side.  A block is its decoded payload; whether it was stored raw or   *)
(* deflated does not matter to the result.  Payloads are values of an abstract*)
(* sequence algebra (Cat, Size, Lit) so that the same definitions run on byte *)
(* sequences (mc/) and on run-length encoded contents (trace/).               *)
Concat(bs) == Cat(bs)
ExtractStandard(d) == Cat(d.blocks)
ExtractTexture(d) == Cat(<<d.header>> \o [i \in 1..Len(d.mips) |-> Cat(d.mips[i])])

LE32W(w) == BytesLE(w)
LE16(n) == <<n % 256, n \div 256>>
Bool8(b) == IF b THEN 1 ELSE 0
\* model: synthesised 0x44-byte header, then stack, runtime and per LOD vertex, index data
ModelLayout(d) ==
  LET stack == Cat(d.stack)
      runtime == Cat(d.runtime)
      v(i) == Cat(d.vertex[i])
      x(i) == Cat(d.index[i])
      \* running position of each section in the output
      p0 == 68 + Size(stack) + Size(runtime)
      vpos(i) == p0 + FoldLeft(LAMBDA a, j : a + Size(v(j)) + Size(x(j)), 0, [j \in 1..(i - 1) |-> j])
      xpos(i) == vpos(i) + Size(v(i))
  IN [stack |-> stack, runtime |-> runtime,
      voff |-> [i \in 1..3 |-> IF d.vertex[i] = <<>> THEN 0 ELSE vpos(i)],
      xoff |-> [i \in 1..3 |-> IF d.index[i] = <<>> THEN 0 ELSE xpos(i)],
      vsize |-> [i \in 1..3 |-> Size(v(i))], xsize |-> [i \in 1..3 |-> Size(x(i))],
      body |-> Cat(<<stack, runtime>> \o [i \in 1..3 |-> Cat(<<v(i), x(i)>>)])]
ModelHeader(d, m) ==
  LE32W(FromNat(d.version)) \o LE32W(FromNat(Size(m.stack))) \o LE32W(FromNat(Size(m.runtime)))
    \o LE16(d.decls) \o LE16(d.mats)
    \o Flatten([i \in 1..3 |-> LE32W(FromNat(m.voff[i]))]) \o Flatten([i \in 1..3 |-> LE32W(FromNat(m.xoff[i]))])
    \o Flatten([i \in 1..3 |-> LE32W(FromNat(m.vsize[i]))]) \o Flatten([i \in 1..3 |-> LE32W(FromNat(m.xsize[i]))])
    \o <<d.lods, Bool8(d.stream), Bool8(d.edge), 0>>
ExtractModel(d) == LET m == ModelLayout(d) IN Cat(<<Lit(ModelHeader(d, m)), m.body>>)
Extract(d) == CASE d.kind = "std" -> ExtractStandard(d)
                [] d.kind = "tex" -> ExtractTexture(d)
                [] d.kind = "mdl" -> ExtractModel(d)

\* the header of an extracted model describes the sections byte for byte
HeaderDescribesOutput(d) ==
  LET out == ExtractModel(d)
      m == ModelLayout(d)
      U32(o) == out[o + 1] + 256 * out[o + 2] + 65536 * out[o + 3] + 16777216 * out[o + 4]
      sect(o, n) == SubSeq(out, o + 1, o + n)
  IN /\ U32(4) = Len(m.stack) /\ U32(8) = Len(m.runtime)
     /\ sect(68, U32(4)) = m.stack /\ sect(68 + U32(4), U32(8)) = m.runtime
     /\ \A i \in 1..3 :
          /\ U32(40 + 4 * (i - 1)) = Len(Flatten(d.vertex[i]))
          /\ U32(52 + 4 * (i - 1)) = Len(Flatten(d.index[i]))
          /\ (d.vertex[i] # <<>>) => sect(U32(16 + 4 * (i - 1)), U32(40 + 4 * (i - 1))) = Flatten(d.vertex[i])
          /\ (d.index[i] # <<>>) => sect(U32(28 + 4 * (i - 1)), U32(52 + 4 * (i - 1))) = Flatten(d.index[i])
     /\ Len(out) = 68 + Len(m.body)
=============================================================================
