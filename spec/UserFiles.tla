------------------------------ MODULE UserFiles ------------------------------
(* C09 - saved character presets (212 bytes) and gear-set files (45221 bytes).*)
(* Character preset (docs.xiv.zone/format/chardat): 0x00 magic 0x2013FF14,     *)
(* 0x04 version, 0x08 checksum, 0x10..0x29 the 26 appearance bytes in game     *)
(* order, 0x2A voice, 0x2C timestamp, 0x30 comment (164 bytes, NUL padded);    *)
(* checksum = XOR over the bytes from 0x10 of byte << (index mod 24).          *)
(* Gear sets: 17-byte dat header (magic 0x006D0005, max size, content size,    *)
(* 4 zero bytes, 0xFF), then the body XOR 0x73: 4 header bytes (1: current     *)
(* set) and 100 records of 452 bytes: index, 47-byte name, u64, 14 slots of    *)
(* 7 u32 (item id + 1 000 000, glamour id, 5 others), u32 facewear.            *)
EXTENDS Naturals, Sequences, SequencesExt, FiniteSets, Bitwise, Words, Text

Fields == <<"race", "gender", "age", "height", "tribe", "face", "hair", "enable_highlights", "skin_tone",
            "right_eye_color", "hair_tone", "highlights", "facial_features", "facial_feature_color", "eyebrows",
            "left_eye_color", "eyes", "nose", "jaw", "mouth", "lips_tone_fur_pattern", "race_feature_size",
            "race_feature_type", "bust", "face_paint", "face_paint_color", "voice">>
FieldPos(i) == 15 + i          \* 0-based offset of the i-th field (1-based): 0x10 .. 0x2A
LE32n(n) == <<n % 256, (n \div 256) % 256, (n \div 65536) % 256, n \div 16777216>>   \* n < 2^31

Checksum(b) ==   \* b = the whole 212-byte file
  FoldLeft(LAMBDA acc, i : acc ^^ (b[16 + i + 1] * Pow2((i % 24) % 16) * (IF i % 24 >= 16 THEN 65536 ELSE 1)),
           0, [i \in 1..196 |-> i - 1])
\* rec = [version, fields (27 bytes in order), timestamp (4 LE bytes), comment (bytes, <= 163)]
EncodeChar(r) ==
  LET body == r.fields \o <<0>> \o r.timestamp \o r.comment \o [i \in 1..(164 - Len(r.comment)) |-> 0]
      pre == <<20, 255, 19, 32>> \o LE32n(r.version)
      tmp == pre \o <<0, 0, 0, 0, 0, 0, 0, 0>> \o body
  IN pre \o LE32n(Checksum(tmp)) \o <<0, 0, 0, 0>> \o body
DecodeChar(b) ==
  [version |-> U16LE(b, 4) + 65536 * U16LE(b, 6),
   fields |-> SubSeq(b, 17, 43), timestamp |-> SubSeq(b, 45, 48),
   comment |-> LET c == SubSeq(b, 49, 212)
                   z == {i \in 1..164 : c[i] = 0}
               IN IF z = {} THEN c ELSE SubSeq(c, 1, Min(z) - 1)]

-----------------------------------------------------------------------------
Marker == <<15, 16960>>         \* 1 000 000 = 0x000F4240
GearHeader == <<5, 0, 109, 0>> \o LE32n(45205) \o LE32n(45205) \o <<0, 0, 0, 0, 255>>
X73(b) == [i \in 1..Len(b) |-> b[i] ^^ 115]
\* table = [current |-> 0..255, sets |-> [1..100 -> set or Empty]]
\* set = [index, name (bytes), slots |-> [1..14 -> [id |-> w32, glam |-> w32]], facewear |-> w32]
\* a slot with id <<0,0>> is empty; a set with an empty name is empty
GearRec(body, k) == SubSeq(body, 4 + 452 * (k - 1) + 1, 4 + 452 * k)
SlotAt(rec, s) == [id |-> SubW(FromLE(rec, 56 + 28 * (s - 1)), Marker), glam |-> FromLE(rec, 60 + 28 * (s - 1))]
NameOf(rec) == LET nm == SubSeq(rec, 2, 48)
                   z == {i \in 1..47 : nm[i] = 0}
               IN IF z = {} THEN nm ELSE SubSeq(nm, 1, Min(z) - 1)
DecodeGear(file) ==
  \* (SubSeq materialises the lazily represented function once)
  LET body == LET x == X73(SubSeq(file, 18, Len(file))) IN SubSeq(x, 1, Len(x))
  IN [headerOk |-> SubSeq(file, 1, 17) = GearHeader /\ Len(file) = 45221,
      current |-> body[2],
      sets |-> [k \in 1..100 |->
                  LET rec == GearRec(body, k)
                  IN [index |-> rec[1], name |-> NameOf(rec),
                      slots |-> [s \in 1..14 |-> SlotAt(rec, s)],
                      facewear |-> FromLE(rec, 448)]]]
\* what a reader reports for a set: nothing for an unnamed set; only the slots holding an item
Reported(set) == IF set.name = <<>> THEN [some |-> FALSE]
                 ELSE [some |-> TRUE, index |-> set.index, name |-> set.name,
                       slots |-> [s \in {t \in 1..14 : set.slots[t].id # Zero32} |-> set.slots[s]],
                       facewear |-> set.facewear]
=============================================================================
