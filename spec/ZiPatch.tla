------------------------------- MODULE ZiPatch -------------------------------
(* C03 / C04 - the reference semantics of applying a ZiPatch chunk stream to *)
(* a directory tree, and of creating a patch from two trees.                 *)
(*                                                                           *)
(* Written from the ZiPatch description used by XIVLauncher's patcher and    *)
(* from the property statement.  A file is a sequence of cells; a cell is a  *)
(* byte in the trace instance (Block = 128, HeaderCells = 1024) and an       *)
(* abstract 64-byte unit in the exhaustive instance (Block = 2).             *)
(*                                                                           *)
(* tree   = [files |-> [path -> Seq(cell)], dirs |-> SUBSET path]            *)
(* chunks = sequence of records with field k:                                *)
(*   "FHDR" "APLY" "ADIR" "DELD" "X" "I"  - no effect on files               *)
(*   "T" plat                              - target platform                 *)
(*   "A" main sub file off data del        - write data at Block*off, wipe del blocks *)
(*   "D" / "E" main sub file off n         - empty-block header of n blocks  *)
(*   "H" fk hk main sub file data          - 1st / 2nd KiB of dat or index   *)
(*   "FA" path off data                    - add file (data = decoded blocks)*)
(*   "FD" path  "FR" ex  "FM" path         - delete, remove all, make dirs   *)
(*   "EOF"                                                                   *)
EXTENDS Naturals, Sequences, SequencesExt, FiniteSets, FiniteSetsExt, Functions, Text, Names

CONSTANTS Block,          \* cells per 128-byte block
          HeaderCells,    \* cells per 1 KiB header
          Zero,           \* the wiped cell
          EmptyHead(_)    \* leading cells of the empty-block header for n blocks

-----------------------------------------------------------------------------
(* Paths *)
Slash == 47
S_Sqpack == <<115,113,112,97,99,107>>
JoinPath(a, b) == a \o <<Slash>> \o b
\* proper ancestors of a relative path "a/b/c" -> {"a", "a/b"}
Ancestors(p) == {SubSeq(p, 1, i - 1) : i \in {j \in 2..Len(p) : p[j] = Slash}}
IsUnder(p, d) == Len(p) > Len(d) /\ SubSeq(p, 1, Len(d)) = d /\ p[Len(d) + 1] = Slash

SqpackDir(sub) == JoinPath(S_Sqpack, ExFolder(sub \div 256))
DatPath(c, plat)   == JoinPath(SqpackDir(c.sub), PatchDatName(c.main, c.sub, c.file, plat))
IndexPath(c, plat) == JoinPath(SqpackDir(c.sub), PatchIndexName(c.main, c.sub, c.file, plat))

-----------------------------------------------------------------------------
(* Content edits *)
Content(files, p) == IF p \in DOMAIN files THEN files[p] ELSE <<>>
\* write d at cell offset off; a write beyond the end zero-extends (sparse seek)
WriteAt(c, off, d) ==
  IF d = <<>> THEN c ELSE          \* writing nothing does not extend the file
  LET n == IF Len(c) > off + Len(d) THEN Len(c) ELSE off + Len(d)
  IN [i \in 1..n |-> IF i > off /\ i <= off + Len(d) THEN d[i - off]
                     ELSE IF i <= Len(c) THEN c[i] ELSE Zero]
Zeros(n) == [i \in 1..n |-> Zero]
EmptyBlock(n) == LET h == EmptyHead(n) IN h \o Zeros(n * Block - Len(h))
Put(files, p, c) == [q \in DOMAIN files \cup {p} |-> IF q = p THEN c ELSE files[q]]
Drop(files, S) == [q \in DOMAIN files \ S |-> files[q]]

-----------------------------------------------------------------------------
(* One chunk.  st = [files, dirs, plat, res] ; plat = -1 before any "T".     *)
Target(c, plat) ==
  CASE c.k \in {"A", "D", "E"} -> DatPath(c, plat)
    [] c.k = "H" -> IF c.fk = "D" THEN DatPath(c, plat) ELSE IndexPath(c, plat)
    [] c.k \in {"FA", "FD", "FM"} -> c.path
    [] OTHER -> <<>>
NeedsPlatform(c) == c.k \in {"A", "D", "E", "H"}

Step(st, c) ==
  IF st.res # "running" THEN st
  ELSE IF c.k = "EOF" THEN [st EXCEPT !.res = "ok"]
  ELSE IF c.k = "T" THEN [st EXCEPT !.plat = c.plat]
  ELSE IF c.k \in {"FHDR", "APLY", "ADIR", "DELD", "X", "I"} THEN st
  ELSE IF NeedsPlatform(c) /\ st.plat = -1 THEN [st EXCEPT !.res = "err"]   \* not well-formed
  ELSE LET f == Target(c, st.plat)
           old == Content(st.files, f)
       IN CASE c.k = "A" ->
                 [st EXCEPT !.files = Put(@, f, WriteAt(old, c.off * Block, c.data \o Zeros(c.del * Block))),
                            !.dirs = @ \cup Ancestors(f)]
            [] c.k \in {"D", "E"} ->
                 [st EXCEPT !.files = Put(@, f, WriteAt(old, c.off * Block, EmptyBlock(c.n))),
                            !.dirs = @ \cup Ancestors(f)]
            [] c.k = "H" ->
                 [st EXCEPT !.files = Put(@, f, WriteAt(old, IF c.hk = "V" THEN 0 ELSE HeaderCells, c.data)),
                            !.dirs = @ \cup Ancestors(f)]
            [] c.k = "FA" ->
                 [st EXCEPT !.files = Put(@, f, WriteAt(IF c.off = 0 THEN <<>> ELSE old, c.off, c.data)),
                            !.dirs = @ \cup Ancestors(f)]
            [] c.k = "FD" -> [st EXCEPT !.files = Drop(@, {f})]
            [] c.k = "FR" ->
                 LET d == JoinPath(S_Sqpack, ExFolder(c.ex))
                 IN [st EXCEPT !.files = Drop(@, {p \in DOMAIN st.files : IsUnder(p, d)}),
                               !.dirs = {x \in @ : ~IsUnder(x, d) /\ x # d}]
            [] c.k = "FM" ->
                 \* path ends with a slash: the directory itself and its ancestors
                 LET d == IF c.path[Len(c.path)] = Slash THEN SubSeq(c.path, 1, Len(c.path) - 1) ELSE c.path
                 IN [st EXCEPT !.dirs = @ \cup {d} \cup Ancestors(d)]

Start(tree) == [files |-> tree.files, dirs |-> tree.dirs, plat |-> -1, res |-> "running"]
Finish(st) == IF st.res = "running" THEN [st EXCEPT !.res = "err"] ELSE st   \* stream ended without EOF
Apply(tree, chunks) == Finish(FoldLeft(Step, Start(tree), chunks))
\* several patches one after another on the same tree (the platform is per-apply state)
ApplyChain(tree, patches) ==
  FoldLeft(LAMBDA st, p : IF st.res = "err" THEN st
                          ELSE Apply([files |-> st.files, dirs |-> st.dirs], p),
           [files |-> tree.files, dirs |-> tree.dirs, plat |-> -1, res |-> "ok"], patches)

\* directories that must exist in a tree: the ancestors of its files and the recorded ones
MustDirs(st) == st.dirs \cup UNION {Ancestors(p) : p \in DOMAIN st.files}

-----------------------------------------------------------------------------
(* Creating a patch from trees A and B (files only).                          *)
NonEmpty(files) == [p \in {q \in DOMAIN files : files[q] # <<>>} |-> files[p]]
\* the set of chunks a correct creator must emit, as a sequence in any order followed by EOF
CreateSet(A, B) ==
  {[k |-> "FA", path |-> p, off |-> 0, data |-> B[p]] : p \in DOMAIN NonEmpty(B)}
    \cup {[k |-> "FD", path |-> p] : p \in DOMAIN A \ DOMAIN NonEmpty(B)}
Create(A, B) == SetToSeq(CreateSet(A, B)) \o <<[k |-> "EOF"]>>
=============================================================================
