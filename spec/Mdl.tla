--------------------------------- MODULE Mdl ---------------------------------
(* C06 / C07 - the model (MDL) file as a byte sequence and the structural     *)
(* reference reader (all little-endian).                                      *)
(* 0x44-byte file header: version, stack size, runtime size, u16 declaration  *)
(* count, u16 material count, per LOD vertex offsets, index offsets, vertex   *)
(* sizes, index sizes, u8 LOD count, flags.  Then one 17-slot vertex          *)
(* declaration per mesh (8-byte elements: stream, offset, type, usage, usage  *)
(* index; stream 0xFF terminates), the string table, the 56-byte model header *)
(* and the tables it counts, then the vertex and index data.                  *)
(* A vertex attribute lives at  lod.vertex_data_offset + mesh.vb_offset[stream]*)
(*                              + element.offset + stride[stream] * k.        *)
EXTENDS Naturals, Sequences, SequencesExt, FiniteSets, FiniteSetsExt, Words, Text, Floats

U8(b, o) == b[o + 1]
U16(b, o) == U16LE(b, o)
U32n(b, o) == U16LE(b, o) + 65536 * U16LE(b, o + 2)          \* offsets / counts < 2^31
Word(b, o) == FromLE(b, o)

FileHeader(b) ==
  [version |-> U32n(b, 0), stack |-> U32n(b, 4), runtime |-> U32n(b, 8), ndecl |-> U16(b, 12), nmat |-> U16(b, 14),
   voff |-> [i \in 1..3 |-> U32n(b, 16 + 4 * (i - 1))], ioff |-> [i \in 1..3 |-> U32n(b, 28 + 4 * (i - 1))],
   vsize |-> [i \in 1..3 |-> U32n(b, 40 + 4 * (i - 1))], isize |-> [i \in 1..3 |-> U32n(b, 52 + 4 * (i - 1))],
   nlod |-> U8(b, 64)]

\* offsets of the tables (version 5 layout up to the bone tables; later tables only for version 5)
Layout(b) ==
  LET fh == FileHeader(b)
      oStr == 68 + 136 * fh.ndecl
      sSize == U32n(b, oStr + 4)
      oMh == oStr + 8 + sSize
      c(k) == U16(b, oMh + 4 + 2 * k)           \* the nine u16 counts after the radius
      nEid == U16(b, oMh + 24)
      nTsm == U8(b, oMh + 26)
      nTss == U16(b, oMh + 38)
      oLod == oMh + 56 + 32 * nEid
      oMesh == oLod + 180
      oAttr == oMesh + 36 * c(0)
      oSub == oAttr + 4 * c(1) + 20 * nTsm
      oMat == oSub + 16 * c(2) + 12 * nTss
      oBone == oMat + 4 * c(3)
      oBt == oBone + 4 * c(4)
      \* version 5: 64 indices + count (132 bytes) per table.  Version 6, as the library reads it (the layout is not
      \* verifiable offline): per table a skipped word, the count, the indices, and a padding word when the count is even
      V6TableEnd(o) == LET n == U16(b, o + 2) IN o + 4 + 2 * n + (IF n % 2 = 0 THEN 2 ELSE 0)
      oShape == IF fh.version >= 16777222 THEN FoldLeft(LAMBDA o, k : V6TableEnd(o), oBt, [k \in 1..c(5) |-> k])
                ELSE oBt + 132 * c(5)
      oShapeMesh == oShape + 16 * c(6)
      oShapeVal == oShapeMesh + 12 * c(7)
  IN [fh |-> fh, oStrings |-> oStr + 8, stringSize |-> sSize, oMh |-> oMh,
      nMesh |-> c(0), nAttr |-> c(1), nSub |-> c(2), nMat |-> c(3), nBone |-> c(4), nBt |-> c(5),
      nShape |-> c(6), nShapeMesh |-> c(7), nShapeVal |-> c(8), nLod |-> U8(b, oMh + 22),
      oLod |-> oLod, oMesh |-> oMesh, oSub |-> oSub, oMat |-> oMat, oBone |-> oBone, oBt |-> oBt,
      oShape |-> oShape, oShapeMesh |-> oShapeMesh, oShapeVal |-> oShapeVal]

LodRec(b, L, i) ==   \* i = 1..3
  LET o == L.oLod + 60 * (i - 1)
  IN [mesh_index |-> U16(b, o), mesh_count |-> U16(b, o + 2),
      vsize |-> U32n(b, o + 44), isize |-> U32n(b, o + 48), voff |-> U32n(b, o + 52), ioff |-> U32n(b, o + 56)]
MeshRec(b, L, j) ==  \* j = 0-based global mesh index
  LET o == L.oMesh + 36 * j
  IN [vcount |-> U16(b, o), icount |-> U32n(b, o + 4), material |-> U16(b, o + 8), submesh_index |-> U16(b, o + 10),
      submesh_count |-> U16(b, o + 12), bone_table |-> U16(b, o + 14), start_index |-> U32n(b, o + 16),
      vb |-> [s \in 1..3 |-> U32n(b, o + 20 + 4 * (s - 1))], stride |-> [s \in 1..3 |-> U8(b, o + 32 + (s - 1))],
      streams |-> U8(b, o + 35)]
SubmeshRec(b, L, s) == LET o == L.oSub + 16 * s IN [index_offset |-> U32n(b, o), index_count |-> U32n(b, o + 4)]

\* declaration of mesh j: the elements before the 0xFF terminator
Decl(b, j) ==
  LET o == 68 + 136 * j
      n == Min({k \in 0..16 : U8(b, o + 8 * k) = 255})
  IN [k \in 1..n |-> [stream |-> U8(b, o + 8 * (k - 1)), offset |-> U8(b, o + 8 * (k - 1) + 1),
                      type |-> U8(b, o + 8 * (k - 1) + 2), usage |-> U8(b, o + 8 * (k - 1) + 3)]]

NameAt(b, L, off) ==
  LET o == L.oStrings + off
      z == Min({k \in o..(L.oStrings + L.stringSize) : b[k + 1] = 0})
  IN SubSeq(b, o + 1, z)
MaterialNames(b, L) == [i \in 1..L.nMat |-> NameAt(b, L, U32n(b, L.oMat + 4 * (i - 1)))]
BoneNames(b, L) == [i \in 1..L.nBone |-> NameAt(b, L, U32n(b, L.oBone + 4 * (i - 1)))]

-----------------------------------------------------------------------------
(* typed attribute decoding; a vertex is a flat tuple of 22 f32 words         *)
(* (position 1-3, uv0 4-5, uv1 6-7, normal 8-10, bitangent 11-14, colour      *)
(* 15-18, blend weights 19-22) and 4 blend index bytes                        *)
T_Single3 == 2  T_Single4 == 3  T_Byte4 == 5  T_ByteFloat4 == 8  T_Half2 == 13  T_Half4 == 14  T_UShort4 == 17
U_Position == 0  U_BlendWeights == 1  U_BlendIndices == 2  U_Normal == 3  U_UV == 4  U_Tangent == 5  U_BiTangent == 6  U_Color == 7
Singles(b, o, n) == [i \in 1..n |-> Word(b, o + 4 * (i - 1))]
Halves(b, o, n) == [i \in 1..n |-> HalfToF32(U16(b, o + 2 * (i - 1)))]
Unorms(b, o) == [i \in 1..4 |-> Unorm8ToF32(U8(b, o + i - 1))]
Tangent(b, o) == <<Tangent8ToF32(U8(b, o)), Tangent8ToF32(U8(b, o + 1)), Tangent8ToF32(U8(b, o + 2)),
                   IF U8(b, o + 3) = 255 THEN OneF32 ELSE MinusOneF32>>
DefaultVertex == [f |-> [i \in 1..22 |-> Zero32], bi |-> <<0, 0, 0, 0>>]
SetF(v, at, vals) == [v EXCEPT !.f = [i \in 1..22 |-> IF i >= at /\ i < at + Len(vals) THEN vals[i - at + 1] ELSE @[i]]]
\* supported (usage, type) pairs; (BlendWeights, Byte4) has no documented meaning and is not part of the family
Supported(e) ==
  \/ e.usage = U_Position /\ e.type \in {T_Single3, T_Single4, T_Half4}
  \/ e.usage = U_BlendWeights /\ e.type \in {T_ByteFloat4, T_UShort4}
  \/ e.usage = U_BlendIndices /\ e.type \in {T_Byte4, T_UShort4}
  \/ e.usage = U_Normal /\ e.type \in {T_Half4, T_Single3}
  \/ e.usage = U_UV /\ e.type \in {T_ByteFloat4, T_Half4, T_Single4, T_Half2}
  \/ e.usage = U_BiTangent /\ e.type = T_ByteFloat4
  \/ e.usage = U_Tangent /\ e.type = T_ByteFloat4
  \/ e.usage = U_Color /\ e.type = T_ByteFloat4
Apply(v, b, o, e) ==
  CASE e.usage = U_Position ->
         SetF(v, 1, IF e.type = T_Half4 THEN SubSeq(Halves(b, o, 4), 1, 3) ELSE Singles(b, o, 3))
    [] e.usage = U_BlendWeights ->
         SetF(v, 19, IF e.type = T_ByteFloat4 THEN Unorms(b, o) ELSE [i \in 1..4 |-> U16ToF32(U16(b, o + 2 * (i - 1)))])
    [] e.usage = U_BlendIndices ->
         [v EXCEPT !.bi = IF e.type = T_Byte4 THEN [i \in 1..4 |-> U8(b, o + i - 1)]
                          ELSE [i \in 1..4 |-> U16(b, o + 2 * (i - 1)) % 256]]
    [] e.usage = U_Normal ->
         SetF(v, 8, IF e.type = T_Half4 THEN SubSeq(Halves(b, o, 4), 1, 3) ELSE Singles(b, o, 3))
    [] e.usage = U_UV ->
         SetF(v, 4, CASE e.type = T_ByteFloat4 -> Unorms(b, o) [] e.type = T_Half4 -> Halves(b, o, 4)
                      [] e.type = T_Single4 -> Singles(b, o, 4) [] e.type = T_Half2 -> Halves(b, o, 2))
    [] e.usage = U_BiTangent -> SetF(v, 11, Tangent(b, o))
    [] e.usage = U_Color -> SetF(v, 15, Unorms(b, o))
    [] OTHER -> v                      \* tangent: carried in the raw streams only

\* vertex k (0-based) of mesh j (global index) in LOD record lod
VertexAt(b, lod, mesh, decl, k) ==
  FoldLeft(LAMBDA v, e : Apply(v, b, lod.voff + mesh.vb[e.stream + 1] + e.offset + mesh.stride[e.stream + 1] * k, e),
           DefaultVertex, decl)
\* two floats agree: same bits, or both NaN (a NaN need only decode to a NaN)
SameF(a, c) == a = c \/ (IsNaNF32(a) /\ IsNaNF32(c))
SameVertex(a, c) == a.bi = c.bi /\ \A i \in 1..22 : SameF(a.f[i], c.f[i])

Indices(b, L, i, mesh) == [t \in 1..mesh.icount |-> U16(b, L.fh.ioff[i] + 2 * (mesh.start_index + t - 1))]
Submeshes(b, L, mesh) == [s \in 1..mesh.submesh_count |->
                            LET r == SubmeshRec(b, L, mesh.submesh_index + s - 1) IN <<r.index_count, r.index_offset>>]
Stream(b, lod, mesh, s) == SubSeq(b, lod.voff + mesh.vb[s] + 1, lod.voff + mesh.vb[s] + mesh.vcount * mesh.stride[s])

\* shapes reported for a mesh: those with at least one value inside the mesh's index range, found through the
\* shape meshes of the LOD whose index offset equals the mesh's start index ("as implemented": names only)
ShapeNames(b, L, i, mesh) ==
  LET shapeRec(s) == LET o == L.oShape + 16 * (s - 1)
                     IN [name |-> U32n(b, o), start |-> U16(b, o + 4 + 2 * (i - 1)), count |-> U16(b, o + 10 + 2 * (i - 1))]
      sm(k) == LET o == L.oShapeMesh + 12 * k IN [off |-> U32n(b, o), n |-> U32n(b, o + 4), first |-> U32n(b, o + 8)]
      hasValue(s) ==
        \E k \in shapeRec(s).start..(shapeRec(s).start + shapeRec(s).count - 1) :
           /\ k < L.nShapeMesh /\ sm(k).off = mesh.start_index
           /\ \E v \in sm(k).first..(sm(k).first + sm(k).n - 1) :
                 /\ v < L.nShapeVal
                 /\ LET base == U16(b, L.oShapeVal + 4 * v)
                    IN base >= mesh.start_index % 65536 /\ base < (mesh.start_index + mesh.icount) % 65536
  IN [x \in 1..Cardinality({s \in 1..L.nShape : hasValue(s)}) |->
        NameAt(b, L, shapeRec(SetToSortSeq({s \in 1..L.nShape : hasValue(s)}, <)[x]).name)]

\* everything a parse reports for mesh j of LOD i
PartOf(b, L, i, j) ==
  LET lod == LodRec(b, L, i)
      mesh == MeshRec(b, L, j)
      decl == Decl(b, j)
  IN [nv |-> mesh.vcount,
      vertices |-> [k \in 1..mesh.vcount |-> VertexAt(b, lod, mesh, decl, k - 1)],
      indices |-> Indices(b, L, i, mesh), material |-> mesh.material,
      subs |-> Submeshes(b, L, mesh),
      streams |-> [s \in 1..mesh.streams |-> Stream(b, lod, mesh, s)],
      strides |-> [s \in 1..mesh.streams |-> mesh.stride[s]],
      shapes |-> ShapeNames(b, L, i, mesh)]
PartsOf(b, L, i) == LET lod == LodRec(b, L, i) IN [p \in 1..lod.mesh_count |-> PartOf(b, L, i, lod.mesh_index + p - 1)]

-----------------------------------------------------------------------------
(* C07: self-consistency of a header, as the property states it *)
\* sections of LOD i as half-open intervals <<from, to>>
VSect(L, b, i) == LET r == LodRec(b, L, i) IN <<r.voff, r.voff + r.vsize>>
ISect(L, b, i) == LET r == LodRec(b, L, i) IN <<r.ioff, r.ioff + r.isize>>
Disjoint(x, y) == x[2] <= y[1] \/ y[2] <= x[1] \/ x[1] = x[2] \/ y[1] = y[2]
DataStart(L) == 68 + L.fh.stack + L.fh.runtime
\* where the tables of the model really end: behind the shape values come the bone map (size field of 4 bytes in
\* version 5, 2 in version 6, then the map), the padding block (count byte + bytes), four model bounding boxes and one
\* per bone (32 bytes each)
TablesEnd(b, L) ==
  LET oMapSize == L.oShapeVal + 4 * L.nShapeVal
      v6 == L.fh.version >= 16777222
      mapBytes == IF v6 THEN U16(b, oMapSize) ELSE U32n(b, oMapSize)
      oPad == oMapSize + (IF v6 THEN 2 ELSE 4) + mapBytes
  IN oPad + 1 + U8(b, oPad) + 128 + 32 * L.nBone
LodVertexBytes(b, L, i) ==
  LET r == LodRec(b, L, i)
  IN FoldLeft(LAMBDA a, j : LET m == MeshRec(b, L, j)
                            IN a + m.vcount * FoldLeft(LAMBDA x, s : x + m.stride[s], 0, [s \in 1..m.streams |-> s]),
              0, [j \in 1..r.mesh_count |-> r.mesh_index + j - 1])
LodIndexCount(b, L, i) ==
  LET r == LodRec(b, L, i)
  IN FoldLeft(LAMBDA a, j : a + MeshRec(b, L, j).icount, 0, [j \in 1..r.mesh_count |-> r.mesh_index + j - 1])
HeaderFactsLen(b, flen) ==
  LET L == Layout(b)
      n == L.nLod
      sects == [i \in 1..(2 * n) |-> IF i <= n THEN VSect(L, b, i) ELSE ISect(L, b, i - n)]
  IN [disjoint |-> \A x, y \in 1..(2 * n) : x # y => Disjoint(sects[x], sects[y]),
      inBounds |-> \A x \in 1..(2 * n) : sects[x][1] >= DataStart(L) /\ sects[x][2] <= flen,
      sized |-> \A i \in 1..n : LodRec(b, L, i).vsize = LodVertexBytes(b, L, i)
                                /\ LodRec(b, L, i).isize >= 2 * LodIndexCount(b, L, i)
                                /\ LodRec(b, L, i).isize < 2 * LodIndexCount(b, L, i) + 32,
      padded |-> \A i \in 1..n : LodRec(b, L, i).isize % 16 = 0,
      \* the runtime size of the file header covers the tables exactly: geometry starts where they end
      runtimeCovers |-> TablesEnd(b, L) = DataStart(L),
      fileHeaderAgrees |-> \A i \in 1..n : /\ L.fh.voff[i] = LodRec(b, L, i).voff /\ L.fh.ioff[i] = LodRec(b, L, i).ioff
                                           /\ L.fh.vsize[i] = LodRec(b, L, i).vsize /\ L.fh.isize[i] = LodRec(b, L, i).isize,
      \* every mesh's vertex streams lie inside its LOD's vertex section, its indices inside the index section
      meshesInside |-> \A i \in 1..n : LET r == LodRec(b, L, i) IN
                         \A j \in r.mesh_index..(r.mesh_index + r.mesh_count - 1) : LET m == MeshRec(b, L, j) IN
                           /\ \A s \in 1..m.streams : m.vb[s] + m.vcount * m.stride[s] <= r.vsize
                           /\ 2 * (m.start_index + m.icount) <= r.isize]
HeaderFacts(b) == HeaderFactsLen(b, Len(b))
=============================================================================
