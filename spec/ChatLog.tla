------------------------------- MODULE ChatLog -------------------------------
(* Beyond the listed properties (C17 only says "no crash"): the chat log.     *)
(*                                                                            *)
(*   header   two 32-bit counts a and b; b - a offsets of 32 bits follow      *)
(*   entries  start at 8 + 4 * b; entry i lies at its offset from there:      *)
(*            32-bit time, one byte event filter, one byte channel, 32 bits,  *)
(*            then the message - everything up to the start of the next entry *)
(*            (up to the end of the file for the last one)                    *)
(*                                                                            *)
(* An entry has no length of its own: a message ends where the next entry's   *)
(* offset says, which is what `Entries` states.  Layout as implemented (only  *)
(* the library documents it offline): regression level.  The writer below is  *)
(* the specification's own; MC_ChatLog checks that reading what it wrote      *)
(* returns what was written, for every small log.                             *)
EXTENDS Words, Sequences, SequencesExt, Naturals

C32(b, o) == U16LE(b, o) + 65536 * U16LE(b, o + 2)
Count(b) == IF C32(b, 4) >= C32(b, 0) THEN C32(b, 4) - C32(b, 0) ELSE 0
Base(b) == 8 + 4 * C32(b, 4)
EntryAt(b, i) == Base(b) + C32(b, 8 + 4 * (i - 1))
Entries(b) ==
  [i \in 1..Count(b) |->
     LET o == EntryAt(b, i)
         end == IF i = Count(b) THEN Len(b) ELSE EntryAt(b, i + 1)
     IN [time |-> <<U16LE(b, o + 2), U16LE(b, o)>>, filter |-> b[o + 5], channel |-> b[o + 6], message |-> SubSeq(b, o + 11, end)]]
\* the offsets are increasing and every entry's fixed part lies inside the file
WellFormedLog(b) ==
  /\ Len(b) >= 8 /\ C32(b, 0) = 0 /\ Len(b) >= 8 + 4 * Count(b)
  /\ \A i \in 1..Count(b) : EntryAt(b, i) + 10 <= (IF i = Count(b) THEN Len(b) ELSE EntryAt(b, i + 1))

\* ------------------------------------------------------------------ writer
Le32(n) == <<n % 256, (n \div 256) % 256, (n \div 65536) % 256, n \div 16777216>>
EntryBytes(e) == Le32(e.time) \o <<e.filter, e.channel>> \o Le32(1) \o e.message
LogBytes(es) ==
  LET n == Len(es)
      body == [i \in 1..n |-> EntryBytes(es[i])]
      off(i) == FoldLeft(LAMBDA a, j : a + Len(body[j]), 0, [j \in 1..(i - 1) |-> j])
  IN Le32(0) \o Le32(n) \o FlattenSeq([i \in 1..n |-> Le32(off(i))]) \o FlattenSeq(body)
=============================================================================
