-------------------------------- MODULE Excel --------------------------------
(* C05 - Excel header (EXH) and data (EXD) files, all fields big-endian.      *)
(* EXH: "EXHF", u16 version, u16 fixed-size row length, u16 column count,     *)
(*      u16 page count, u16 language count, u16, u8, u8 variant (1 = plain    *)
(*      rows, 2 = sub-rows), u16, u32 row count, 8 bytes; then columns        *)
(*      (u16 type, u16 offset), pages (u32 start id, u32 row count),          *)
(*      languages.                                                            *)
(* EXD: "EXDF", u16 version, u16, u32 size of the row index, 20 bytes; then   *)
(*      the row index (u32 row id, u32 absolute offset); a row is u32 data    *)
(*      size, u16 sub-row count, then the fixed-size region and the string    *)
(*      heap (plain) or per sub-row a u16 sub-row id and the fixed region.    *)
EXTENDS Naturals, Sequences, SequencesExt, FiniteSets, Words, Text

U16(b, o) == b[o + 1] * 256 + b[o + 2]
U32small(b, o) == ((b[o + 1] * 256 + b[o + 2]) * 256 + b[o + 3]) * 256 + b[o + 4]   \* < 2^31 in generated files
Bytes(b, o, n) == SubSeq(b, o + 1, o + n)

\* column types
T_String == 0  T_Bool == 1  T_Int8 == 2  T_UInt8 == 3  T_Int16 == 4  T_UInt16 == 5
T_Int32 == 6  T_UInt32 == 7  T_Float32 == 9  T_Int64 == 10  T_UInt64 == 11
IsPacked(t) == t >= 25 /\ t <= 32          \* PackedBool0..7
ColumnTypes == {0, 1, 2, 3, 4, 5, 6, 7, 9, 10, 11} \cup (25..32)
Width(t) == CASE t = T_String -> 4 [] t \in {T_Bool, T_Int8, T_UInt8} -> 1 [] t \in {T_Int16, T_UInt16} -> 2
              [] t \in {T_Int32, T_UInt32, T_Float32} -> 4 [] t \in {T_Int64, T_UInt64} -> 8 [] IsPacked(t) -> 1
\* tag under which the value is reported
TypeTag(t) == CASE t = T_String -> "str" [] t = T_Bool \/ IsPacked(t) -> "bool" [] t = T_Int8 -> "i8" [] t = T_UInt8 -> "u8"
            [] t = T_Int16 -> "i16" [] t = T_UInt16 -> "u16" [] t = T_Int32 -> "i32" [] t = T_UInt32 -> "u32"
            [] t = T_Float32 -> "f32" [] t = T_Int64 -> "i64" [] t = T_UInt64 -> "u64"

ParseExh(b) ==
  LET nc == U16(b, 8)
      np == U16(b, 10)
      nl == U16(b, 12)
  IN [version |-> U16(b, 4), data_offset |-> U16(b, 6), variant |-> b[18], row_count |-> U32small(b, 20),
      columns |-> [i \in 1..nc |-> <<U16(b, 32 + 4 * (i - 1)), U16(b, 34 + 4 * (i - 1))>>],
      pages |-> [i \in 1..np |-> <<U32small(b, 32 + 4 * nc + 8 * (i - 1)), U32small(b, 36 + 4 * nc + 8 * (i - 1))>>],
      nlangs |-> nl,
      lang1 |-> IF nl > 0 THEN b[32 + 4 * nc + 8 * np + 1] ELSE -1]

\* the row index of a data file: sequence of <<row id, offset>>
RowIndex(d) == [i \in 1..(U32small(d, 8) \div 8) |-> <<U32small(d, 32 + 8 * (i - 1)), U32small(d, 36 + 8 * (i - 1))>>]

CString(d, o) ==   \* bytes from offset o up to the next NUL
  LET ends == {k \in (o + 1)..Len(d) : d[k] = 0}
  IN SubSeq(d, o + 1, Min(ends) - 1)

\* one cell: base = offset of the fixed-size region of the (sub-)row
Cell(exh, d, base, col) ==
  LET t == col[1]
      o == base + col[2]
  IN CASE t = T_String -> [t |-> "str", b |-> CString(d, base + exh.data_offset + U32small(d, o))]
       [] t = T_Bool -> [t |-> "bool", b |-> <<IF d[o + 1] = 1 THEN 1 ELSE 0>>]
       [] IsPacked(t) -> [t |-> "bool", b |-> <<(d[o + 1] \div Pow2(t - 25)) % 2>>]
       [] OTHER -> [t |-> TypeTag(t), b |-> Bytes(d, o, Width(t))]
Record(exh, d, base) == [i \in 1..Len(exh.columns) |-> Cell(exh, d, base, exh.columns[i])]

\* all records of row `id`: one per stored sub-row; <<>> marks an unknown id
HasRow(d, id) == \E i \in 1..Len(RowIndex(d)) : RowIndex(d)[i][1] = id
ReadRow(exh, d, id) ==
  LET ix == RowIndex(d)
      k == Min({i \in 1..Len(ix) : ix[i][1] = id})
      off == ix[k][2]
      n == U16(d, off + 4)
  IN IF exh.variant = 2
     THEN [s \in 1..n |-> Record(exh, d, off + 6 + (s - 1) * (exh.data_offset + 2) + 2)]
     ELSE <<Record(exh, d, off + 6)>>

\* file names
LangCode(l) == CASE l = 0 -> <<>> [] l = 1 -> <<106,97>> [] l = 2 -> <<101,110>> [] l = 3 -> <<100,101>>
                 [] l = 4 -> <<102,114>> [] l = 5 -> <<99,104,115>> [] l = 6 -> <<99,104,116>> [] l = 7 -> <<107,111>>
S_exd == <<101,120,100,47>>            \* "exd/"
ExdName(name, lang, start) ==
  name \o <<95>> \o Dec(start) \o (IF lang = 0 THEN <<>> ELSE <<95>> \o LangCode(lang)) \o <<46,101,120,100>>
ExdPath(name, lang, start) == S_exd \o ExdName(name, lang, start)
ExhPath(name) == S_exd \o Lower(name) \o <<46,101,120,104>>
RootPath == <<101,120,100,47,114,111,111,116,46,101,120,108>>   \* "exd/root.exl"
=============================================================================
