------------------------------ MODULE Assets16 ------------------------------
(* C16: the remaining auxiliary asset decoders.                               *)
(*   PBD   pre-bone deformer: items (body id, link index, out-of-line bones)  *)
(*         and a link forest; a query walks from one body id up the parent     *)
(*         links until the other body id or the root.  The walk is a state     *)
(*         machine (WalkInit / WalkStep) so the model can explore it.          *)
(*   CMP   racial scaling rows at a fixed file offset.                         *)
(*   TERA  terrain plates: grid cells -> world positions, and the writer.      *)
(*   LGB   a layer group without layers: header, chunk, string heap.           *)
EXTENDS HavokTag, Floats

U16(b, o) == U16LE(b, o)
I16(b, o) == IF U16LE(b, o) >= 32768 THEN U16LE(b, o) - 65536 ELSE U16LE(b, o)
U32n(b, o) == U16LE(b, o) + 65536 * U16LE(b, o + 2)          \* < 2^31 in every decided file
CStr(b, o) == LET z == Min({k \in o..Len(b) : k = Len(b) \/ b[k + 1] = 0}) IN SubSeq(b, o + 1, z)
LE16(n) == <<n % 256, n \div 256>>
LE32n(n) == <<n % 256, (n \div 256) % 256, (n \div 65536) % 256, n \div 16777216>>
LEI16(n) == LE16(IF n < 0 THEN n + 65536 ELSE n)

\* ------------------------------------------------------------------ PBD
PbdDeformer(b, off) ==
  LET nb == U32n(b, off)
      tpos == off + 4 + 2 * nb + (IF nb % 2 = 1 THEN 2 ELSE 0)
  IN [k \in 1..nb |-> [name |-> CStr(b, off + U16(b, off + 4 + 2 * (k - 1))),
                       m |-> [j \in 1..12 |-> FromLE(b, tpos + 48 * (k - 1) + 4 * (j - 1))]]]
Pbd(b) ==
  LET n == U32n(b, 0)
  IN [items |-> [i \in 1..n |-> LET o == 4 + 12 * (i - 1) IN [body |-> U16(b, o), link |-> I16(b, o + 2), bones |-> PbdDeformer(b, U32n(b, o + 4))]],
      links |-> [i \in 1..n |-> LET o == 4 + 12 * n + 8 * (i - 1)
                                IN [parent |-> I16(b, o), first |-> I16(b, o + 2), next |-> I16(b, o + 4), deformer |-> U16(b, o + 6)]]]

\* the walk: state [item, link, acc, done]; indices are 1-based here, -1 means none
HasItem(p, body) == \E i \in 1..Len(p.items) : p.items[i].body = body
ItemOf(p, body) == Min({i \in 1..Len(p.items) : p.items[i].body = body})
WalkInit(p, from) == [item |-> ItemOf(p, from), link |-> p.items[ItemOf(p, from)].link + 1, acc |-> << >>, done |-> FALSE]
WalkStep(p, to, w) ==
  IF w.done THEN w
  ELSE LET acc == w.acc \o p.items[w.item].bones
       IN IF p.links[w.link].parent = -1 THEN [w EXCEPT !.acc = acc, !.done = TRUE]
          ELSE LET nl == p.links[w.link].parent + 1
                   ni == p.links[nl].deformer + 1
               IN IF p.items[ni].body = to THEN [w EXCEPT !.acc = acc, !.done = TRUE]
                  ELSE [item |-> ni, link |-> nl, acc |-> acc, done |-> FALSE]
\* a forest has no more than Len(items) levels
Walk(p, from, to) == FoldLeft(LAMBDA w, i : WalkStep(p, to, w), WalkInit(p, from), Idx(Len(p.items)))
\* queries the property decides: different ids, a known start whose link has a sibling
Decided(p, from, to) == from # to /\ HasItem(p, from) /\ p.links[p.items[ItemOf(p, from)].link + 1].next # -1
Undecided(p, from, to) == from = to \/ (HasItem(p, from) /\ p.links[p.items[ItemOf(p, from)].link + 1].next = -1)

\* ------------------------------------------------------------------ CMP
CmpOffset == 174080     \* 0x2a800
\* rows of 14 words from the logged tail (the bytes behind the fixed offset); a trailing partial row is ignored
CmpRows(tail) == [r \in 1..(Len(tail) \div 56) |-> [j \in 1..14 |-> FromLE(tail, 56 * (r - 1) + 4 * (j - 1))]]

\* ------------------------------------------------------------------ TERA
\* f32 bits of m / 2 for an integer |m| < 2^24 (exact)
HighBit24(n) == CHOOSE k \in 0..23 : n \div Pow2(k) = 1
F32OfHalves(m, negzero) ==
  IF m = 0 THEN (IF negzero THEN <<32768, 0>> ELSE Zero32)
  ELSE LET a == IF m < 0 THEN 0 - m ELSE m
           k == HighBit24(a)
       IN F32(IF m < 0 THEN 1 ELSE 0, 126 + k, (a - Pow2(k)) * Pow2(23 - k))
\* world position of grid cell x with plates of the given size: size * (x + 0.5)
PlatePos(size, x) == F32OfHalves(size * (2 * x + 1), x < 0)
FourDigits(i) == <<48 + ((i \div 1000) % 10), 48 + ((i \div 100) % 10), 48 + ((i \div 10) % 10), 48 + (i % 10)>>
PlateFile(i) == FourDigits(i) \o <<46, 109, 100, 108>>      \* "%04d.mdl", 0-based plate number
Tera(b) ==
  LET n == U32n(b, 4)
      size == U32n(b, 8)
  IN [i \in 1..n |-> [x |-> PlatePos(size, I16(b, 52 + 4 * (i - 1))), y |-> PlatePos(size, I16(b, 54 + 4 * (i - 1))), file |-> PlateFile(i - 1)]]
TeraPlateSize(b) == U32n(b, 8)
TeraCells(b) == [i \in 1..U32n(b, 4) |-> <<I16(b, 52 + 4 * (i - 1)), I16(b, 54 + 4 * (i - 1))>>]
\* the writer: version 0x1000003, 128-unit plates, clip distance 0.0, unknown 1.0, 32 reserved bytes, cells
TeraWrite(cells) ==
  <<3, 0, 0, 1>> \o LE32n(Len(cells)) \o LE32n(128) \o <<0, 0, 0, 0>> \o <<0, 0, 128, 63>> \o [i \in 1..32 |-> 0]
  \o FoldLeft(LAMBDA acc, c : acc \o LEI16(c[1]) \o LEI16(c[2]), << >>, cells)

\* ------------------------------------------------------------------ LGB without layers
\* what a reader of the format finds in a written group: ids, chunk count, name through the heap offset
LgbView(b) ==
  [file_id |-> FromLE(b, 0), file_size |-> U32n(b, 4), chunks |-> U32n(b, 8), chunk_id |-> FromLE(b, 12),
   group |-> FromLE(b, 20), name |-> CStr(b, 20 + U32n(b, 24)), layers |-> U32n(b, 32)]
=============================================================================
