------------------------------- MODULE Text -------------------------------
(* Text as sequences of byte values (TLC cannot look into strings).        *)
EXTENDS Naturals, Sequences, SequencesExt, FiniteSets

Pow10(k) == CASE k = 0 -> 1 [] k = 1 -> 10 [] k = 2 -> 100 [] k = 3 -> 1000
              [] k = 4 -> 10000 [] k = 5 -> 100000 [] k = 6 -> 1000000
              [] k = 7 -> 10000000 [] k = 8 -> 100000000 [] k = 9 -> 1000000000
Pow16(k) == CASE k = 0 -> 1 [] k = 1 -> 16 [] k = 2 -> 256 [] k = 3 -> 4096
              [] k = 4 -> 65536 [] k = 5 -> 1048576 [] k = 6 -> 16777216
              [] k = 7 -> 268435456

\* number of decimal digits of a natural below 2^31
DecLen(n) == IF n < 10 THEN 1 ELSE IF n < 100 THEN 2 ELSE IF n < 1000 THEN 3
             ELSE IF n < 10000 THEN 4 ELSE IF n < 100000 THEN 5
             ELSE IF n < 1000000 THEN 6 ELSE IF n < 10000000 THEN 7
             ELSE IF n < 100000000 THEN 8 ELSE IF n < 1000000000 THEN 9 ELSE 10

\* decimal rendering, zero padded to at least w digits (printf "%0wd")
DecPad(n, w) ==
  LET k == IF DecLen(n) > w THEN DecLen(n) ELSE w
  IN [i \in 1..k |-> 48 + ((n \div Pow10(k - i)) % 10)]
Dec(n) == DecPad(n, 1)

HexDigitLower(d) == IF d < 10 THEN 48 + d ELSE 87 + d
HexLen(n) == IF n < 16 THEN 1 ELSE IF n < 256 THEN 2 ELSE IF n < 4096 THEN 3
             ELSE IF n < 65536 THEN 4 ELSE IF n < 1048576 THEN 5
             ELSE IF n < 16777216 THEN 6 ELSE IF n < 268435456 THEN 7 ELSE 8
\* lower-case hexadecimal, zero padded to at least w digits (printf "%0wx")
HexPad(n, w) ==
  LET k == IF HexLen(n) > w THEN HexLen(n) ELSE w
  IN [i \in 1..k |-> HexDigitLower((n \div Pow16(k - i)) % 16)]

IsUpper(c) == c >= 65 /\ c <= 90
IsLower(c) == c >= 97 /\ c <= 122
IsDigit(c) == c >= 48 /\ c <= 57
LowerC(c)  == IF IsUpper(c) THEN c + 32 ELSE c
Lower(s)   == [i \in 1..Len(s) |-> LowerC(s[i])]

\* value of a decimal numeral, -1 if s is not a non-empty digit string (< 10 digits)
ParseDec(s) ==
  IF Len(s) = 0 \/ Len(s) > 9 \/ \E i \in 1..Len(s) : ~IsDigit(s[i]) THEN -1
  ELSE FoldLeft(LAMBDA acc, c : acc * 10 + (c - 48), 0, s)

\* positions of byte c in s, ascending
Positions(s, c) == SelectSeq([i \in 1..Len(s) |-> i], LAMBDA i : s[i] = c)

LastIndexOf(s, c) == LET ps == Positions(s, c) IN IF ps = <<>> THEN 0 ELSE ps[Len(ps)]
FirstIndexOf(s, c) == LET ps == Positions(s, c) IN IF ps = <<>> THEN 0 ELSE ps[1]

\* split s on separator byte c (like str.split): always Len(Positions)+1 pieces
Split(s, c) ==
  LET ps == Positions(s, c)
      n  == Len(ps)
      from(k) == IF k = 1 THEN 1 ELSE ps[k - 1] + 1
      to(k)   == IF k = n + 1 THEN Len(s) ELSE ps[k] - 1
  IN [k \in 1..(n + 1) |-> SubSeq(s, from(k), to(k))]

\* concatenation of a sequence of sequences
Flatten(ss) == FoldLeft(LAMBDA acc, x : acc \o x, <<>>, ss)
\* join pieces with separator sequence sep
Join(ss, sep) == IF ss = <<>> THEN <<>>
                 ELSE FoldLeft(LAMBDA acc, x : acc \o sep \o x, ss[1], Tail(ss))

StartsWith(s, p) == Len(s) >= Len(p) /\ SubSeq(s, 1, Len(p)) = p
EndsWith(s, p)   == Len(s) >= Len(p) /\ SubSeq(s, Len(s) - Len(p) + 1, Len(s)) = p
=============================================================================
