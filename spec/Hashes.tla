------------------------------- MODULE Hashes -------------------------------
(* C12 - the standard definitions: reflected CRC-32 (polynomial 0xEDB88320)  *)
(* as a register machine, JAMCRC, the zero-initialised variant used for      *)
(* shader keys, SqPack path hashing, and SHA-1 (FIPS 180-1).                 *)
EXTENDS Naturals, Sequences, SequencesExt, FiniteSetsExt, Words, Text

Poly == <<60856, 33568>>      \* 0xEDB8 0x8320

\* bit-serial definition: one step per bit, least significant first
CrcBitStep(c) == IF c[2] % 2 = 1 THEN XorW(Poly, Shr(c, 1)) ELSE Shr(c, 1)
CrcBits8(c) == CrcBitStep(CrcBitStep(CrcBitStep(CrcBitStep(CrcBitStep(CrcBitStep(CrcBitStep(CrcBitStep(c))))))))
CrcTable == [i \in 0..255 |-> CrcBits8(<<0, i>>)]
\* register update per byte (table driven)
CrcByte(c, b) == XorW(CrcTable[(c[2] ^^ b) % 256], Shr(c, 8))
CrcRun(init, s) == FoldLeft(CrcByte, init, s)
\* bit-serial update per byte, the definition the table must agree with
CrcByteSerial(c, b) == CrcBits8(XorW(c, <<0, b>>))

Jamcrc(s)      == CrcRun(Ones32, s)            \* CRC-32 without the final inversion
ZlibCrc(s)     == NotW(CrcRun(Ones32, s))      \* the ordinary CRC-32
CrcZeroInit(s) == CrcRun(Zero32, s)            \* shader keys: zero initial value, no final XOR
PathHash(s)    == Jamcrc(Lower(s))             \* SqPack partial path hash
\* the two-part key of an index file: the path is split at its LAST '/', whatever stands on either side (an empty file
\* name, an empty or slash-terminated folder part); both parts lower-cased and hashed on their own
HasSlash(s)    == \E i \in 1..Len(s) : s[i] = 47
SplitHash(s)   == LET k == Max({i \in 1..Len(s) : s[i] = 47})
                  IN [name |-> PathHash(SubSeq(s, k + 1, Len(s))), path |-> PathHash(SubSeq(s, 1, k - 1))]

-----------------------------------------------------------------------------
(* SHA-1 *)
K(t) == IF t < 20 THEN <<23170, 31129>>        \* 5A827999
        ELSE IF t < 40 THEN <<28377, 60321>>   \* 6ED9EBA1
        ELSE IF t < 60 THEN <<36635, 48348>>   \* 8F1BBCDC
        ELSE <<51810, 49622>>                  \* CA62C1D6
F(t, b, c, d) == IF t < 20 THEN OrW(AndW(b, c), AndW(NotW(b), d))
                 ELSE IF t < 40 THEN XorW(XorW(b, c), d)
                 ELSE IF t < 60 THEN OrW(OrW(AndW(b, c), AndW(b, d)), AndW(c, d))
                 ELSE XorW(XorW(b, c), d)
H0 == << <<26437, 8961>>, <<61389, 43913>>, <<39098, 56574>>, <<4146, 21622>>, <<50130, 57840>> >>

\* message schedule of the block starting at 0-based offset o of padded message m
Schedule(m, o) ==
  LET w16 == [t \in 1..16 |-> FromBE(m, o + 4 * (t - 1))]
  IN FoldLeft(LAMBDA w, t : Append(w, Rotl(XorW(XorW(w[t - 3], w[t - 8]), XorW(w[t - 14], w[t - 16])), 1)),
              w16, [t \in 1..64 |-> t + 16])
Round(st, tw) ==   \* st = <<a,b,c,d,e>>, tw = <<t, w_t>>
  LET t == tw[1]
      tmp == AddW(AddW(AddW(AddW(Rotl(st[1], 5), F(t, st[2], st[3], st[4])), st[5]), tw[2]), K(t))
  IN <<tmp, st[1], Rotl(st[2], 30), st[3], st[4]>>
Block(h, m, o) ==
  LET w == Schedule(m, o)
      r == FoldLeft(Round, h, [t \in 1..80 |-> <<t - 1, w[t]>>])
  IN [i \in 1..5 |-> AddW(h[i], r[i])]
\* FIPS padding: 0x80, zeros to 56 mod 64, 64-bit big-endian bit length (< 2^31 bits here)
PadLen(n) == ((n + 8) \div 64 + 1) * 64
Pad(s) ==
  LET n == Len(s)
      total == PadLen(n)
      bits == <<(n \div 8192) , (n * 8) % 65536>>   \* n*8 as limbs: hi = n*8 div 65536 = n div 8192
  IN [i \in 1..total |->
        IF i <= n THEN s[i]
        ELSE IF i = n + 1 THEN 128
        ELSE IF i <= total - 4 THEN 0
        ELSE BytesBE(bits)[i - (total - 4)]]
Sha1(s) ==
  LET m == Pad(s)
      h == FoldLeft(LAMBDA acc, k : Block(acc, m, 64 * (k - 1)), H0, [k \in 1..(Len(m) \div 64) |-> k])
  IN Flatten([i \in 1..5 |-> BytesBE(h[i])])
=============================================================================
