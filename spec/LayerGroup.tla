----------------------------- MODULE LayerGroup -----------------------------
(* Beyond the listed properties (C16 speaks of an empty layer group only):    *)
(* a layer group WITH layers and instance objects, as nested offset tables.   *)
(*                                                                            *)
(*   file    "LGB1", file size, chunk count; one chunk header at 12:          *)
(*           chunk id, size, group id, name offset (relative to 20), layer    *)
(*           table offset, layer count; the layer offsets follow at 36 and    *)
(*           are relative to 36                                               *)
(*   layer   at L: id, name offset (relative to L), object table offset and   *)
(*           count, four flag bytes, referenced-set list offset, festival id  *)
(*           and phase, two bytes, version mask, 4 bytes, two (offset, count) *)
(*           pairs; 52 bytes; the object offsets follow the header and are    *)
(*           relative to L + object table offset                              *)
(*   object  at O: type, instance id, name offset (relative to O), nine       *)
(*           floats (translation, rotation, scale), then the type's record    *)
(*                                                                            *)
(* Every position is relative to the start of the structure that holds it -   *)
(* that is the whole difficulty of the format, and what ObjAt / LayerAt state.*)
(* Generated files keep the object table directly behind the layer header     *)
(* (offset 52), where the library reads it and where the offset says it is.   *)
(* Six object types are given records here: background models (type 1),      *)
(* position markers (5), shared groups (6), environment sets (13), pop ranges *)
(* (40) and exit ranges (41, a trigger box with a zone line behind it).  Layout recalled from Lumina's layer       *)
(* parser; offline only the library documents it: regression level.           *)
EXTENDS Assets16

TypeBg == 1
TypeMarker == 5
TypeShared == 6
TypeEnv == 13
TypePop == 40
TypeExit == 41
\* background model: model path and collision path offsets, collision kind, attribute mask and attribute, collision configuration,
\*                   three flag bytes (visible, shadow, light shadow), a byte, a float
\* shared group: asset path offset, door state, overridden members offset and count, rotation state, three flag bytes, a byte,
\*               bound path instance, move path settings, a flag byte, 3 bytes, transform state, colour state
\* position marker: kind, two comment offsets
\* pop range: kind, positions offset and count, a float, an index byte
\* environment set: asset path offset, bound instance, shape, a flag byte, a priority byte, 2 bytes, a float, an integer, two floats, sound path offset
\* exit range: a trigger box (shape, 16-bit priority, an enabled byte, 5 bytes), then kind, zone and territory (16 bits each), index,
\*             destination and return instance, a float, 4 bytes
ObjData(b, o, type) ==
  IF type = TypeMarker THEN <<U32n(b, o), FromLE(b, o + 4), FromLE(b, o + 8)>>
  ELSE IF type = TypeBg THEN <<FromLE(b, o), FromLE(b, o + 4), U32n(b, o + 8), FromLE(b, o + 12), FromLE(b, o + 16), FromLE(b, o + 20),
                               b[o + 25] # 0, b[o + 26] # 0, b[o + 27] # 0, FromLE(b, o + 28)>>
  ELSE IF type = TypeShared THEN <<FromLE(b, o), U32n(b, o + 4), FromLE(b, o + 8), FromLE(b, o + 12), U32n(b, o + 16), b[o + 21] # 0, b[o + 22] # 0,
                                   b[o + 23] # 0, FromLE(b, o + 24), FromLE(b, o + 28), b[o + 33] # 0, U32n(b, o + 36), U32n(b, o + 40)>>
  ELSE IF type = TypePop THEN <<U32n(b, o), FromLE(b, o + 4), FromLE(b, o + 8), FromLE(b, o + 12), b[o + 17]>>
  ELSE IF type = TypeEnv THEN <<FromLE(b, o), FromLE(b, o + 4), U32n(b, o + 8), b[o + 13] # 0, b[o + 14], FromLE(b, o + 16), FromLE(b, o + 20),
                                FromLE(b, o + 24), FromLE(b, o + 28), FromLE(b, o + 32)>>
  ELSE IF type = TypeExit THEN <<U32n(b, o), I16(b, o + 4), b[o + 7] # 0, U32n(b, o + 12), U16(b, o + 16), U16(b, o + 18), FromLE(b, o + 20),
                                 FromLE(b, o + 24), FromLE(b, o + 28), FromLE(b, o + 32)>>
  ELSE << >>
ObjAt(b, o) ==
  LET type == U32n(b, o)
  IN [type |-> type, id |-> FromLE(b, o + 4), name |-> CStr(b, o + U32n(b, o + 8)),
      transform |-> [j \in 1..9 |-> FromLE(b, o + 12 + 4 * (j - 1))], data |-> ObjData(b, o + 48, type)]
LayerAt(b, L) ==
  LET n == U32n(b, L + 12)
      table == L + U32n(b, L + 8)
  IN [id |-> FromLE(b, L), name |-> CStr(b, L + U32n(b, L + 4)),
      flags |-> <<b[L + 17] # 0, b[L + 18] # 0, b[L + 19] # 0, b[L + 20] # 0>>,
      festival |-> <<U16(b, L + 24), U16(b, L + 26)>>, temporary |-> b[L + 29], housing |-> b[L + 30], mask |-> U16(b, L + 30),
      objects |-> [k \in 1..n |-> ObjAt(b, table + U32n(b, L + 52 + 4 * (k - 1)))]]
LayerCount(b) == U32n(b, 32)
Layers(b) == [i \in 1..LayerCount(b) |-> LayerAt(b, 36 + U32n(b, 36 + 4 * (i - 1)))]
\* the file states its own length and every layer / object start lies inside it
WellFormed(b) ==
  /\ Len(b) >= 36 /\ U32n(b, 4) = Len(b) /\ U32n(b, 8) >= 1
  /\ \A i \in 1..LayerCount(b) : 36 + U32n(b, 36 + 4 * (i - 1)) + 52 <= Len(b)
=============================================================================
