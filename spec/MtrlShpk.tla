------------------------------ MODULE MtrlShpk ------------------------------
(* C14 - material (MTRL) and shader package (SHPK) files, little-endian.      *)
(* MTRL: 16-byte file header (version, file size, data set size, string table *)
(* size, shader package name offset, texture / uv set / colour set counts,    *)
(* additional data size), texture offsets, set records, string table,         *)
(* additional data (table flags: bit 2 colour table, bit 3 dye table, bits    *)
(* 4..11 table dimensions), the colour table (16 rows of 16 halves, or 32 rows *)
(* of 32 halves), the dye table, then key / constant / sampler counts and      *)
(* tables and the float values.                                               *)
(* SHPK: "ShPk" header with counts and offsets, shaders with their parameter   *)
(* lists (names in the string heap, bytecode in the shader blob), material    *)
(* parameters, keys, nodes and aliases; a selector names a node directly or   *)
(* through an alias; selectors are base-31 polynomials of keys modulo 2^32.   *)
EXTENDS Naturals, Sequences, SequencesExt, FiniteSets, FiniteSetsExt, Words, Text, Floats

U8(b, o) == b[o + 1]
U16(b, o) == U16LE(b, o)
U32n(b, o) == U16LE(b, o) + 65536 * U16LE(b, o + 2)
Word(b, o) == FromLE(b, o)
CStr(b, o) == LET z == Min({k \in o..Len(b) : k = Len(b) \/ b[k + 1] = 0}) IN SubSeq(b, o + 1, z)

\* ---------------------------------------------------------------- material
Pow256(k) == CASE k = 0 -> 1 [] k = 1 -> 256 [] k = 2 -> 65536 [] k = 3 -> 16777216
\* which 2-byte slots of a colour table row are integers (0-based slot numbers); the rest are halves
LegacyIntSlots == {11}
DawntrailIntSlots == {24, 25, 27}
Slot(b, o, k, ints) == IF k \in ints THEN <<0, U16(b, o + 2 * k)>> ELSE HalfToF32(U16(b, o + 2 * k))
Mtrl(b) ==
  LET nTex == U8(b, 12)
      nUv == U8(b, 13)
      nCol == U8(b, 14)
      addl == U8(b, 15)
      sSize == U16(b, 8)
      oStr == 16 + 4 * nTex + 4 * nUv + 4 * nCol
      oFlags == oStr + sSize
      \* the table flags are the first (up to four) bytes of the additional data, zero-extended
      flags == FoldLeft(LAMBDA a, k : a + b[oFlags + k] * Pow256(k - 1), 0, [k \in 1..(IF addl < 4 THEN addl ELSE 4) |-> k])
      hasTable == (flags \div 4) % 2 = 1
      hasDye == (flags \div 8) % 2 = 1
      dims == (flags \div 16) % 256
      kind == IF ~hasTable THEN "none" ELSE IF dims = 0 \/ dims = 66 THEN "legacy" ELSE IF dims = 83 THEN "dawntrail" ELSE "opaque"
      oTable == oFlags + (IF addl < 4 THEN 4 ELSE addl)
      tSize == CASE kind = "legacy" -> 512 [] kind = "dawntrail" -> 2048 [] OTHER -> 0
      dkind == IF ~hasDye THEN "none" ELSE IF dims = 0 THEN "legacy" ELSE IF dims >= 80 /\ dims <= 95 THEN "dawntrail" ELSE "opaque"
      oDye == oTable + tSize
      dSize == CASE dkind = "legacy" -> 32 [] dkind = "dawntrail" -> 128 [] OTHER -> 0
      oH == oDye + dSize
      vSize == U16(b, oH)
      nKey == U16(b, oH + 2)
      nConst == U16(b, oH + 4)
      nSamp == U16(b, oH + 6)
      oKeys == oH + 12
      oConst == oKeys + 8 * nKey
      oSamp == oConst + 8 * nConst
      oVals == oSamp + 12 * nSamp
      \* texture paths: the strings at the start of the heap, in order
      texStart == FoldLeft(LAMBDA acc, i : Append(acc, acc[Len(acc)] + Len(CStr(b, oStr + acc[Len(acc)])) + 1), <<0>>, [i \in 1..nTex |-> i])
      bit(x, k) == (x \div Pow2(k)) % 2 = 1
  IN [shpk |-> CStr(b, oStr + U16(b, 10)),
      textures |-> [i \in 1..nTex |-> CStr(b, oStr + texStart[i])],
      keys |-> [i \in 1..nKey |-> <<Word(b, oKeys + 8 * (i - 1)), Word(b, oKeys + 8 * (i - 1) + 4)>>],
      constants |-> [i \in 1..nConst |->
                       LET o == oConst + 8 * (i - 1)
                           n == U16(b, o + 6) \div 4
                           vo == oVals + U16(b, o + 4)
                       IN [id |-> Word(b, o), n |-> n, values |-> [k \in 1..4 |-> IF k <= n THEN Word(b, vo + 4 * (k - 1)) ELSE Zero32]]],
      samplers |-> [i \in 1..nSamp |-> LET o == oSamp + 12 * (i - 1) IN [usage |-> Word(b, o), flags |-> Word(b, o + 4), texture |-> U8(b, o + 8)]],
      table |-> [k |-> kind,
                 rows |-> IF kind = "legacy" THEN [r \in 1..16 |-> [k \in 1..16 |-> Slot(b, oTable + 32 * (r - 1), k - 1, LegacyIntSlots)]]
                          ELSE IF kind = "dawntrail" THEN [r \in 1..32 |-> [k \in 1..32 |-> Slot(b, oTable + 64 * (r - 1), k - 1, DawntrailIntSlots)]]
                          ELSE <<>>],
      dye |-> [k |-> dkind,
               rows |-> IF dkind = "legacy"
                        THEN [r \in 1..16 |-> LET d == U16(b, oDye + 2 * (r - 1))
                                              IN <<d \div 32, bit(d, 0), bit(d, 1), bit(d, 2), bit(d, 3), bit(d, 4)>>]
                        ELSE IF dkind = "dawntrail"
                        THEN [r \in 1..32 |-> LET lo == U16(b, oDye + 4 * (r - 1))
                                                  hi == U16(b, oDye + 4 * (r - 1) + 2)
                                              IN <<hi % 2048, (hi \div 2048) % 4>> \o [k \in 1..12 |-> bit(lo, k - 1)]]
                        ELSE <<>>]]

\* ---------------------------------------------------------------- shader package
Selector(keys) ==    \* sum of key_i * 31^i modulo 2^32
  FoldLeft(LAMBDA acc, k : [sel |-> AddW(acc.sel, MulW(k, acc.mul)), mul |-> MulSmall(acc.mul, 31)],
           [sel |-> Zero32, mul |-> <<0, 1>>], keys).sel
SelectorFromKeys(a, b, c, d) == Selector(<<a, b, c, d>>)
SelectorFromAll(sys, scene, mat, sub) == SelectorFromKeys(Selector(sys), Selector(scene), Selector(mat), Selector(sub))

Shpk(b) ==
  LET shaderData == U32n(b, 16)
      strings == U32n(b, 20)
      nVs == U32n(b, 24)
      nPs == U32n(b, 28)
      matSize == U32n(b, 32)
      nMat == U16(b, 36)
      hasDef == U16(b, 38) = 1
      nSc == U16(b, 40)
      nSa == U16(b, 44)
      nTx == U16(b, 46)
      nUa == U16(b, 48)
      nSys == U32n(b, 52)
      nScene == U32n(b, 56)
      nMatK == U32n(b, 60)
      nNode == U32n(b, 64)
      nAlias == U32n(b, 68)
      Param(o) == [name |-> LET s == SubSeq(b, strings + U32n(b, o + 4) + 1, strings + U32n(b, o + 4) + U16(b, o + 8))
                            IN s, slot |-> U16(b, o + 12)]
      Params(o, n) == [i \in 1..n |-> Param(o + 16 * (i - 1))]
      \* shaders are variable-sized records: fold to find their offsets
      shSize(o) == 16 + 16 * (U16(b, o + 8) + U16(b, o + 10) + U16(b, o + 12) + U16(b, o + 14))
      shOffs == FoldLeft(LAMBDA acc, i : Append(acc, acc[Len(acc)] + shSize(acc[Len(acc)])), <<72>>, [i \in 1..(nVs + nPs) |-> i])
      Shader(o, isV) ==
        LET n1 == U16(b, o + 8)
            n2 == U16(b, o + 10)
            n3 == U16(b, o + 12)
            n4 == U16(b, o + 14)
            data == shaderData + U32n(b, o)
        IN [scalar |-> Params(o + 16, n1), resource |-> Params(o + 16 + 16 * n1, n2), uav |-> Params(o + 16 + 16 * (n1 + n2), n3),
            texture |-> Params(o + 16 + 16 * (n1 + n2 + n3), n4),
            extra |-> IF isV THEN SubSeq(b, data + 1, data + 8) ELSE <<>>,
            code |-> SubSeq(b, data + (IF isV THEN 8 ELSE 0) + 1, data + (IF isV THEN 8 ELSE 0) + U32n(b, o + 4))]
      oMat == shOffs[nVs + nPs + 1]
      oDef == oMat + 8 * nMat
      oGl == oDef + (IF hasDef THEN 4 * (matSize \div 4) ELSE 0)
      oKeys == oGl + 16 * (nSc + nSa + nTx + nUa)
      Keys(o, n) == [i \in 1..n |-> <<Word(b, o + 8 * (i - 1)), Word(b, o + 8 * (i - 1) + 4)>>]
      oSub == oKeys + 8 * (nSys + nScene + nMatK)
      oNodes == oSub + 8
      nodeFixed == 24 + 4 * (nSys + nScene + nMatK + 2)
      ndOffs == FoldLeft(LAMBDA acc, i : Append(acc, acc[Len(acc)] + nodeFixed + 12 * U32n(b, acc[Len(acc)] + 4)), <<oNodes>>, [i \in 1..nNode |-> i])
      Words(o, n) == [i \in 1..n |-> Word(b, o + 4 * (i - 1))]
      Node(o) == [selector |-> Word(b, o), pass_indices |-> SubSeq(b, o + 9, o + 24),
                  sys |-> Words(o + 24, nSys), scene |-> Words(o + 24 + 4 * nSys, nScene),
                  mat |-> Words(o + 24 + 4 * (nSys + nScene), nMatK), sub |-> Words(o + 24 + 4 * (nSys + nScene + nMatK), 2),
                  passes |-> [i \in 1..U32n(b, o + 4) |-> Words(o + nodeFixed + 12 * (i - 1), 3)]]
      oAlias == ndOffs[nNode + 1]
      nodes == [i \in 1..nNode |-> Node(ndOffs[i])]
      \* the selector table: nodes in order, then aliases; the first match wins
      table == [i \in 1..nNode |-> <<nodes[i].selector, i>>] \o [i \in 1..nAlias |-> <<Word(b, oAlias + 8 * (i - 1)), U32n(b, oAlias + 8 * (i - 1) + 4) + 1>>]
  IN [vs |-> [i \in 1..nVs |-> Shader(shOffs[i], TRUE)], ps |-> [i \in 1..nPs |-> Shader(shOffs[nVs + i], FALSE)],
      mat_params |-> [i \in 1..nMat |-> <<Word(b, oMat + 8 * (i - 1)), U16(b, oMat + 8 * (i - 1) + 4), U16(b, oMat + 8 * (i - 1) + 6)>>],
      mat_params_size |-> matSize,
      sys_keys |-> Keys(oKeys, nSys), scene_keys |-> Keys(oKeys + 8 * nSys, nScene), mat_keys |-> Keys(oKeys + 8 * (nSys + nScene), nMatK),
      sub |-> <<Word(b, oSub), Word(b, oSub + 4)>>, nodes |-> nodes, table |-> table]
\* the node a selector resolves to (0 = none): directly or through an alias, first match in table order
FindNode(p, sel) ==
  LET hits == {i \in 1..Len(p.table) : p.table[i][1] = sel}
  IN IF hits = {} THEN 0 ELSE p.table[Min(hits)][2]
=============================================================================
