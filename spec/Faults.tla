-------------------------------- MODULE Faults --------------------------------
(* C17 / C18 - the fault space over a valid base file and the outcome         *)
(* contract of every entry point.                                              *)
(*                                                                            *)
(* A base is [id, len, fields], fields = sequence of [off, w, orig] (offset,   *)
(* width in bytes, original little-endian bytes) taken from the field maps of *)
(* the format modules / concretisers.  Faults:                                 *)
(*   [k |-> "trunc", n]            keep the first n bytes                      *)
(*   [k |-> "set", off, v]         overwrite the field at off with bytes v     *)
(* Truncation points: every length 0..Dense, every field boundary and the      *)
(* bytes next to it, the last bytes of the file.  Field values: the boundary   *)
(* set 0, 1, 0x7F.., 0x80.., 0xFF.., original +- 1, 2, 4, 8, 16 (in the field's *)
(* width, little- and big-endian spellings).                                   *)
EXTENDS Naturals, Sequences, SequencesExt, FiniteSets, FiniteSetsExt

Dense == 48

IncLE(b) ==   \* b + 1 modulo 256^Len(b), little-endian
  LET carryTo == IF \A i \in 1..Len(b) : b[i] = 255 THEN Len(b) + 1 ELSE Min({i \in 1..Len(b) : b[i] # 255})
  IN [i \in 1..Len(b) |-> IF i < carryTo THEN 0 ELSE IF i = carryTo THEN b[i] + 1 ELSE b[i]]
DecLE(b) ==
  LET borrowTo == IF \A i \in 1..Len(b) : b[i] = 0 THEN Len(b) + 1 ELSE Min({i \in 1..Len(b) : b[i] # 0})
  IN [i \in 1..Len(b) |-> IF i < borrowTo THEN 255 ELSE IF i = borrowTo THEN b[i] - 1 ELSE b[i]]
Rev(b) == [i \in 1..Len(b) |-> b[Len(b) + 1 - i]]
\* b + k and b - k (k steps of the increment): the values "a little off" that keep a count or size plausible
AddLE(b, k) == FoldLeft(LAMBDA x, i : IncLE(x), b, [i \in 1..k |-> i])
SubLE(b, k) == FoldLeft(LAMBDA x, i : DecLE(x), b, [i \in 1..k |-> i])
NearSteps == {2, 4, 8, 16}
Fill(x, w) == [i \in 1..w |-> x]
\* boundary values of a field of width w with original bytes orig
Boundary(w, orig) ==
  LET le == {Fill(0, w), [i \in 1..w |-> IF i = 1 THEN 1 ELSE 0], Fill(255, w),
             [i \in 1..w |-> IF i = w THEN 127 ELSE 255], [i \in 1..w |-> IF i = w THEN 128 ELSE 0],
             IncLE(orig), DecLE(orig)}
      near == {AddLE(orig, k) : k \in NearSteps} \cup {SubLE(orig, k) : k \in NearSteps}
      nearBE == IF w = 1 THEN {} ELSE {Rev(AddLE(Rev(orig), k)) : k \in NearSteps} \cup {Rev(SubLE(Rev(orig), k)) : k \in NearSteps}
  IN (le \cup {Rev(x) : x \in le} \cup {Rev(IncLE(Rev(orig))), Rev(DecLE(Rev(orig)))} \cup near \cup nearBE) \ {orig}

TruncPoints(base) ==
  LET edges == UNION {{base.fields[i].off - 1, base.fields[i].off, base.fields[i].off + 1,
                       base.fields[i].off + base.fields[i].w - 1, base.fields[i].off + base.fields[i].w,
                       base.fields[i].off + base.fields[i].w + 1} : i \in 1..Len(base.fields)}
      tail == {base.len - 1, base.len - 2, base.len - 4, base.len - 8, base.len \div 2}
  IN {n \in (0..Dense) \cup edges \cup tail : n >= 0 /\ n < base.len}

FaultsOf(base) ==
  {[k |-> "trunc", n |-> n] : n \in TruncPoints(base)}
    \cup UNION {{[k |-> "set", off |-> base.fields[i].off, v |-> v] : v \in Boundary(base.fields[i].w, base.fields[i].orig)} :
                i \in 1..Len(base.fields)}

\* the mutated file
ApplyFault(b, f) ==
  IF f.k = "trunc" THEN SubSeq(b, 1, f.n)
  ELSE [i \in 1..Len(b) |-> IF i > f.off /\ i <= f.off + Len(f.v) THEN f.v[i - f.off] ELSE b[i]]

-----------------------------------------------------------------------------
(* The contract: every entry point returns its ordinary failure or a value;   *)
(* memory stays proportional to the input.                                     *)
GoodOutcomes == {"value", "fail"}
MemoryBound(len) == 268435456 + 1100 * len           \* 256 MiB + 1100 bytes per input byte
Within(peak, len) == len > 1048576 \/ peak <= MemoryBound(len)
=============================================================================
