------------------------------- MODULE Words -------------------------------
(* 32-bit words as pairs <<hi16, lo16>> (TLC integers are 32-bit signed).    *)
EXTENDS Naturals, Sequences, Bitwise

M16 == 65536
W32(hi, lo) == <<hi, lo>>
Zero32 == <<0, 0>>
Ones32 == <<65535, 65535>>
FromNat(n) == <<n \div M16, n % M16>>           \* n < 2^31
XorW(a, b) == <<a[1] ^^ b[1], a[2] ^^ b[2]>>
AndW(a, b) == <<a[1] & b[1], a[2] & b[2]>>
OrW(a, b)  == <<a[1] | b[1], a[2] | b[2]>>
NotW(a)    == <<65535 - a[1], 65535 - a[2]>>
AddW(a, b) == LET lo == a[2] + b[2]
                  hi == a[1] + b[1] + (lo \div M16)
              IN <<hi % M16, lo % M16>>
SubW(a, b) == AddW(a, AddW(NotW(b), <<0, 1>>))
Pow2Table == <<1, 2, 4, 8, 16, 32, 64, 128, 256, 512, 1024, 2048, 4096, 8192, 16384, 32768, 65536, 131072, 262144, 524288, 1048576, 2097152, 4194304, 8388608, 16777216, 33554432, 67108864, 134217728, 268435456, 536870912, 1073741824>>
Pow2(n) == Pow2Table[n + 1]          \* n in 0..30
\* rotate left by 0 < n < 32
RotlSmall(a, n) ==   \* 0 < n < 16
  <<((a[1] * Pow2(n)) % M16) + (a[2] \div Pow2(16 - n)),
    ((a[2] * Pow2(n)) % M16) + (a[1] \div Pow2(16 - n))>>
Rotl(a, n) == IF n = 0 THEN a
              ELSE IF n < 16 THEN RotlSmall(a, n)
              ELSE IF n = 16 THEN <<a[2], a[1]>>
              ELSE RotlSmall(<<a[2], a[1]>>, n - 16)
\* logical shift right by 0 <= n < 32
Shr(a, n) == IF n = 0 THEN a
             ELSE IF n < 16 THEN <<a[1] \div Pow2(n), (a[2] \div Pow2(n)) + ((a[1] % Pow2(n)) * Pow2(16 - n))>>
             ELSE <<0, a[1] \div Pow2(n - 16)>>
Shl(a, n) == IF n = 0 THEN a
             ELSE IF n < 16 THEN <<((a[1] * Pow2(n)) % M16) + (a[2] \div Pow2(16 - n)), (a[2] * Pow2(n)) % M16>>
             ELSE <<(a[2] * Pow2(n - 16)) % M16, 0>>
\* bytes, most significant first
BytesBE(a) == <<a[1] \div 256, a[1] % 256, a[2] \div 256, a[2] % 256>>
BytesLE(a) == <<a[2] % 256, a[2] \div 256, a[1] % 256, a[1] \div 256>>
FromBE(b, o) == <<b[o + 1] * 256 + b[o + 2], b[o + 3] * 256 + b[o + 4]>>   \* o = 0-based offset
FromLE(b, o) == <<b[o + 4] * 256 + b[o + 3], b[o + 2] * 256 + b[o + 1]>>
U16LE(b, o) == b[o + 2] * 256 + b[o + 1]
U16BE(b, o) == b[o + 1] * 256 + b[o + 2]
\* a < b as unsigned 32-bit numbers
LtW(a, b) == a[1] < b[1] \/ (a[1] = b[1] /\ a[2] < b[2])
\* small multiplication: a * k mod 2^32 for k < 2^15
MulSmall(a, k) ==
  LET lo == a[2] * k
      hi == a[1] * k + (lo \div M16)
  IN <<hi % M16, lo % M16>>
\* full multiplication modulo 2^32: a * b = sum over the bytes b_k of b of (a * b_k) << 8k
MulW(a, b) ==
  LET bytes == BytesLE(b)
  IN AddW(AddW(MulSmall(a, bytes[1]), Shl(MulSmall(a, bytes[2]), 8)),
          AddW(Shl(MulSmall(a, bytes[3]), 16), Shl(MulSmall(a, bytes[4]), 24)))
=============================================================================
