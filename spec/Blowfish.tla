------------------------------- MODULE Blowfish -------------------------------
(* C11 - standard Blowfish (Schneier 1993): 16-round Feistel network, P-array *)
(* of 18 and four S-boxes of 256 32-bit words initialised with the            *)
(* hexadecimal digits of pi (BlowfishPi.tla, generated), key schedule that    *)
(* XORs the cycled key into P and then re-encrypts P and S.  The SqexArg      *)
(* usage: only the first 8 key bytes are significant, messages are zero       *)
(* padded to a multiple of 8, each block is two little-endian words.          *)
EXTENDS Naturals, Sequences, SequencesExt, Words, Text, BlowfishPi

\* state of a keyed cipher: [p |-> 18 words, s |-> 4 x 256 words]
F(st, x) ==
  LET a == st.s[1][(x[1] \div 256) + 1]
      b == st.s[2][(x[1] % 256) + 1]
      c == st.s[3][(x[2] \div 256) + 1]
      d == st.s[4][(x[2] % 256) + 1]
  IN AddW(XorW(AddW(a, b), c), d)

\* one Feistel round i (1..16) on <<l, r>>
Round(st, lr, i) == LET l == XorW(lr[1], st.p[i]) IN <<XorW(lr[2], F(st, l)), l>>
EncPair(st, l, r) ==
  LET x == FoldLeft(LAMBDA lr, i : Round(st, lr, i), <<l, r>>, [i \in 1..16 |-> i])
  \* undo the last swap, then whiten with P17, P18
  IN <<XorW(x[2], st.p[18]), XorW(x[1], st.p[17])>>
DecPair(st, l, r) ==
  LET x == FoldLeft(LAMBDA lr, i : Round(st, lr, i), <<l, r>>, [i \in 1..16 |-> 19 - i])
  IN <<XorW(x[2], st.p[1]), XorW(x[1], st.p[2])>>

\* key schedule; key = byte sequence, cycled
KeyWord(key, i) ==   \* i-th 32-bit big-endian word of the cycled key, i from 0
  LET n == Len(key)
      b(k) == key[((4 * i + k) % n) + 1]
  IN <<b(0) * 256 + b(1), b(2) * 256 + b(3)>>
Schedule(key) ==
  LET st0 == [p |-> [i \in 1..18 |-> XorW(PiP[i], KeyWord(key, i - 1))], s |-> PiS]
      \* 9 + 512 chained encryptions of the running block, each replacing two table words
      step(acc, k) ==
        LET e == EncPair(acc.st, acc.l, acc.r)
            st1 == IF k <= 9
                   THEN [acc.st EXCEPT !.p[2 * k - 1] = e[1], !.p[2 * k] = e[2]]
                   ELSE LET q == k - 10
                            box == (q \div 128) + 1
                            j == 2 * (q % 128) + 1
                        IN [acc.st EXCEPT !.s[box][j] = e[1], !.s[box][j + 1] = e[2]]
        IN [st |-> st1, l |-> e[1], r |-> e[2]]
  IN FoldLeft(step, [st |-> st0, l |-> Zero32, r |-> Zero32], [k \in 1..521 |-> k]).st

\* SqexArg framing
SigKey(key) == SubSeq(key, 1, 8)                 \* only the first 8 bytes are significant
Pad8(m) == m \o [i \in 1..((8 - (Len(m) % 8)) % 8) |-> 0]
Blocks(st, m, op(_, _, _)) ==
  LET p == Pad8(m)
  IN Flatten([k \in 1..(Len(p) \div 8) |->
        LET o == 8 * (k - 1)
            e == op(st, FromLE(p, o), FromLE(p, o + 4))
        IN BytesLE(e[1]) \o BytesLE(e[2])])
Encrypt(st, m) == Blocks(st, m, EncPair)
Decrypt(st, m) == Blocks(st, m, DecPair)
=============================================================================
