-------------------------------- MODULE Floats --------------------------------
(* Floating point as bit patterns only: f32 values are 32-bit words           *)
(* <<hi16, lo16>>.  Exact conversions: IEEE half -> single, small unsigned    *)
(* integer -> single; table look-ups for byte / 255 (correctly rounded) and   *)
(* the tangent codec.                                                          *)
EXTENDS Naturals, Sequences, Words, FloatTables

\* f32 word from sign, biased exponent, 23-bit mantissa
F32(sign, ex, man) == <<sign * 32768 + ex * 128 + man \div 65536, man % 65536>>
\* position of the highest set bit of n > 0 (0-based), n < 2^16
HighBit(n) == CHOOSE k \in 0..15 : n \div Pow2(k) = 1

\* IEEE 754 binary16 -> binary32, exact (sign, exponent re-bias, subnormals, inf, NaN payload kept)
HalfToF32(h) ==
  LET s == h \div 32768
      e == (h \div 1024) % 32
      m == h % 1024
  IN IF e = 31 THEN F32(s, 255, m * 8192)                          \* inf / NaN
     ELSE IF e > 0 THEN F32(s, e + 112, m * 8192)                   \* normal: 127 - 15 = 112
     ELSE IF m = 0 THEN F32(s, 0, 0)                                \* signed zero
     ELSE LET k == HighBit(m)                                       \* subnormal: m * 2^-24 = 1.f * 2^(k-24)
          IN F32(s, k + 103, (m - Pow2(k)) * Pow2(23 - k))
IsNaNHalf(h) == (h \div 1024) % 32 = 31 /\ h % 1024 # 0
IsNaNF32(w) == (w[1] \div 128) % 256 = 255 /\ ((w[1] % 128) # 0 \/ w[2] # 0)

\* unsigned 16-bit integer -> binary32, exact
U16ToF32(n) == IF n = 0 THEN Zero32 ELSE LET k == HighBit(n) IN F32(0, 127 + k, (n - Pow2(k)) * Pow2(23 - k))

Unorm8ToF32(b) == Unorm8Table[b + 1]
Tangent8ToF32(b) == Tangent8Table[b + 1]
OneF32 == <<16256, 0>>        \* 1.0
MinusOneF32 == <<49024, 0>>   \* -1.0
=============================================================================
