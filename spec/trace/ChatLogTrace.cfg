SPECIFICATION Spec
POSTCONDITION TraceAccepted
CHECK_DEADLOCK FALSE
