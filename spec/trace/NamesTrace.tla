----------------------------- MODULE NamesTrace -----------------------------
(* C15: the real tables dumped by the shim, judged against Names.tla.        *)
EXTENDS Names, TraceLib

VARIABLES l, codes     \* position; observed code table (valid triples with a code)
vars == <<l, codes>>

Ev == Rec[l]
P  == "C15"

\* ---- names.race ------------------------------------------------------------
Race(e) ==
  LET x == <<e.r, e.t, e.g>>
      valid == Valid(e.r, e.t, e.g)
      tr == e.res.tribes
      cd == e.res.code
  IN /\ Require(l, "tribes", <<e.r>>,
                IsValue(tr) /\ {tr.v[i] : i \in 1..Len(tr.v)} = TribesOf(e.r) /\ Len(tr.v) = 2)
     /\ IF valid THEN Require(l, "code-defined", x, IsSome(cd)) ELSE TRUE
     /\ IF valid /\ IsSome(cd)
        THEN /\ Require(l, "skeleton-path", x,
                        IsValue(e.res.skel) /\ e.res.skel.v = SkeletonPath(cd.v.v))
             /\ Drift(l, "documented-code", x, DocCode(e.r, e.t, e.g), cd.v.v)
        ELSE TRUE
     /\ codes' = IF valid /\ IsSome(cd) /\ cd.v.v >= 0 THEN (x :> cd.v.v) @@ codes ELSE codes

\* the code to use for a triple in later events: the observed one
HasCode(e) == <<e.r, e.t, e.g>> \in DOMAIN codes
CodeOf(e)  == codes[<<e.r, e.t, e.g>>]

\* ---- names.equip ------------------------------------------------------------
EquipOne(e, o) ==
  LET sig == <<o.id, e.slot>>
  IN /\ Require(l, "equip-path", sig,
                IsValue(o.path) /\ o.path.v = EquipPath(CodeOf(e), o.id, e.slot))
     /\ IF IsValue(o.path)
        THEN /\ Require(l, "equip-fname", sig, o.fname = EquipFile(CodeOf(e), o.id, e.slot))
             /\ Require(l, "deconstruct", sig,
                        o.dec.outcome = "value" /\ o.dec.v.some /\ o.dec.v.v = <<o.id, e.slot>>)
        ELSE TRUE
Equip(e) ==
  /\ IF HasCode(e)
     THEN \A i \in 1..Len(e.res) : EquipOne(e, e.res[i])
     ELSE Require(l, "code-defined", <<e.r, e.t, e.g>>, ~Valid(e.r, e.t, e.g))
  /\ UNCHANGED codes

\* ---- names.charpath ------------------------------------------------------------
CharPath(e) ==
  /\ IF HasCode(e)
     THEN \A i \in 1..Len(e.res) :
            Require(l, "character-path", <<e.cat, e.vers[i]>>,
                    IsValue(e.res[i]) /\ e.res[i].v = CharacterPath(e.cat, e.vers[i], CodeOf(e)))
     ELSE Require(l, "code-defined", <<e.r, e.t, e.g>>, ~Valid(e.r, e.t, e.g))
  /\ UNCHANGED codes

\* ---- names.files ------------------------------------------------------------
FilesOne(e, o) ==
  /\ Require(l, "index-name", <<e.cat, e.ex, o.chunk, e.plat>>,
             IsValue(o.index) /\ o.index.v = ReadIndexName(e.cat, e.ex, o.chunk, e.plat))
  /\ Require(l, "index2-name", <<e.cat, e.ex, o.chunk, e.plat>>,
             IsValue(o.index2) /\ o.index2.v = ReadIndex2Name(e.cat, e.ex, o.chunk, e.plat))
  /\ \A j \in 1..Len(e.dats) :
       Require(l, "dat-name", <<e.cat, e.ex, o.chunk, e.plat, e.dats[j]>>,
               /\ IsValue(o.dats[j])
               /\ o.dats[j].v = ReadDatName(e.cat, e.ex, o.chunk, e.plat, e.dats[j])
               \* ... which is the name patching writes to
               /\ o.dats[j].v = PatchDatName(e.cat, SubId(e.ex, o.chunk), e.dats[j], e.plat))
Files(e) ==
  /\ Require(l, "files-shape", <<e.cat, e.ex, e.plat>>, Len(e.res) = Len(e.chunks))
  /\ \A i \in 1..Len(e.res) : FilesOne(e, e.res[i])
  /\ UNCHANGED codes

\* ---- names.sort / names.discover ----------------------------------------------
SeqSet(q) == {q[i] : i \in 1..Len(q)}
Sort(e) ==
  /\ Require(l, "sort-order", e.seq,
             IsValue(e.res) /\ e.res.v = RefSorted(SeqSet(e.seq)))
  /\ UNCHANGED codes
Discover(e) ==
  \* the base repository is always part of an installation
  /\ Require(l, "discover-order", e.order,
             IsSome(e.res) /\ e.res.v.v = RefSorted(SeqSet(e.order) \cup {0}))
  /\ UNCHANGED codes

\* ---- names.patchfiles: files touched by ZiPatch::apply (one `A` command per chunk x dat) -------
PatchFiles(e) ==
  LET want == {<<115,113,112,97,99,107,47>> \o ExFolder(e.ex) \o <<47>>
                 \o ReadDatName(e.cat, e.ex, e.chunks[i], e.plat, e.dats[j]) :
               i \in 1..Len(e.chunks), j \in 1..Len(e.dats)}
  IN /\ Require(l, "patch-writes-read-names", <<e.cat, e.ex, e.plat>>,
                IsValue(e.res) /\ {e.res.v[i] : i \in 1..Len(e.res.v)} = want)
     /\ UNCHANGED codes

\* ---- mark.end: laws over the whole observed table ------------------------------
End(e) ==
  /\ LET bad == CodeCollisions(codes)
     IN \A p \in bad : Mismatch(l, "code-collision", <<p[1][1], p[2][1]>>, "distinct codes",
                                <<p[1], p[2], codes[p[1]]>>)
  /\ Require(l, "table-complete", <<>>, DOMAIN codes = ValidTriples \/ e.partial)
  /\ UNCHANGED codes

Init == l = 1 /\ codes = <<>>
Next ==
  /\ l <= Len(Rec)
  /\ CASE Ev.op = "names.race"      -> Race(Ev)
       [] Ev.op = "names.equip"     -> Equip(Ev)
       [] Ev.op = "names.charpath"  -> CharPath(Ev)
       [] Ev.op = "names.files"     -> Files(Ev)
       [] Ev.op = "names.sort"      -> Sort(Ev)
       [] Ev.op = "names.discover"  -> Discover(Ev)
       [] Ev.op = "names.patchfiles" -> PatchFiles(Ev)
       [] Ev.op = "mark.end"        -> End(Ev)
       [] OTHER -> BadCase(l, "unknown event") /\ UNCHANGED codes
  /\ l' = l + 1
Spec == Init /\ [][Next]_vars
=============================================================================
