----------------------------- MODULE MetaTrace -----------------------------
(* C10 (file-info tables, patch lists) and C12 (CRC variants, SHA-1):        *)
(* recorded calls judged against Meta.tla / Hashes.tla.                      *)
EXTENDS Meta, TraceLib

VARIABLES l
vars == <<l>>
Ev == Rec[l]
Sig(e) == <<e.case>>

Content(f) ==
  IF "pattern" \in DOMAIN f
  THEN [i \in 1..f.pattern.n |-> (f.pattern.a * (i - 1) + f.pattern.b + ((i - 1) \div 251)) % 256]
  ELSE f.content

\* ---- meta.fiin: FileInfo::new on real files, written, parsed back, re-written
Fiin(e) ==
  IF ~IsValue(e.res) THEN Mismatch(l, "fiin-outcome", Sig(e), "value", e.res.outcome)
  ELSE
  LET n == Len(e.files)
      tb == e.res.v.table
      shapeOk == Len(tb) = 1024 + 96 * n
      \* digest as observed in record i
      ObsDigest(i) == SubSeq(tb, 1024 + 96 * (i - 1) + 73, 1024 + 96 * (i - 1) + 92)
      \* the digest is computed here from the content; for the quick tier's one 2 MiB file (minutes of evaluation) the
      \* driver carries the digest of an independent implementation instead (digest_ref), which this same run checks
      \* against Sha1 on every smaller input; the thorough tier evaluates the big files here
      SizeOf(f) == IF "pattern" \in DOMAIN f THEN f.pattern.n ELSE Len(f.content)
      es == [i \in 1..n |-> [size |-> SizeOf(e.files[i]), name |-> e.files[i].name,
                             digest |-> IF "digest_ref" \in DOMAIN e.files[i] THEN e.files[i].digest_ref ELSE Sha1(Content(e.files[i]))]]
      \* layout judged separately from the hash: records with the observed digests
      esObs == [i \in 1..n |-> [es[i] EXCEPT !.digest = ObsDigest(i)]]
  IN /\ Require(l, "fiin-size", Sig(e), shapeOk)
     /\ IF shapeOk
        THEN /\ \A i \in 1..n : Expect(l, "sha1-digest", <<e.case, es[i].size % 64>>, es[i].digest, ObsDigest(i))
             /\ Require(l, "fiin-layout", Sig(e), tb = RenderFiin(esObs))
             /\ Require(l, "fiin-parse", Sig(e),
                        /\ e.res.v.parsed.some
                        /\ e.res.v.parsed.v = [i \in 1..n |-> [size |-> esObs[i].size, name |-> esObs[i].name,
                                                                sha1 |-> PadTo(esObs[i].digest, 24)]])
             /\ Require(l, "fiin-rewrite", Sig(e), e.res.v.rewritten.some /\ e.res.v.rewritten.v = tb)
        ELSE TRUE

\* ---- meta.fiin.parse: a table built by the independent concretiser
FiinParse(e) ==
  LET exp == ParseFiin(e.bytes)
  IN /\ IF e.abs.some /\ e.abs.v # exp THEN BadCase(l, "concretiser and ParseFiin disagree") ELSE TRUE
     /\ Require(l, "fiin-parse", Sig(e),
                /\ IsSome(e.res)
                /\ e.res.v.v.entries = [i \in 1..Len(exp) |-> [size |-> exp[i].size, name |-> exp[i].name,
                                                                sha1 |-> PadTo(exp[i].digest, 24)]])
     /\ Require(l, "fiin-rewrite", Sig(e),
                IsSome(e.res) /\ e.res.v.v.rewritten.some /\ e.res.v.v.rewritten.v = e.bytes)

\* ---- patch lists
ObsPatches(v) == v.patches
PlistRender(e) ==
  LET es == e.patches
      lens == [i \in 1..Len(es) |-> es[i].length]
  IN /\ Require(l, "plist-text", Sig(e),
                IsValue(e.res.text) /\ e.res.text.v = RenderList(e.kind, e.id, e.loc, es))
     /\ Require(l, "plist-patches", Sig(e),
                IsValue(e.res.parsed) /\ e.res.parsed.v.patches = [i \in 1..Len(es) |-> Listed(e.kind, es[i])])
     /\ Require(l, "plist-total", Sig(e),
                IsValue(e.res.parsed) /\ e.res.parsed.v.total = DecSum(lens))
PlistParse(e) ==
  LET exp == ParseList(e.kind, e.text)
  IN /\ IF e.abs.some /\ (e.abs.v.patches # exp.patches \/ e.abs.v.total # exp.total)
        THEN BadCase(l, "concretiser and ParseList disagree") ELSE TRUE
     /\ Require(l, "plist-patches", Sig(e), IsValue(e.res) /\ e.res.v.patches = exp.patches)
     /\ Require(l, "plist-total", Sig(e), IsValue(e.res) /\ e.res.v.total = exp.total)

\* ---- codec.hash: CRC variants on a batch of ASCII strings
HashOne(e, i) ==
  LET s == e.ss[i]
      o == e.res[i]
  IN IF ~IsValue(o) THEN Mismatch(l, "hash-outcome", <<e.case, i>>, "value", o.outcome)
     ELSE \* letters outside ASCII: their lower-case forms are given with the event (Unicode tables are not restated here);
          \* for a string of ASCII bytes the given form must be the specification's own
          /\ IF "lowered" \in DOMAIN e
             THEN IF (\A k \in 1..Len(s) : s[k] < 128) /\ e.lowered[i] # Lower(s) THEN BadCase(l, "lowered form of an ASCII string")
                  ELSE Expect(l, "path-hash", <<e.case, i>>, Jamcrc(e.lowered[i]), o.v.partial)
             ELSE Expect(l, "path-hash", <<e.case, i>>, PathHash(s), o.v.partial)
          /\ Expect(l, "shader-key-hash", <<e.case, i>>, CrcZeroInit(s), o.v.shcrc)
          \* the key an index file of the first kind computes for the path (asked of a real, empty index file)
          /\ IF HasSlash(s) /\ "split" \in DOMAIN o.v
             THEN Expect(l, "index-key", <<e.case, i>>, SplitHash(s), [name |-> o.v.split[1], path |-> o.v.split[2]])
             ELSE TRUE
Hash(e) == \A i \in 1..Len(e.ss) : HashOne(e, i)

Init == l = 1
Next ==
  /\ l <= Len(Rec)
  /\ CASE Ev.op = "meta.fiin"          -> Fiin(Ev)
       [] Ev.op = "meta.fiin.parse"    -> FiinParse(Ev)
       [] Ev.op = "meta.plist.render"  -> PlistRender(Ev)
       [] Ev.op = "meta.plist.parse"   -> PlistParse(Ev)
       [] Ev.op = "codec.hash"         -> Hash(Ev)
       [] OTHER -> BadCase(l, "unknown event")
  /\ l' = l + 1
Spec == Init /\ [][Next]_vars
=============================================================================
