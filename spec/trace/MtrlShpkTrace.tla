--------------------------- MODULE MtrlShpkTrace ---------------------------
(* C14: real Material / ShaderPackage parses judged against MtrlShpk.tla.     *)
EXTENDS MtrlShpk, TraceLib
VARIABLES l
vars == <<l>>
Ev == Rec[l]
Sig(e) == <<e.case>>
SameF(a, c) == a = c \/ (IsNaNF32(a) /\ IsNaNF32(c))
SameSeq(a, c) == Len(a) = Len(c) /\ \A i \in 1..Len(a) : SameF(a[i], c[i])
\* texture usage names <-> ids (ids are CRCs of the sampler names; the table is the library's documented enumeration)
UsageName(w) ==
  CASE w = <<34880, 35844>> -> "Sampler" [] w = <<8508, 46137>> -> "Sampler0" [] w = <<22075, 33967>> -> "Sampler1"
    [] w = <<65184, 62418>> -> "SamplerCatchlight" [] w = <<7791, 61340>> -> "SamplerColorMap0" [] w = <<26984, 57098>> -> "SamplerColorMap1"
    [] w = <<4435, 1726>> -> "SamplerDiffuse" [] w = <<63703, 38266>> -> "SamplerEnvMap" [] w = <<35406, 33462>> -> "SamplerMask"
    [] w = <<3166, 49649>> -> "SamplerNormal" [] w = <<43700, 55785>> -> "SamplerNormalMap0" [] w = <<56755, 59775>> -> "SamplerNormalMap1"
    [] w = <<34806, 18253>> -> "SamplerReflection" [] w = <<11161, 57381>> -> "SamplerSpecular" [] w = <<7100, 12050>> -> "SamplerSpecularMap0"
    [] w = <<27835, 8068>> -> "SamplerSpecularMap1" [] w = <<58930, 6908>> -> "SamplerWaveMap" [] w = <<22350, 8918>> -> "SamplerWaveletMap0"
    [] w = <<8265, 4672>> -> "SamplerWaveletMap1" [] w = <<38369, 63053>> -> "SamplerWhitecapMap" [] w = <<22111, 36824>> -> "UnknownDawntrail1"
    [] w = <<58675, 35863>> -> "UnknownDawntrail2" [] OTHER -> "?"

MtrlEv(e) ==
  IF ~IsSome(e.res) THEN Mismatch(l, "mtrl-outcome", Sig(e), "a material", e.res)
  ELSE LET o == e.res.v.v
           w == Mtrl(e.bytes)
       IN /\ Expect(l, "mtrl-shpk-name", Sig(e), w.shpk, o.shpk)
          /\ Expect(l, "mtrl-texture-paths", Sig(e), w.textures, o.textures)
          /\ Expect(l, "mtrl-shader-keys", Sig(e), w.keys, o.keys)
          /\ Require(l, "mtrl-constants", Sig(e),
                     Len(o.constants) = Len(w.constants)
                       /\ \A i \in 1..Len(w.constants) : /\ o.constants[i].id = w.constants[i].id /\ o.constants[i].n = w.constants[i].n
                                                         /\ SameSeq(o.constants[i].values, w.constants[i].values))
          /\ Expect(l, "mtrl-samplers", Sig(e),
                    [i \in 1..Len(w.samplers) |-> [usage |-> UsageName(w.samplers[i].usage), flags |-> w.samplers[i].flags, texture |-> w.samplers[i].texture]],
                    o.samplers)
          /\ Expect(l, "mtrl-table-kind", Sig(e), w.table.k, o.table.k)
          /\ IF w.table.k \in {"legacy", "dawntrail"} /\ o.table.k = w.table.k
             THEN \A r \in 1..Len(w.table.rows) :
                    LET bad == {c \in 1..Len(w.table.rows[r]) : ~SameF(o.table.rows[r][c], w.table.rows[r][c])}
                    IN IF bad = {} THEN TRUE
                       ELSE Mismatch(l, "mtrl-colour-row", <<e.case, r, Min(bad)>>, w.table.rows[r], o.table.rows[r])
             ELSE TRUE
          /\ Expect(l, "mtrl-dye-kind", Sig(e), w.dye.k, o.dye.k)
          /\ IF w.dye.k \in {"legacy", "dawntrail"} /\ o.dye.k = w.dye.k
             THEN \A r \in 1..Len(w.dye.rows) : Expect(l, "mtrl-dye-row", <<e.case, r>>, w.dye.rows[r], o.dye.rows[r])
             ELSE TRUE

ShpkEv(e) ==
  IF ~IsSome(e.res) THEN Mismatch(l, "shpk-outcome", Sig(e), "a shader package", e.res)
  ELSE LET o == e.res.v.v
           w == Shpk(e.bytes)
       IN /\ Expect(l, "shpk-vertex-shaders", Sig(e), w.vs, o.vs)
          /\ Expect(l, "shpk-pixel-shaders", Sig(e), w.ps, o.ps)
          /\ Expect(l, "shpk-material-parameters", Sig(e), w.mat_params, o.mat_params)
          /\ Expect(l, "shpk-keys", Sig(e), <<w.sys_keys, w.scene_keys, w.mat_keys, w.sub>>, <<o.sys_keys, o.scene_keys, o.mat_keys, o.sub>>)
          /\ Expect(l, "shpk-nodes", Sig(e), w.nodes, o.nodes)
          \* every probed selector resolves to the node that carries it, directly or through an alias
          /\ \A i \in 1..Len(e.selectors) :
               LET n == FindNode(w, e.selectors[i])
                   want == IF n = 0 \/ n > Len(w.nodes) THEN [some |-> FALSE] ELSE [some |-> TRUE, v |-> w.nodes[n].selector]
               IN IF n > Len(w.nodes) THEN TRUE       \* an alias to a node that does not exist is damage, not in the family
                  ELSE Expect(l, "shpk-find-node", <<e.case, i>>, want, o.found[i])

SelectorEv(e) ==
  IF ~IsValue(e.res) THEN Mismatch(l, "selector-outcome", Sig(e), "value", e.res)
  ELSE /\ \A i \in 1..Len(e.lists) : Expect(l, "shpk-selector", <<e.case, i>>, Selector(e.lists[i]), e.res.v.single[i])
       /\ IF Len(e.lists) >= 4
          THEN /\ Expect(l, "shpk-selector-from-all", Sig(e), SelectorFromAll(e.lists[1], e.lists[2], e.lists[3], e.lists[4]), e.res.v.all)
               /\ Expect(l, "shpk-selector-from-keys", Sig(e),
                         SelectorFromKeys(Selector(e.lists[1]), Selector(e.lists[2]), Selector(e.lists[3]), Selector(e.lists[4])), e.res.v.from_keys)
          ELSE TRUE

Init == l = 1
Next ==
  /\ l <= Len(Rec)
  /\ CASE Ev.op = "assets.mtrl" -> MtrlEv(Ev)
       [] Ev.op = "assets.shpk" -> ShpkEv(Ev)
       [] Ev.op = "assets.selector" -> SelectorEv(Ev)
       [] OTHER -> BadCase(l, "unknown event")
  /\ l' = l + 1
Spec == Init /\ [][Next]_vars
=============================================================================
