----------------------------- MODULE FaultTrace -----------------------------
(* C17 / C18: outcomes recorded by the isolated worker judged against the      *)
(* contract of Faults.tla; for patches, against the patch machine as well.     *)
EXTENDS Faults, TraceLib

VARIABLES l
vars == <<l>>
Ev == Rec[l]

\* abstract signature of a finding: a panic by entry point, source file and normalised message; a crash or hang
\* (no site available) by entry point, base and the damaged field
Where(f) == IF "off" \in DOMAIN f THEN f.off ELSE IF "n" \in DOMAIN f THEN f.n ELSE IF "what" \in DOMAIN f THEN f.what ELSE f.k
SigOf(e) == IF "sigmsg" \in DOMAIN e.res
            THEN <<e.entry, IF "sigfile" \in DOMAIN e.res THEN e.res.sigfile ELSE "", e.res.sigmsg>>
            ELSE <<e.entry, e.base, e.fault.k, Where(e.fault)>>
Run(e) ==
  LET r == e.res
  IN /\ IF r.outcome \in GoodOutcomes THEN TRUE
        ELSE Mismatch(l, "fault-" \o r.outcome, SigOf(e), "fail or value", <<e.base, e.fault>>)
     /\ IF Within(r.peak, e.len) THEN TRUE
        ELSE Mismatch(l, "fault-memory", <<e.entry, e.base, e.fault.k, Where(e.fault)>>, MemoryBound(e.len), <<e.base, e.fault, r.peak>>)
     \* a truncated or otherwise failing patch must not report success
     /\ IF e.must_fail /\ r.outcome = "value"
        THEN Mismatch(l, "fault-false-success", <<e.entry, e.fault.k>>, "fail", <<e.base, e.fault>>) ELSE TRUE
     \* failed extraction / decompression leaves no allocation behind
     \* (4 KiB of slack: the residual is read from malloc's own accounting, which moves by a few hundred bytes)
     /\ IF e.leakcheck /\ r.outcome = "fail" /\ r.residual > 4096
        THEN Mismatch(l, "fault-leak", <<e.entry, e.base>>, 0, <<e.base, e.fault, r.residual>>) ELSE TRUE

Init == l = 1
Next ==
  /\ l <= Len(Rec)
  /\ CASE Ev.op = "fault.run" -> Run(Ev)
       [] OTHER -> BadCase(l, "unknown event")
  /\ l' = l + 1
Spec == Init /\ [][Next]_vars
=============================================================================
