SPECIFICATION Spec
CONSTANTS Block = 128  HeaderCells = 1024  Zero = 0
CONSTANT EmptyHead <- ByteEmptyHead
POSTCONDITION TraceAccepted
CHECK_DEADLOCK FALSE
