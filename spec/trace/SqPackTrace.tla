----------------------------- MODULE SqPackTrace -----------------------------
(* C01 / C02: queries on real GameData handles over synthetic installations,  *)
(* and raw dat reads, judged against SqPack.tla.  Contents are run-length     *)
(* encoded (<< <<byte, count>>, ... >>, maximal runs) on both sides.          *)
EXTENDS SqPack, Excel, TextFormats, TraceLib

VARIABLES l, inst       \* inst: handle -> [disk, contents]
vars == <<l, inst>>
Ev == Rec[l]
Sig(e) == <<e.case>>

\* ---- the run-length payload algebra
RleAppend(acc, r) ==
  IF r[2] = 0 THEN acc
  ELSE IF acc # <<>> /\ acc[Len(acc)][1] = r[1]
       THEN [acc EXCEPT ![Len(acc)] = <<r[1], @[2] + r[2]>>]
  ELSE Append(acc, r)
RleCat(ps) == FoldLeft(LAMBDA acc, p : FoldLeft(RleAppend, acc, p), <<>>, ps)
RleSize(p) == FoldLeft(LAMBDA a, r : a + r[2], 0, p)
RleLit(b) == FoldLeft(LAMBDA acc, x : RleAppend(acc, <<x, 1>>), <<>>, b)

\* ---- event -> specification values
EntryKey(kind, e) == IF "path" \in DOMAIN e THEN Key(kind, e.path) ELSE e.key
FileOf(f) == [repo |-> f.repo, cat |-> f.cat, chunk |-> f.chunk, kind |-> f.kind,
              entries |-> [i \in 1..Len(f.entries) |->
                             [key |-> EntryKey(f.kind, f.entries[i]), dat |-> f.entries[i].dat, off |-> f.entries[i].off]]]
DiskOfEv(e) == [repos |-> {e.repos[i] : i \in 1..Len(e.repos)}, plat |-> e.plat,
                files |-> {FileOf(e.files[i]) : i \in 1..Len(e.files)}]
\* expected extraction of the entry stored at a location
ContentsAt(e, repo, cat, loc) ==
  {Extract(e.contents[i].desc) : i \in {j \in 1..Len(e.contents) :
      /\ e.contents[j].repo = repo /\ e.contents[j].cat = cat /\ e.contents[j].chunk = loc.chunk
      /\ e.contents[j].dat = loc.dat /\ e.contents[j].off = loc.off}}

Open(e) ==
  /\ Require(l, "open", Sig(e), IsSome(e.res))
  /\ inst' = (e.h :> [disk |-> DiskOfEv(e), ev |-> e, seen |-> {}]) @@ inst

Query(e) ==
  LET d == inst[e.h].disk
      oe == inst[e.h].ev
      stored == Stored(d, e.path)
      locs == Locations(d, e.path)
      cat == PathCategory(e.path)
      repo == PathRepo(e.path, d.repos)
      kindOf == IF stored THEN "stored" ELSE "absent"
  IN /\ CASE e.q = "exists" ->
               Require(l, "exists-" \o kindOf, Sig(e), IsValue(e.res) /\ e.res.v = stored)
          [] e.q = "find_offset" ->
               IF stored
               THEN Require(l, "find-offset", Sig(e),
                            IsSome(e.res) /\ e.res.v.v.r = 0 /\ \E loc \in locs : loc.off = e.res.v.v.q)
               ELSE Require(l, "find-offset-absent", Sig(e), IsValue(e.res) /\ ~e.res.v.some)
          [] e.q = "extract" ->
               IF stored
               THEN LET want == UNION {ContentsAt(oe, repo, cat, loc) : loc \in locs}
                    IN IF want = {} THEN TRUE    \* entry designates nothing the generator described
                       ELSE Require(l, "extract", Sig(e), IsSome(e.res) /\ e.res.v.v \in want)
               ELSE Require(l, "extract-absent", Sig(e), IsValue(e.res) /\ ~e.res.v.some)
     \* "the answer for a path never depends on which other paths were queried before it on the same handle": a question asked
     \* again gets the answer it got before (this is what decides a path that several chunks hold, where each entry alone is acceptable)
     /\ LET before == {t \in inst[e.h].seen : t[1] = e.q /\ t[2] = e.path}
        IN IF \A t \in before : t[3] = e.res THEN TRUE
           ELSE Mismatch(l, "answer-depends-on-history", Sig(e), (CHOOSE t \in before : t[3] # e.res)[3], e.res)
     /\ inst' = [inst EXCEPT ![e.h].seen = @ \cup {<<e.q, e.path, e.res>>}]

\* raw read of one described entry
Read(e) ==
  /\ Require(l, "read-" \o e.desc.kind, Sig(e), IsSome(e.res) /\ e.res.v.v = Extract(e.desc))
  /\ UNCHANGED inst

\* ---- C05: Excel sheets --------------------------------------------------------------
ExpandRle(r) == Flatten([i \in 1..Len(r) |-> [j \in 1..r[i][2] |-> r[i][1]]])
ObsHeaderOk(o, exp) ==
  /\ o.data_offset = exp.data_offset /\ o.columns = exp.columns /\ o.pages = exp.pages /\ o.row_count = exp.row_count
  /\ o.nlangs = exp.nlangs /\ (exp.nlangs >= 1 => o.lang1 = exp.lang1)
RowChecks(exh, d, rows, case) ==
  \A i \in 1..Len(rows) :
     LET id == rows[i].id
         r == rows[i].res
     IN IF HasRow(d, id)
        THEN LET want == ReadRow(exh, d, id)
                 kind == IF exh.variant = 2 /\ Len(want) = 1 THEN "excel-single-subrow" ELSE "excel-row"
             IN IF IsSome(r) /\ r.v.v = want THEN TRUE
                ELSE Mismatch(l, kind, <<case, id>>, want, IF IsSome(r) THEN r.v.v ELSE r)
        ELSE Require(l, "excel-unknown-row", <<case, id>>, IsValue(r) /\ ~r.v.some)
ExcelRead(e) ==
  LET exp == ParseExh(e.exh)
  IN /\ IF ~IsSome(e.res.exh) THEN Mismatch(l, "exh-header", Sig(e), "a header", e.res.exh)      \* no header, no row reads in the event
        ELSE /\ Require(l, "exh-header", Sig(e), ObsHeaderOk(e.res.exh.v.v, exp))
             /\ Require(l, "exd-parse", Sig(e), IsValue(e.res.exd) /\ e.res.exd.v)
             /\ IF IsValue(e.res.exd) /\ e.res.exd.v THEN RowChecks(exp, e.exd, e.res.rows, e.case) ELSE TRUE
     /\ UNCHANGED inst

\* bytes of the standard file stored under a path of installation h (<<>> with ok = FALSE if absent)
FileBytes(h, p) ==
  LET d == inst[h].disk
      oe == inst[h].ev
      locs == Locations(d, p)
      idx == {j \in 1..Len(oe.contents) : \E loc \in locs :
                /\ oe.contents[j].repo = PathRepo(p, d.repos) /\ oe.contents[j].cat = PathCategory(p)
                /\ oe.contents[j].chunk = loc.chunk /\ oe.contents[j].dat = loc.dat /\ oe.contents[j].off = loc.off}
  IN IF ~Stored(d, p) \/ idx = {} THEN [ok |-> FALSE, b |-> <<>>]
     ELSE [ok |-> TRUE, b |-> ExpandRle(RleCat((oe.contents[CHOOSE j \in idx : TRUE]).desc.blocks))]
ExcelSheet(e) ==
  LET root == FileBytes(e.h, RootPath)
      listed == IF root.ok THEN ParseExl(root.b).entries ELSE <<>>
      names == [i \in 1..Len(listed) |-> listed[i][1]]
      inList == \E i \in 1..Len(names) : names[i] = e.name
      hfile == FileBytes(e.h, ExhPath(e.name))
      hexp == ParseExh(hfile.b)
      haveHeader == root.ok /\ inList /\ hfile.ok
  IN /\ IF root.ok THEN Require(l, "sheet-names", Sig(e), IsSome(e.res.names) /\ e.res.names.v.v = names)
        ELSE Require(l, "sheet-names-absent", Sig(e), IsValue(e.res.names) /\ ~e.res.names.v.some)
     /\ IF haveHeader
        THEN Require(l, "sheet-header", Sig(e), IsSome(e.res.header) /\ ObsHeaderOk(e.res.header.v.v, hexp))
        ELSE Require(l, "sheet-header-absent", Sig(e), IsValue(e.res.header) /\ ~e.res.header.v.some)
     /\ Require(l, "exd-filename", Sig(e), IsValue(e.res.fname) /\ e.res.fname.v = ExdName(e.name, e.lang, e.start))
     /\ IF haveHeader /\ e.page < Len(hexp.pages)
        THEN LET pfile == FileBytes(e.h, ExdPath(e.name, e.lang, hexp.pages[e.page + 1][1]))
             IN IF pfile.ok
                THEN /\ Require(l, "sheet-page", Sig(e), IsSome(e.res.page))
                     /\ IF IsSome(e.res.page) THEN RowChecks(hexp, pfile.b, e.res.page.v.v, e.case) ELSE TRUE
                ELSE Require(l, "sheet-page-absent", Sig(e), IsValue(e.res.page) /\ ~e.res.page.v.some)
        ELSE TRUE
     /\ UNCHANGED inst

Init == l = 1 /\ inst = <<>>
Next ==
  /\ l <= Len(Rec)
  /\ CASE Ev.op = "archive.open"  -> Open(Ev)
       [] Ev.op = "archive.query" -> IF Ev.h \in DOMAIN inst THEN Query(Ev) ELSE BadCase(l, "no handle") /\ UNCHANGED inst
       [] Ev.op = "archive.read"  -> Read(Ev)
       [] Ev.op = "archive.close" -> UNCHANGED inst
       [] Ev.op = "excel.read"    -> ExcelRead(Ev)
       [] Ev.op = "excel.sheet"   -> IF Ev.h \in DOMAIN inst THEN ExcelSheet(Ev) ELSE BadCase(l, "no handle") /\ UNCHANGED inst
       [] OTHER -> BadCase(l, "unknown event") /\ UNCHANGED inst
  /\ l' = l + 1
Spec == Init /\ [][Next]_vars
=============================================================================
