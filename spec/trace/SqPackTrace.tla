----------------------------- MODULE SqPackTrace -----------------------------
(* C01 / C02: queries on real GameData handles over synthetic installations,  *)
(* and raw dat reads, judged against SqPack.tla.  Contents are run-length     *)
(* encoded (<< <<byte, count>>, ... >>, maximal runs) on both sides.          *)
EXTENDS SqPack, TraceLib

VARIABLES l, inst       \* inst: handle -> [disk, contents]
vars == <<l, inst>>
Ev == Rec[l]
Sig(e) == <<e.case>>

\* ---- the run-length payload algebra
RleAppend(acc, r) ==
  IF r[2] = 0 THEN acc
  ELSE IF acc # <<>> /\ acc[Len(acc)][1] = r[1]
       THEN [acc EXCEPT ![Len(acc)] = <<r[1], @[2] + r[2]>>]
  ELSE Append(acc, r)
RleCat(ps) == FoldLeft(LAMBDA acc, p : FoldLeft(RleAppend, acc, p), <<>>, ps)
RleSize(p) == FoldLeft(LAMBDA a, r : a + r[2], 0, p)
RleLit(b) == FoldLeft(LAMBDA acc, x : RleAppend(acc, <<x, 1>>), <<>>, b)

\* ---- event -> specification values
EntryKey(kind, e) == IF "path" \in DOMAIN e THEN Key(kind, e.path) ELSE e.key
FileOf(f) == [repo |-> f.repo, cat |-> f.cat, chunk |-> f.chunk, kind |-> f.kind,
              entries |-> [i \in 1..Len(f.entries) |->
                             [key |-> EntryKey(f.kind, f.entries[i]), dat |-> f.entries[i].dat, off |-> f.entries[i].off]]]
DiskOfEv(e) == [repos |-> {e.repos[i] : i \in 1..Len(e.repos)}, plat |-> e.plat,
                files |-> {FileOf(e.files[i]) : i \in 1..Len(e.files)}]
\* expected extraction of the entry stored at a location
ContentsAt(e, repo, cat, loc) ==
  {Extract(e.contents[i].desc) : i \in {j \in 1..Len(e.contents) :
      /\ e.contents[j].repo = repo /\ e.contents[j].cat = cat /\ e.contents[j].chunk = loc.chunk
      /\ e.contents[j].dat = loc.dat /\ e.contents[j].off = loc.off}}

Open(e) ==
  /\ Require(l, "open", Sig(e), IsSome(e.res))
  /\ inst' = (e.h :> [disk |-> DiskOfEv(e), ev |-> e]) @@ inst

Query(e) ==
  LET d == inst[e.h].disk
      oe == inst[e.h].ev
      stored == Stored(d, e.path)
      locs == Locations(d, e.path)
      cat == PathCategory(e.path)
      repo == PathRepo(e.path, d.repos)
      kindOf == IF stored THEN "stored" ELSE "absent"
  IN /\ CASE e.q = "exists" ->
               Require(l, "exists-" \o kindOf, Sig(e), IsValue(e.res) /\ e.res.v = stored)
          [] e.q = "find_offset" ->
               IF stored
               THEN Require(l, "find-offset", Sig(e),
                            IsSome(e.res) /\ e.res.v.v.r = 0 /\ \E loc \in locs : loc.off = e.res.v.v.q)
               ELSE Require(l, "find-offset-absent", Sig(e), IsValue(e.res) /\ ~e.res.v.some)
          [] e.q = "extract" ->
               IF stored
               THEN LET want == UNION {ContentsAt(oe, repo, cat, loc) : loc \in locs}
                    IN IF want = {} THEN TRUE    \* entry designates nothing the generator described
                       ELSE Require(l, "extract", Sig(e), IsSome(e.res) /\ e.res.v.v \in want)
               ELSE Require(l, "extract-absent", Sig(e), IsValue(e.res) /\ ~e.res.v.some)
     /\ UNCHANGED inst

\* raw read of one described entry
Read(e) ==
  /\ Require(l, "read-" \o e.desc.kind, Sig(e), IsSome(e.res) /\ e.res.v.v = Extract(e.desc))
  /\ UNCHANGED inst

Init == l = 1 /\ inst = <<>>
Next ==
  /\ l <= Len(Rec)
  /\ CASE Ev.op = "archive.open"  -> Open(Ev)
       [] Ev.op = "archive.query" -> IF Ev.h \in DOMAIN inst THEN Query(Ev) ELSE BadCase(l, "no handle") /\ UNCHANGED inst
       [] Ev.op = "archive.read"  -> Read(Ev)
       [] Ev.op = "archive.close" -> UNCHANGED inst
       [] OTHER -> BadCase(l, "unknown event") /\ UNCHANGED inst
  /\ l' = l + 1
Spec == Init /\ [][Next]_vars
=============================================================================
