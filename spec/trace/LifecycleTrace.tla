--------------------------- MODULE LifecycleTrace ---------------------------
(* Real GameData handles driven through open / lookup / patch / repair         *)
(* histories and judged against Lifecycle.tla.  The library as implemented     *)
(* (Do...) is the expected behaviour; an answer that instead equals what a     *)
(* fresh handle would say (Fresh...) is accepted and reported as DRIFT - it     *)
(* would mean the handle stopped being stale, which no property forbids.       *)
EXTENDS Lifecycle, TraceLib, SequencesExt
TRepos == {0, 1}
TChunks == {0, 1}
TPaths == {"pa", "pb"}
TNames(p) == IF p = "pa" THEN 0 ELSE 1

VARIABLES l, disk, view
vars == <<l, disk, view>>
Ev == Rec[l]
Sig(e) == <<e.case, l>>
SetOf(s) == {s[i] : i \in 1..Len(s)}
WorldOf(w) ==
  [dirs |-> SetOf(w.dirs),
   ver |-> (IF w.game_ver THEN {<<"game", 0>>} ELSE {}) \cup {<<"repo", r>> : r \in SetOf(w.repo_ver)},
   bck |-> SetOf(w.bck),
   idx |-> [k \in {<<x.repo, x.chunk>> : x \in SetOf(w.idx)} |->
              LET x == CHOOSE y \in SetOf(w.idx) : <<y.repo, y.chunk>> = k
              IN [p \in {en.path : en \in SetOf(x.ents)} |-> (CHOOSE en \in SetOf(x.ents) : en.path = p).loc]]]
DeltaOf(e) == IF e.k = "write" THEN [k |-> "write", repo |-> e.repo, chunk |-> e.chunk,
                                     content |-> [p \in {en.path : en \in SetOf(e.ents)} |-> (CHOOSE en \in SetOf(e.ents) : en.path = p).loc]]
              ELSE [k |-> "delete", repo |-> e.repo, chunk |-> e.chunk]
\* the probe order fixed by the driver: four index files, three version files, two backups, the expansion directory
Present(d) == << <<0, 0>> \in DOMAIN d.idx, <<0, 1>> \in DOMAIN d.idx, <<1, 0>> \in DOMAIN d.idx, <<1, 1>> \in DOMAIN d.idx,
                 <<"game", 0>> \in d.ver, <<"repo", 0>> \in d.ver, <<"repo", 1>> \in d.ver, 0 \in d.bck, 1 \in d.bck, 1 \in d.dirs >>
DiskAgrees(e, d) == Expect(l, "life-disk", Sig(e), Present(d), e.res.present)
\* expected as implemented; equal to the fresh answer instead: drift; neither: mismatch
Judge(kind, e, impl, fresh, obs) ==
  IF obs = impl THEN TRUE
  ELSE IF obs = fresh THEN Drift(l, kind, Sig(e), impl, obs)
  ELSE Mismatch(l, kind, Sig(e), impl, obs)
ObsAnswer(e) ==   \* exists -> presence only; find_offset -> presence and location (offset = 2048 + 128 * loc)
  IF e.q = "exists" THEN [some |-> e.res.v]
  ELSE IF e.res.v.some THEN [some |-> TRUE, loc |-> e.res.v.v.q - 16] ELSE [some |-> FALSE]
Shape(e, a) == IF e.q = "exists" THEN [some |-> a.some] ELSE a
TodoOf(s) == {[repo |-> x.repo, action |-> x.action] : x \in SetOf(s)}

OpenEv(e) ==
  LET d == WorldOf(e.world)
  IN /\ disk' = d /\ view' = DoOpen(d)
     /\ IF IsSome(e.res) THEN Expect(l, "life-repositories", Sig(e), DoOpen(d).known, SetOf(e.res.v.v))
        ELSE Mismatch(l, "life-open", Sig(e), "a handle", e.res)
ReopenEv(e) ==
  /\ view' = DoOpen(disk) /\ UNCHANGED disk
  /\ IF IsSome(e.res) THEN Expect(l, "life-repositories", Sig(e), DoOpen(disk).known, SetOf(e.res.v.v))
     ELSE Mismatch(l, "life-open", Sig(e), "a handle", e.res)
QueryEv(e) ==
  LET r == DoQuery(disk, view, e.tok)
  IN /\ view' = r.view /\ UNCHANGED disk
     /\ IF ~IsValue(e.res) THEN Mismatch(l, "life-query-outcome", Sig(e), "value", e.res)
        ELSE Judge("life-answer", e, Shape(e, r.ans), Shape(e, FreshAnswer(disk, e.tok)), ObsAnswer(e))
PatchEv(e) ==
  LET d == DoPatch(disk, DeltaOf(e))
  IN /\ disk' = d /\ UNCHANGED view
     /\ IF ~IsValue(e.res) THEN Mismatch(l, "life-patch-outcome", Sig(e), "ok", e.res) ELSE DiskAgrees(e, d)
NeedsEv(e) ==
  /\ UNCHANGED <<disk, view>>
  /\ IF ~IsValue(e.res) THEN Mismatch(l, "life-needs-repair-outcome", Sig(e), "value", e.res)
     ELSE /\ Judge("life-needs-repair", e, DoNeedsRepair(disk, view), FreshNeedsRepair(disk), TodoOf(e.res.v))
          /\ DiskAgrees(e, disk)
RepairEv(e) ==
  IF ~IsValue(e.res) THEN Mismatch(l, "life-repair-outcome", Sig(e), "value", e.res) /\ UNCHANGED <<disk, view>>
  ELSE LET todo == TodoOf(e.res.v.todo)          \* the repair is driven by what needs_repair really said
           d == DoRepair(disk, todo)
       IN /\ disk' = d /\ UNCHANGED view
          /\ Judge("life-needs-repair", e, DoNeedsRepair(disk, view), FreshNeedsRepair(disk), todo)
          /\ Expect(l, "life-repair-done", Sig(e), TRUE, e.res.v.done)
          /\ DiskAgrees(e, d)

Init == l = 1 /\ disk = [dirs |-> {}, ver |-> {}, bck |-> {}, idx |-> << >>] /\ view = DoOpen(disk)
Next ==
  /\ l <= Len(Rec)
  /\ CASE Ev.op = "archive.open" -> OpenEv(Ev)
       [] Ev.op = "archive.reopen" -> ReopenEv(Ev)
       [] Ev.op = "archive.query" -> QueryEv(Ev)
       [] Ev.op = "archive.patch" -> PatchEv(Ev)
       [] Ev.op = "archive.needs_repair" -> NeedsEv(Ev)
       [] Ev.op = "archive.perform_repair" -> RepairEv(Ev)
       [] Ev.op = "archive.close" -> UNCHANGED <<disk, view>>
       [] OTHER -> BadCase(l, "unknown event") /\ UNCHANGED <<disk, view>>
  /\ l' = l + 1
Spec == Init /\ [][Next]_vars
=============================================================================
