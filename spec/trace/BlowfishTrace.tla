---------------------------- MODULE BlowfishTrace ----------------------------
(* C11: real Blowfish::new / encrypt / decrypt runs judged against Blowfish.tla *)
EXTENDS Blowfish, TraceLib

VARIABLES l
vars == <<l>>
Ev == Rec[l]

Cipher(e) ==
  IF ~IsValue(e.res) THEN Mismatch(l, "blowfish-outcome", <<e.case>>, "value", e.res)
  ELSE LET st == Schedule(SigKey(e.key))
       IN \A i \in 1..Len(e.msgs) :
            LET m == e.msgs[i]
                o == e.res.v[i]
                want == Encrypt(st, m)
            IN /\ IF o.enc.some /\ o.enc.v = want THEN TRUE
                  ELSE Mismatch(l, "blowfish-encrypt", <<e.case, Len(m)>>, want, o.enc)
               \* decryption inverts: the padded message comes back
               /\ IF o.dec.some /\ o.dec.v = Pad8(m) THEN TRUE
                  ELSE Mismatch(l, "blowfish-decrypt", <<e.case, Len(m)>>, Pad8(m), o.dec)
               \* and it is the specification's decryption of the observed ciphertext
               /\ IF o.enc.some /\ o.dec.some /\ o.dec.v # Decrypt(st, o.enc.v)
                  THEN Mismatch(l, "blowfish-decrypt-spec", <<e.case, Len(m)>>, Decrypt(st, o.enc.v), o.dec.v) ELSE TRUE

\* the constant tables are the hexadecimal digits of pi (hook H1)
Tables(e) ==
  IF ~IsValue(e.res) THEN Mismatch(l, "blowfish-tables-hook", <<>>, "value", e.res)
  ELSE /\ \A i \in 1..18 : Expect(l, "blowfish-p-array", <<i>>, PiP[i], e.res.v.p[i])
       /\ \A b \in 1..4 : \A j \in 1..256 : Expect(l, "blowfish-s-box", <<b, j>>, PiS[b][j], e.res.v.s[b][j])

Init == l = 1
Next ==
  /\ l <= Len(Rec)
  /\ CASE Ev.op = "codec.blowfish"        -> Cipher(Ev)
       [] Ev.op = "codec.blowfish.tables" -> Tables(Ev)
       [] OTHER -> BadCase(l, "unknown event")
  /\ l' = l + 1
Spec == Init /\ [][Next]_vars
=============================================================================
