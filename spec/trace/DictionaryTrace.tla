--------------------------- MODULE DictionaryTrace ---------------------------
(* Beyond the list: real Dictionary::from_existing results judged against     *)
(* Dictionary.tla.  The event carries the header words and the data area of   *)
(* the file the library was given; the tables are decoded here, from those    *)
(* bytes, and walked by Listing.  A file whose walk is "bad" (a pointer       *)
(* outside its table, a pointer cycle) has no word list: the library must     *)
(* answer None for it.                                                         *)
EXTENDS Dictionary, TraceLib

VARIABLES l
vars == <<l>>
Ev == Rec[l]

FirstDiff(a, b) == Min({k \in 1..(Len(a) + 1) : k > Len(a) \/ k > Len(b) \/ a[k] # b[k]})
DicEv(e) ==
  IF ~InData(e.hdr, e.data) THEN BadCase(l, "blocks outside the logged data")
  ELSE LET t == Tables(e.hdr, e.data)
           r == Listing(t, 256)
       IN IF r.ok /\ e.abs.some /\ e.abs.v # r.ws THEN BadCase(l, "generator and specification list different words")
          ELSE IF ~r.ok
               THEN /\ Tag(l, "dic-bad-tables")
                    /\ IF e.res.outcome = "value" /\ ~e.res.v.some THEN TRUE
                       ELSE Mismatch(l, "dic-bad-tables-outcome", <<e.case>>, "None", e.res)
          ELSE IF ~IsSome(e.res) THEN Mismatch(l, "dic-outcome", <<e.case>>, "a word list", e.res)
          ELSE LET o == e.res.v.v
               IN /\ Tag(l, "dic-words")
                  /\ IF o = r.ws THEN TRUE
                     ELSE LET k == FirstDiff(r.ws, o)
                          IN Mismatch(l, "dic-words", <<e.case, k, Len(r.ws), Len(o)>>,
                                      IF k <= Len(r.ws) THEN r.ws[k] ELSE "end of list", IF k <= Len(o) THEN o[k] ELSE "end of list")

Init == l = 1
Next ==
  /\ l <= Len(Rec)
  /\ CASE Ev.op = "assets.dic" -> DicEv(Ev)
       [] OTHER -> BadCase(l, "unknown event")
  /\ l' = l + 1
Spec == Init /\ [][Next]_vars
=============================================================================
