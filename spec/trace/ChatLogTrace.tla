----------------------------- MODULE ChatLogTrace -----------------------------
(* Beyond the list: real ChatLog::from_existing results judged against        *)
(* ChatLog.tla on the same file bytes.  The event names the library's filter  *)
(* and channel values by byte (`filters`, `channels`: 256 names each, "" for  *)
(* a byte the library has no name for - a file with such a byte is refused).  *)
EXTENDS ChatLog, TraceLib, FiniteSetsExt

VARIABLES l
vars == <<l>>
Ev == Rec[l]

LogEv(e) ==
  LET b == e.bytes
  IN IF ~WellFormedLog(b) THEN BadCase(l, "generated log is not well-formed")
     ELSE LET want == Entries(b)
              known == \A i \in 1..Len(want) : e.filters[want[i].filter + 1] # "" /\ e.channels[want[i].channel + 1] # ""
          IN IF Len(want) # e.abs THEN BadCase(l, "generator and specification count different entries")
             ELSE IF ~known
             THEN IF e.res.outcome = "value" /\ ~e.res.v.some THEN Tag(l, "log-unknown-enum")
                  ELSE Mismatch(l, "log-unknown-enum-outcome", <<e.case>>, "None", e.res)
             ELSE IF ~IsSome(e.res) THEN Mismatch(l, "log-outcome", <<e.case>>, "a chat log", e.res)
             ELSE LET o == e.res.v.v
                  IN /\ Expect(l, "log-count", <<e.case>>, Len(want), Len(o))
                     /\ IF Len(o) # Len(want) THEN TRUE
                        ELSE LET bad == {i \in 1..Len(want) : \/ o[i].message # want[i].message
                                                              \/ o[i].filter # e.filters[want[i].filter + 1]
                                                              \/ o[i].channel # e.channels[want[i].channel + 1]}
                             IN IF bad = {} THEN TRUE
                                ELSE LET i == Min(bad)
                                     IN Mismatch(l, "log-entry", <<e.case, i>>,
                                                 <<e.filters[want[i].filter + 1], e.channels[want[i].channel + 1], want[i].message>>, o[i])

Init == l = 1
Next ==
  /\ l <= Len(Rec)
  /\ CASE Ev.op = "assets.log" -> LogEv(Ev)
       [] OTHER -> BadCase(l, "unknown event")
  /\ l' = l + 1
Spec == Init /\ [][Next]_vars
=============================================================================
