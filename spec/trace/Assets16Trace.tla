--------------------------- MODULE Assets16Trace ---------------------------
(* C16: real skeleton / deformer / scaling / terrain / layer-group calls       *)
(* judged against HavokTag.tla and Assets16.tla.                               *)
EXTENDS Assets16, TraceLib
VARIABLES l
vars == <<l>>
Ev == Rec[l]
Sig(e) == <<e.case>>

SklbEv(e) ==
  IF ~SklbOk(e.bytes) THEN BadCase(l, "container header outside the family")
  ELSE LET st == TagRun(SklbPayload(e.bytes))
       IN IF st.status # "end" THEN BadCase(l, "the specification cannot read the generated tag file: " \o st.status)
          ELSE IF ~IsSome(e.res) THEN Mismatch(l, "sklb-outcome", Sig(e), "a skeleton", e.res)
          ELSE LET want == SkeletonOf(st)
                   got == e.res.v.v
                   model == [i \in 1..Len(e.model) |-> Bone(e.model[i].name, e.model[i].parent, e.model[i].pose)]
               IN /\ IF model = want THEN TRUE ELSE BadCase(l, "generator and specification read the tag file differently")
                  /\ Expect(l, "sklb-bone-count", Sig(e), Len(want), Len(got))
                  /\ IF Len(want) # Len(got) THEN TRUE
                     ELSE \A i \in 1..Len(want) :
                            /\ Expect(l, "sklb-bone-name", <<e.case, i>>, want[i].name, got[i].name)
                            /\ Expect(l, "sklb-bone-parent", <<e.case, i>>, want[i].parent, got[i].parent)
                            /\ Expect(l, "sklb-bone-position", <<e.case, i>>, want[i].pos, got[i].pos)
                            /\ Expect(l, "sklb-bone-rotation", <<e.case, i>>, want[i].rot, got[i].rot)
                            /\ Expect(l, "sklb-bone-scale", <<e.case, i>>, want[i].scale, got[i].scale)

PbdEv(e) ==
  IF ~IsSome(e.res) THEN Mismatch(l, "pbd-outcome", Sig(e), "a deformer", e.res)
  ELSE LET p == Pbd(e.bytes)
       IN \A q \in 1..Len(e.queries) :
            LET from == e.queries[q][1]
                to == e.queries[q][2]
                r == e.res.v.v[q]
            IN IF Undecided(p, from, to) THEN TRUE
               ELSE IF ~HasItem(p, from) THEN Expect(l, "pbd-unknown-start", <<e.case, from, to>>, [outcome |-> "value", v |-> [some |-> FALSE]], r)
               ELSE IF ~IsSome(r) THEN Mismatch(l, "pbd-query-outcome", <<e.case, from, to>>, "matrices", r)
               ELSE LET w == Walk(p, from, to)
                    IN /\ Require(l, "pbd-walk-terminates", <<e.case, from, to>>, w.done)
                       /\ Expect(l, "pbd-bone-names", <<e.case, from, to>>, [i \in 1..Len(w.acc) |-> w.acc[i].name], [i \in 1..Len(r.v.v) |-> r.v.v[i].name])
                       /\ Expect(l, "pbd-matrices", <<e.case, from, to>>, [i \in 1..Len(w.acc) |-> w.acc[i].m], [i \in 1..Len(r.v.v) |-> r.v.v[i].m])

CmpEv(e) ==
  IF e.prefix # CmpOffset THEN BadCase(l, "scaling rows not at the fixed offset")
  ELSE IF ~IsSome(e.res) THEN Mismatch(l, "cmp-outcome", Sig(e), "a table", e.res)
  ELSE /\ Expect(l, "cmp-row-count", Sig(e), Len(e.tail) \div 56, Len(e.res.v.v))
       /\ IF Len(e.tail) \div 56 # Len(e.res.v.v) THEN TRUE
          ELSE \A r \in 1..Len(e.res.v.v) : Expect(l, "cmp-row", <<e.case, r>>, CmpRows(e.tail)[r], e.res.v.v[r])

PlatesOf(v) == [i \in 1..Len(v) |-> [x |-> v[i].x, y |-> v[i].y, file |-> v[i].file]]
TeraEv(e) ==
  IF ~IsValue(e.res) \/ ~e.res.v.parsed.some THEN Mismatch(l, "tera-outcome", Sig(e), "a terrain", e.res)
  ELSE LET want == Tera(e.bytes)
           got == e.res.v.parsed.v
       IN /\ Expect(l, "tera-plate-count", Sig(e), Len(want), Len(got))
          /\ IF Len(want) # Len(got) THEN TRUE
             ELSE \A i \in 1..Len(want) : Expect(l, "tera-plate", <<e.case, i>>, want[i], [x |-> got[i].x, y |-> got[i].y, file |-> got[i].file])
          \* the writer, for terrains on the 128-unit grid: exact bytes, and the round trip through the real parser
          /\ IF TeraPlateSize(e.bytes) # 128 THEN TRUE
             ELSE IF ~e.res.v.written.some THEN Mismatch(l, "tera-write-outcome", Sig(e), "bytes", e.res.v.written)
             ELSE /\ Expect(l, "tera-written-bytes", Sig(e), TeraWrite(TeraCells(e.bytes)), e.res.v.written.v)
                  /\ IF ~e.res.v.reparsed.some THEN Mismatch(l, "tera-reparse-outcome", Sig(e), "a terrain", e.res.v.reparsed)
                     ELSE Expect(l, "tera-round-trip", Sig(e), PlatesOf(want), PlatesOf(e.res.v.reparsed.v))

LgbEv(e) ==
  IF ~IsValue(e.res) \/ ~e.res.v.written.some THEN Mismatch(l, "lgb-write-outcome", Sig(e), "bytes", e.res)
  ELSE LET b == e.res.v.written.v
           v == LgbView(b)
       IN /\ Expect(l, "lgb-written-ids", Sig(e), <<e.file_id, e.chunk_id, e.group>>, <<v.file_id, v.chunk_id, v.group>>)
          /\ Expect(l, "lgb-written-name", Sig(e), e.name, v.name)
          /\ Expect(l, "lgb-written-counts", Sig(e), <<1, 0, Len(b)>>, <<v.chunks, v.layers, v.file_size>>)
          /\ IF ~e.res.v.reparsed.some THEN Mismatch(l, "lgb-reparse-outcome", Sig(e), "a layer group", e.res.v.reparsed)
             ELSE Expect(l, "lgb-round-trip", Sig(e),
                         [file_id |-> e.file_id, chunks |-> <<[chunk_id |-> e.chunk_id, group |-> e.group, name |-> e.name, layers |-> 0]>>],
                         e.res.v.reparsed.v)

Init == l = 1
Next ==
  /\ l <= Len(Rec)
  /\ CASE Ev.op = "assets.sklb" -> SklbEv(Ev)
       [] Ev.op = "assets.pbd" -> PbdEv(Ev)
       [] Ev.op = "assets.cmp" -> CmpEv(Ev)
       [] Ev.op = "assets.tera" -> TeraEv(Ev)
       [] Ev.op = "assets.lgb" -> LgbEv(Ev)
       [] OTHER -> BadCase(l, "unknown event")
  /\ l' = l + 1
Spec == Init /\ [][Next]_vars
=============================================================================
