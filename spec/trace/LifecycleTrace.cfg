SPECIFICATION Spec
CONSTANTS
  Repos <- TRepos
  Chunks <- TChunks
  Paths <- TPaths
  Names <- TNames
POSTCONDITION TraceAccepted
CHECK_DEADLOCK FALSE
