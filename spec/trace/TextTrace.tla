----------------------------- MODULE TextTrace -----------------------------
(* C08: configuration object and Excel list, recorded calls judged against   *)
(* TextFormats.tla.  model = the specification's view of the handle's state. *)
EXTENDS TextFormats, TraceLib

VARIABLES l, model
vars == <<l, model>>
Ev == Rec[l]

ObsCfg(v) == v.cats          \* projected structure has the abstract shape
Sig(e) == <<e.case>>

Build(e) ==
  /\ Require(l, "build-shape", Sig(e), IsValue(e.res) /\ ObsCfg(e.res.v) = e.cats /\ e.res.v.orphans = 0)
  /\ model' = e.cats

Parse(e) ==
  LET exp == ParseCfg(e.bytes)
  IN /\ Require(l, "cfg-parse", Sig(e),
                IsSome(e.res) /\ ObsCfg(e.res.v.v) = exp /\ e.res.v.v.orphans = 0)
     \* the generator's own abstract config, when given, must agree with the spec (else BADCASE)
     /\ IF e.abs.some /\ e.abs.v # exp THEN BadCase(l, "concretiser and ParseCfg disagree") ELSE TRUE
     /\ model' = IF IsSome(e.res) THEN ObsCfg(e.res.v.v) ELSE exp

SetV(e) ==
  /\ Require(l, "set-value", Sig(e),
             IsValue(e.res) /\ SetValueChangesAllAndOnly(model, ObsCfg(e.res.v), e.key, e.val)
               /\ e.res.v.orphans = 0)
  /\ model' = IF IsValue(e.res) THEN ObsCfg(e.res.v) ELSE SetValue(model, e.key, e.val)

HasK(e) ==
  /\ Require(l, "has-key", Sig(e), IsValue(e.res) /\ e.res.v = HasKey(model, e.key))
  /\ UNCHANGED model
HasC(e) ==
  /\ Require(l, IF HasCategory(model, e.cat) /\ ~\E i \in 1..Len(model) : model[i].name = e.cat /\ model[i].pairs # <<>>
                THEN "has-category-empty" ELSE "has-category", Sig(e),
             IsValue(e.res) /\ e.res.v = HasCategory(model, e.cat))
  /\ UNCHANGED model
Write(e) ==
  /\ Require(l, "cfg-write", Sig(e), IsSome(e.res) /\ e.res.v.v = RenderCfg(model))
  /\ UNCHANGED model
Reparse(e) ==
  /\ Require(l, "cfg-write", Sig(e), IsValue(e.res) /\ e.res.v.bytes = RenderCfg(model))
  /\ Require(l, "cfg-reparse", Sig(e),
             IsValue(e.res) /\ e.res.v.parsed.some /\ ObsCfg(e.res.v.parsed.v) = model
               /\ e.res.v.parsed.v.orphans = 0)
  /\ model' = IF IsValue(e.res) /\ e.res.v.parsed.some THEN ObsCfg(e.res.v.parsed.v) ELSE model

ExlParse(e) ==
  LET exp == ParseExl(e.bytes)
  IN /\ Require(l, "exl-parse", Sig(e),
                IsSome(e.res) /\ e.res.v.v.version = exp.version /\ e.res.v.v.entries = exp.entries)
     /\ Require(l, "exl-contains", Sig(e),
                IsSome(e.res) /\ e.res.v.v.contains = [i \in 1..Len(e.probe) |-> ExlContains(exp, e.probe[i])])
     \* a canonical file is reproduced byte for byte
     /\ IF e.canonical
        THEN Require(l, "exl-rewrite", Sig(e),
                     IsSome(e.res) /\ e.res.v.v.rewritten.some /\ e.res.v.v.rewritten.v = e.bytes)
        ELSE TRUE
     /\ IF e.abs.some /\ e.abs.v # exp THEN BadCase(l, "concretiser and ParseExl disagree") ELSE TRUE
     /\ UNCHANGED model
ExlWrite(e) ==
  /\ Require(l, "exl-write", Sig(e),
             IsSome(e.res) /\ e.res.v.v = RenderExl([version |-> e.version, entries |-> e.entries]))
  /\ UNCHANGED model

Init == l = 1 /\ model = <<>>
Next ==
  /\ l <= Len(Rec)
  /\ CASE Ev.op = "text.cfg.build"   -> Build(Ev)
       [] Ev.op = "text.cfg.parse"   -> Parse(Ev)
       [] Ev.op = "text.cfg.set"     -> SetV(Ev)
       [] Ev.op = "text.cfg.haskey"  -> HasK(Ev)
       [] Ev.op = "text.cfg.hascat"  -> HasC(Ev)
       [] Ev.op = "text.cfg.write"   -> Write(Ev)
       [] Ev.op = "text.cfg.reparse" -> Reparse(Ev)
       [] Ev.op = "text.exl.parse"   -> ExlParse(Ev)
       [] Ev.op = "text.exl.write"   -> ExlWrite(Ev)
       [] OTHER -> BadCase(l, "unknown event") /\ UNCHANGED model
  /\ l' = l + 1
Spec == Init /\ [][Next]_vars
=============================================================================
