--------------------------- MODULE LayerGroupTrace ---------------------------
(* Beyond the list: real LayerGroup::from_existing results on layer groups    *)
(* with layers and instance objects, judged against LayerGroup.tla on the     *)
(* same file bytes.  `abs` is what the generator meant to store: if the       *)
(* specification reads something else from the bytes, that is a BADCASE of    *)
(* the tooling, not a verdict.                                                *)
EXTENDS LayerGroup, TraceLib

VARIABLES l
vars == <<l>>
Ev == Rec[l]

Kinds(e, type) == IF type = TypeMarker THEN e.markerkinds ELSE e.popkinds
ObjOk(e, want, got) ==
  /\ got.id = want.id /\ got.name = want.name /\ got.transform = want.transform
  /\ IF want.type = TypeMarker
     THEN got.data.k = "marker" /\ got.data.kind = e.markerkinds[want.data[1]] /\ got.data.w = <<want.data[2], want.data[3]>>
     ELSE IF want.type = TypeBg
     THEN /\ got.data.k = "bg" /\ got.data.collision = e.collisionkinds[want.data[3] + 1]
          /\ got.data.flags = <<want.data[7], want.data[8], want.data[9]>>
          /\ got.data.w = <<want.data[1], want.data[2], want.data[4], want.data[5], want.data[6], want.data[10]>>
     ELSE IF want.type = TypeShared
     THEN /\ got.data.k = "shared" /\ got.data.door = e.doorstates[want.data[2]] /\ got.data.rotation = e.rotationstates[want.data[5]]
          /\ got.data.flags = <<want.data[6], want.data[7], want.data[8], want.data[11]>>
          /\ got.data.transform = e.playstates[want.data[12] + 1] /\ got.data.colour = e.playstates[want.data[13] + 1]
          /\ got.data.w = <<want.data[1], want.data[3], want.data[4], want.data[9], want.data[10]>>
     ELSE IF want.type = TypePop
     THEN got.data.k = "pop" /\ got.data.kind = e.popkinds[want.data[1]] /\ got.data.w = <<want.data[4]>> /\ got.data.index = want.data[5]
     ELSE IF want.type = TypeEnv
     THEN /\ got.data.k = "env" /\ got.data.shape = e.envshapes[want.data[3]] /\ got.data.flag = want.data[4] /\ got.data.priority = want.data[5]
          /\ got.data.w = <<want.data[1], want.data[2], want.data[6], want.data[7], want.data[8], want.data[9], want.data[10]>>
     ELSE /\ got.data.k = "exit" /\ got.data.shape = e.boxshapes[want.data[1]] /\ got.data.priority = want.data[2] /\ got.data.enabled = want.data[3]
          /\ got.data.kind = e.exitkinds[want.data[4]] /\ got.data.zone = want.data[5] /\ got.data.territory = want.data[6]
          /\ got.data.w = <<want.data[7], want.data[8], want.data[9], want.data[10]>>
LayerHeadOk(want, got) ==
  /\ got.id = want.id /\ got.name = want.name /\ got.flags = want.flags /\ got.festival = want.festival
  /\ got.temporary = want.temporary /\ got.housing = want.housing /\ got.mask = want.mask
LgbReadEv(e) ==
  LET b == e.bytes
  IN IF ~WellFormed(b) THEN BadCase(l, "generated file is not well-formed")
     ELSE LET want == Layers(b)
              head == LgbView(b)
          IN IF [i \in 1..Len(want) |-> [id |-> want[i].id, name |-> want[i].name, n |-> Len(want[i].objects)]] # e.abs
             THEN BadCase(l, "generator and specification read different layers")
             ELSE IF ~IsSome(e.res) THEN Mismatch(l, "lgb-read-outcome", <<e.case>>, "a layer group", e.res)
             ELSE LET o == e.res.v.v
                      c == o.chunks[1]
                  IN /\ Expect(l, "lgb-read-ids", <<e.case>>, <<head.file_id, head.chunk_id, head.group, head.name>>, <<o.file_id, c.chunk_id, c.group, c.name>>)
                     /\ Expect(l, "lgb-read-layer-count", <<e.case>>, Len(want), Len(c.layers))
                     /\ IF Len(c.layers) # Len(want) THEN TRUE
                        ELSE LET badhead == {i \in 1..Len(want) : ~LayerHeadOk(want[i], c.layers[i])}
                                 badcount == {i \in 1..Len(want) : Len(c.layers[i].objects) # Len(want[i].objects)}
                                 badobj == {p \in UNION {{<<i, k>> : k \in 1..Len(want[i].objects)} : i \in (1..Len(want)) \ badcount} :
                                              ~ObjOk(e, want[p[1]].objects[p[2]], c.layers[p[1]].objects[p[2]])}
                             IN /\ IF badhead = {} THEN TRUE
                                   ELSE LET i == Min(badhead) IN Mismatch(l, "lgb-read-layer-header", <<e.case, i>>, [want[i] EXCEPT !.objects = << >>], [c.layers[i] EXCEPT !.objects = << >>])
                                /\ IF badcount = {} THEN TRUE
                                   ELSE LET i == Min(badcount) IN Mismatch(l, "lgb-read-object-count", <<e.case, i>>, Len(want[i].objects), Len(c.layers[i].objects))
                                /\ IF badobj = {} THEN TRUE
                                   ELSE LET p == CHOOSE q \in badobj : \A r \in badobj : q[1] < r[1] \/ (q[1] = r[1] /\ q[2] <= r[2])
                                        IN Mismatch(l, "lgb-read-object", <<e.case, p[1], p[2]>>, want[p[1]].objects[p[2]], c.layers[p[1]].objects[p[2]])

Init == l = 1
Next ==
  /\ l <= Len(Rec)
  /\ CASE Ev.op = "assets.lgbread" -> LgbReadEv(Ev)
       [] OTHER -> BadCase(l, "unknown event")
  /\ l' = l + 1
Spec == Init /\ [][Next]_vars
=============================================================================
