--------------------------- MODULE UserFilesTrace ---------------------------
(* C09: character presets and gear-set files written / parsed by the real     *)
(* library, judged against UserFiles.tla.                                      *)
EXTENDS UserFiles, TraceLib

VARIABLES l
vars == <<l>>
Ev == Rec[l]
Sig(e) == <<e.case>>

ExpandRle(r) == Flatten([i \in 1..Len(r) |-> [j \in 1..r[i][2] |-> r[i][1]]])

RecOf(e) == [version |-> e.version, fields |-> e.fields, timestamp |-> e.timestamp, comment |-> e.comment]
ObsRec(v) == [version |-> v.version, fields |-> v.fields, timestamp |-> v.timestamp, comment |-> v.comment]
\* first field whose byte is not at its documented position (for the report)
CharWrite(e) ==
  IF ~IsValue(e.res) THEN Mismatch(l, "chardat-outcome", Sig(e), "value", e.res)
  ELSE LET r == RecOf(e)
           b == e.res.v.bytes
           want == EncodeChar(r)
           wrongFields == {i \in 1..27 : Len(b) < 212 \/ b[FieldPos(i) + 1] # r.fields[i]}
       IN /\ Require(l, "chardat-length", Sig(e), Len(b) = 212)
          /\ IF wrongFields = {} THEN TRUE
             ELSE Mismatch(l, "chardat-field-position", <<Fields[CHOOSE i \in wrongFields : TRUE]>>, "documented offset", wrongFields)
          /\ IF Len(b) = 212
             THEN /\ Require(l, "chardat-checksum", Sig(e), SubSeq(b, 9, 12) = LE32n(Checksum(b)))
                  /\ Require(l, "chardat-layout", Sig(e), b = want)
             ELSE TRUE
          /\ Require(l, "chardat-parse-back", Sig(e), e.res.v.parsed.some /\ ObsRec(e.res.v.parsed.v) = r)
          /\ Require(l, "chardat-rewrite", Sig(e), e.res.v.rewritten.some /\ e.res.v.rewritten.v = b)
CharParse(e) ==
  IF ~IsValue(e.res) THEN Mismatch(l, "chardat-outcome", Sig(e), "value", e.res)
  ELSE /\ Require(l, "chardat-parse", Sig(e), e.res.v.parsed.some /\ ObsRec(e.res.v.parsed.v) = DecodeChar(e.bytes))
       /\ IF e.canonical
          THEN Require(l, "chardat-rewrite", Sig(e), e.res.v.rewritten.some /\ e.res.v.rewritten.v = e.bytes)
          ELSE TRUE

\* ---- gear sets
ObsSet(o) == IF ~o.some THEN [some |-> FALSE]
             ELSE [some |-> TRUE, index |-> o.index, name |-> o.name,
                   slots |-> [s \in {o.slots[i].s : i \in 1..Len(o.slots)} |->
                                LET i == CHOOSE j \in 1..Len(o.slots) : o.slots[j].s = s
                                IN [id |-> o.slots[i].id, glam |-> o.slots[i].glam]],
                   facewear |-> o.facewear]
TableMatches(obs, dec, sig, kind) ==
  /\ Require(l, kind \o "-shape", sig, obs.n = 100 /\ obs.current = dec.current)
  /\ \A k \in 1..100 :
       IF ObsSet(obs.sets[k]) = Reported(dec.sets[k]) THEN TRUE
       ELSE Mismatch(l, kind \o "-set", sig \o <<k>>, Reported(dec.sets[k]), ObsSet(obs.sets[k]))
GearParse(e) ==
  IF ~IsValue(e.res) THEN Mismatch(l, "gear-outcome", Sig(e), "value", e.res)
  ELSE LET file == e.file
           dec == DecodeGear(file)
       IN /\ IF ~dec.headerOk THEN BadCase(l, "generated gear file is not canonical") ELSE TRUE
          /\ IF e.res.v.parsed.some THEN TableMatches(e.res.v.parsed.v, dec, Sig(e), "gear-parse")
             ELSE Mismatch(l, "gear-parse", Sig(e), "a table", "none")
          /\ IF e.canonical
             \* (the byte comparison of the 45 KB re-written file with its input is the shim's echo test)
             THEN Require(l, "gear-rewrite", Sig(e), e.res.v.rewritten_same.some /\ e.res.v.rewritten_same.v)
             ELSE TRUE
\* the abstract table given to the library (sets as a list of [k, index, name, slots, facewear])
WantSet(e, k) ==
  LET idx == {i \in 1..Len(e.sets) : e.sets[i].k = k}
  IN IF idx = {} THEN [some |-> FALSE]
     ELSE LET s == e.sets[CHOOSE i \in idx : TRUE]
          IN IF s.name = <<>> THEN [some |-> FALSE]
             ELSE [some |-> TRUE, index |-> s.index, name |-> s.name,
                   slots |-> [t \in {s.slots[i].s : i \in {j \in 1..Len(s.slots) : s.slots[j].id # Zero32}} |->
                                LET i == CHOOSE j \in 1..Len(s.slots) : s.slots[j].s = t
                                IN [id |-> s.slots[i].id, glam |-> s.slots[i].glam]],
                   facewear |-> s.facewear]
GearWrite(e) ==
  IF ~IsValue(e.res) THEN Mismatch(l, "gear-outcome", Sig(e), "value", e.res)
  ELSE LET file == e.res.v.file
           dec == DecodeGear(file)
       IN /\ Require(l, "gear-header", Sig(e), dec.headerOk)
          \* an independent decoder reads the written bytes back to the table that was set
          /\ IF Len(file) = 45221
             THEN /\ Require(l, "gear-current", Sig(e), dec.current = e.current)
                  /\ \A k \in 1..100 :
                       IF Reported(dec.sets[k]) = WantSet(e, k) THEN TRUE
                       ELSE Mismatch(l, "gear-written-set", Sig(e) \o <<k>>, WantSet(e, k), Reported(dec.sets[k]))
                  \* and so does the library
                  /\ IF e.res.v.parsed.some THEN TableMatches(e.res.v.parsed.v, dec, Sig(e), "gear-parse-back")
                     ELSE Mismatch(l, "gear-parse-back", Sig(e), "a table", "none")
             ELSE TRUE

Init == l = 1
Next ==
  /\ l <= Len(Rec)
  /\ CASE Ev.op = "user.chardat.write" -> CharWrite(Ev)
       [] Ev.op = "user.chardat.parse" -> CharParse(Ev)
       [] Ev.op = "user.gear.parse"    -> GearParse(Ev)
       [] Ev.op = "user.gear.write"    -> GearWrite(Ev)
       [] OTHER -> BadCase(l, "unknown event")
  /\ l' = l + 1
Spec == Init /\ [][Next]_vars
=============================================================================
