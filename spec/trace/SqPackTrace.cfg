SPECIFICATION Spec
CONSTANT KeyFn <- Key
CONSTANT CatFn <- PathCategory
CONSTANT RepoFn <- PathRepo
CONSTANT Cat <- RleCat
CONSTANT Size <- RleSize
CONSTANT Lit <- RleLit
POSTCONDITION TraceAccepted
CHECK_DEADLOCK FALSE
