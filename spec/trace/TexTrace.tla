------------------------------ MODULE TexTrace ------------------------------
(* C13: real Texture::from_existing results judged against Tex.tla on the     *)
(* same file bytes.                                                           *)
EXTENDS Tex, TraceLib, FiniteSetsExt

VARIABLES l
vars == <<l>>
Ev == Rec[l]

TexEv(e) ==
  LET b == e.bytes
      h == Header(b)
      p == SubSeq(b, 81, Len(b))
      n == h.width * h.height * h.depth
  IN IF ~IsSome(e.res) THEN Mismatch(l, "tex-outcome", <<e.case, h.format>>, "a texture", e.res)
     ELSE LET o == e.res.v.v
              \* pixel i (0-based) of the output, in the stacked image
              want(i) == Pixel(h, p, i % h.width, i \div h.width)
              got(i) == <<o.rgba[4 * i + 1], o.rgba[4 * i + 2], o.rgba[4 * i + 3], o.rgba[4 * i + 4]>>
              same(i) == LET w == want(i) IN /\ got(i)[1] = w[1] /\ got(i)[2] = w[2] /\ got(i)[3] = w[3]
                                               /\ (w[4] = -1 \/ got(i)[4] = w[4])   \* BC1 black entry: alpha free
              bad == {i \in 0..(n - 1) : ~same(i)}
          IN /\ Require(l, "tex-dimensions", <<e.case, h.format>>,
                        o.w = h.width /\ o.h = h.height /\ o.d = h.depth /\ Len(o.rgba) = 4 * n)
             /\ Require(l, "tex-3d-flag", <<e.case, h.attr>>, o.three_d = Is3D(h))
             /\ IF Len(o.rgba) # 4 * n \/ bad = {} THEN TRUE
                ELSE LET i == Min(bad)
                     IN Mismatch(l, "tex-pixel-" \o ToString(h.format), <<e.case, i % h.width, i \div h.width>>, want(i), got(i))

Init == l = 1
Next ==
  /\ l <= Len(Rec)
  /\ CASE Ev.op = "codec.tex" -> TexEv(Ev)
       [] OTHER -> BadCase(l, "unknown event")
  /\ l' = l + 1
Spec == Init /\ [][Next]_vars
=============================================================================
