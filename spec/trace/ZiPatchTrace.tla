---------------------------- MODULE ZiPatchTrace ----------------------------
(* C03 / C04: real ZiPatch::apply / ZiPatch::create runs judged against      *)
(* ZiPatch.tla at byte granularity (Block = 128, 1 KiB headers).             *)
EXTENDS ZiPatch, TraceLib

VARIABLES l
vars == <<l>>
Ev == Rec[l]
Sig(e) == <<e.case>>

\* contents are logged run-length encoded: << <<byte, count>>, ... >>
Expand(r) == Flatten([i \in 1..Len(r) |-> [j \in 1..r[i][2] |-> r[i][1]]])
FilesOf(t) ==
  LET idx == 1..Len(t.files)
  IN [p \in {t.files[i].p : i \in idx} |-> Expand(t.files[CHOOSE i \in idx : t.files[i].p = p].c)]
DirsOf(t) == {t.dirs[i] : i \in 1..Len(t.dirs)}
TreeOf(t) == [files |-> FilesOf(t), dirs |-> DirsOf(t)]
ChunkOf(c) == IF c.k \in {"A", "H", "FA"} THEN [c EXCEPT !.data = Expand(c.data)] ELSE c
ChunksOf(cs) == [j \in 1..Len(cs) |-> ChunkOf(cs[j])]

\* the 20-byte header of an empty block of n 128-byte blocks (all little-endian i32):
\* block size 128, 0, file size 0, n - 1 further blocks, 0 used blocks
ByteEmptyHead(n) ==
  <<128, 0, 0, 0,  0, 0, 0, 0,  0, 0, 0, 0,
    (n - 1) % 256, ((n - 1) \div 256) % 256, ((n - 1) \div 65536) % 256, (n - 1) \div 16777216,  0, 0, 0, 0>>

\* paths whose content differs between two file maps (for the report)
Diff(f, g) == {p \in DOMAIN f \cup DOMAIN g : p \notin DOMAIN f \/ p \notin DOMAIN g \/ f[p] # g[p]}
KindsOf(ps) == UNION {{ps[i][j].k : j \in 1..Len(ps[i])} : i \in 1..Len(ps)}

ApplyEv(e) ==
  LET t0 == TreeOf(e.tree0)
      ps == [i \in 1..Len(e.patches) |-> ChunksOf(e.patches[i])]
      exp == ApplyChain(t0, ps)
      obs == TreeOf(e.res.tree1)
      okAll == /\ Len(e.res.results) = Len(e.patches)
               /\ \A i \in 1..Len(e.res.results) : IsValue(e.res.results[i]) /\ e.res.results[i].v = "ok"
  IN /\ IF exp.res # "ok" THEN BadCase(l, "generated patch is not well-formed for the specification") ELSE TRUE
     /\ Require(l, "apply-result", Sig(e), okAll)
     /\ IF obs.files = exp.files THEN TRUE
        ELSE Mismatch(l, "apply-files", Sig(e), <<"differing paths", Diff(exp.files, obs.files)>>, KindsOf(e.patches))
     /\ Require(l, "apply-dirs", Sig(e), MustDirs(exp) \subseteq obs.dirs)

CreateEv(e) ==
  LET A == TreeOf(e.a)
      B == TreeOf(e.b)
      want == NonEmpty(B.files)
      C1 == TreeOf(e.res.c1)
      \* unchanged = same files and contents, and no directories beyond those the trees had
      Same(t1, t) == t1.files = t.files /\ t1.dirs = t.dirs \cup UNION {Ancestors(p) : p \in DOMAIN t.files}
  IN /\ Require(l, "create-pure", Sig(e), Same(TreeOf(e.res.a1), A) /\ Same(TreeOf(e.res.b1), B))
     /\ Require(l, "create-some", Sig(e), IsSome(e.res.created))
     /\ IF e.res.chunks.some
        THEN LET r == Apply(A, ChunksOf(e.res.chunks.v))
             IN /\ IF r.res = "ok" /\ r.files = want THEN TRUE
                   ELSE Mismatch(l, "create-law", Sig(e), <<"differing paths", Diff(want, r.files)>>, r.res)
                \* the real apply on the library's own patch behaves as the specification's
                /\ Require(l, "create-apply-conformance", Sig(e),
                           IsValue(e.res.applied) /\ e.res.applied.v = "ok" /\ C1.files = r.files)
        ELSE Mismatch(l, "create-decode", Sig(e), "decodable patch", e.res.chunks.err)
     \* the property itself, on the real code end to end
     /\ IF IsValue(e.res.applied) /\ e.res.applied.v = "ok" /\ C1.files = want THEN TRUE
        ELSE Mismatch(l, "create-result", Sig(e), <<"differing paths", Diff(want, C1.files)>>, e.res.applied)

Init == l = 1
Next ==
  /\ l <= Len(Rec)
  /\ CASE Ev.op = "patch.apply"  -> ApplyEv(Ev)
       [] Ev.op = "patch.create" -> CreateEv(Ev)
       [] OTHER -> BadCase(l, "unknown event")
  /\ l' = l + 1
Spec == Init /\ [][Next]_vars
=============================================================================
