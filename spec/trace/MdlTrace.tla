------------------------------ MODULE MdlTrace ------------------------------
(* C06 / C07: real MDL::from_existing / edits / write_to_buffer judged        *)
(* against Mdl.tla on the same bytes.                                          *)
EXTENDS Mdl, TraceLib

VARIABLES l, geom, orig,    \* per handle: expected geometry; bytes of the opened file
          shp               \* per handle: [known, has]: which (lod, part, shape name) triples were given values since the shapes
                            \* were last removed; known = nothing else has touched the shape tables or the meshes since
vars == <<l, geom, orig, shp>>
Ev == Rec[l]
Sig(e) == <<e.case>>

\* ---- comparison of one reported part with the specification's ----------------
FirstBadVertex(obs, want) ==
  LET bad == {k \in 1..Len(want) : k > Len(obs) \/ ~SameVertex(obs[k], want[k])}
  IN IF bad = {} THEN 0 ELSE Min(bad)
BadSlot(o, w) == LET bad == {i \in 1..22 : ~SameF(o.f[i], w.f[i])} IN IF bad = {} THEN 23 ELSE Min(bad)
IsBig(w) == "big" \in DOMAIN w
\* for files logged as header part + length the library's re-parse is projected without vertex lists
AsBig(w) == [nv |-> w.nv, vertices |-> <<>>, big |-> TRUE, indices |-> w.indices, subs |-> w.subs]
PartMatches(o, w, sig, pfx, full) ==
  /\ IF IsBig(w) THEN Expect(l, pfx \o "-vertex-count", sig, w.nv, o.nv) ELSE
     LET k == IF o.nv # w.nv \/ Len(o.vertices) # Len(w.vertices) THEN -1 ELSE FirstBadVertex(o.vertices, w.vertices)
     IN IF k = 0 THEN TRUE
        ELSE IF k = -1 THEN Mismatch(l, pfx \o "-vertex-count", sig, w.nv, o.nv)
        ELSE Mismatch(l, pfx \o "-vertex", sig \o <<k, BadSlot(o.vertices[k], w.vertices[k])>>, w.vertices[k], o.vertices[k])
  /\ Expect(l, pfx \o "-indices", sig, w.indices, o.indices)
  /\ Expect(l, pfx \o "-submeshes", sig, w.subs, o.subs)
  /\ IF full
     THEN /\ Expect(l, pfx \o "-material-index", sig, w.material, o.material)
          /\ Expect(l, pfx \o "-streams", sig, w.streams, o.streams)
          /\ Expect(l, pfx \o "-strides", sig, w.strides, o.strides)
          /\ Expect(l, pfx \o "-shape-names", sig, w.shapes, o.shapes)
     ELSE TRUE
\* the whole reported model against the bytes
ModelMatches(o, b, sig, pfx) ==
  LET L == Layout(b)
  IN /\ Require(l, pfx \o "-lod-count", sig, Len(o.lods) = L.nLod)
     /\ Expect(l, pfx \o "-material-names", sig, MaterialNames(b, L), o.materials)
     /\ Expect(l, pfx \o "-bone-names", sig, BoneNames(b, L), o.bones)
     /\ \A i \in 1..L.nLod :
          IF i > Len(o.lods) THEN TRUE
          ELSE LET want == PartsOf(b, L, i)
               IN /\ Require(l, pfx \o "-part-count", sig \o <<i>>, Len(o.lods[i].parts) = Len(want))
                  /\ \A p \in 1..Len(want) :
                       IF p > Len(o.lods[i].parts) THEN TRUE
                       ELSE PartMatches(o.lods[i].parts[p], want[p], sig \o <<i, p>>, pfx, TRUE)
GeomOf(b) == LET L == Layout(b) IN [i \in 1..L.nLod |-> PartsOf(b, L, i)]

Parse(e) ==
  /\ IF IsSome(e.res) THEN ModelMatches(e.res.v.v, e.bytes, Sig(e), "mdl")
     ELSE Mismatch(l, "mdl-outcome", Sig(e), "a model", e.res)
  /\ IF e.op = "mdl.open"
     THEN /\ geom' = (e.h :> GeomOf(e.bytes)) @@ geom
          /\ orig' = (e.h :> e.bytes) @@ orig
          /\ shp' = (e.h :> [known |-> FALSE, has |-> {}]) @@ shp
     ELSE UNCHANGED <<geom, orig, shp>>

\* ---- C07: what must hold of a written file ----------------------------------
Facts(W, flen, sig) ==
  LET hf == HeaderFactsLen(W, flen)
  IN /\ Require(l, "mdl-sections-disjoint", sig, hf.disjoint)
     /\ Require(l, "mdl-sections-in-bounds", sig, hf.inBounds)
     /\ Require(l, "mdl-sections-sized", sig, hf.sized)
     /\ Require(l, "mdl-index-padded16", sig, hf.padded)
     /\ Require(l, "mdl-runtime-size-covers-tables", sig, hf.runtimeCovers)
     /\ Require(l, "mdl-file-header-agrees", sig, hf.fileHeaderAgrees)
     /\ Require(l, "mdl-meshes-inside-sections", sig, hf.meshesInside)
\* the written file, decoded by the specification and by the library, carries the expected geometry
Written(e, want, sig) ==
  IF ~(IsSome(e.res.written)) THEN Mismatch(l, "mdl-write-outcome", sig, "bytes", e.res.written)
  ELSE LET W == e.res.written.v.v
           flen == e.res.written.v.len
           whole == Len(W) = flen           \* big files are logged as header part + length
           L == Layout(W)
       IN /\ Facts(W, flen, sig)
          /\ Require(l, "mdl-written-lod-count", sig, L.nLod = Len(want))
          /\ IF ~IsSome(e.res.reparsed) THEN Mismatch(l, "mdl-reparse-outcome", sig, "a model", e.res.reparsed)
             ELSE LET o == e.res.reparsed.v.v
                  IN \A i \in 1..Len(want) : \A p \in 1..Len(want[i]) :
                       IF i > Len(o.lods) \/ p > Len(o.lods[i].parts)
                       THEN Mismatch(l, "mdl-reparse-part-missing", sig \o <<i, p>>, "part", "none")
                       ELSE /\ PartMatches(o.lods[i].parts[p], IF whole THEN want[i][p] ELSE AsBig(want[i][p]),
                                           sig \o <<i, p>>, "mdl-reparse", FALSE)
                            \* and the specification's own reading of the written bytes agrees
                            /\ IF whole /\ ~IsBig(want[i][p])
                               THEN LET sp == PartOf(W, L, i, LodRec(W, L, i).mesh_index + p - 1)
                                    IN PartMatches(sp, want[i][p], sig \o <<i, p>>, "mdl-written", FALSE)
                               ELSE TRUE
Write(e) ==
  /\ Written(e, geom[e.h], Sig(e))
  \* writing an unedited model: names and header data survive too
  /\ IF IsSome(e.res.written) /\ IsSome(e.res.reparsed) /\ e.unedited
     THEN LET W == e.res.written.v.v
              O == orig[e.h]
          IN /\ Expect(l, "mdl-rewrite-material-names", Sig(e), MaterialNames(O, Layout(O)), e.res.reparsed.v.v.materials)
             /\ Expect(l, "mdl-rewrite-bone-names", Sig(e), BoneNames(O, Layout(O)), e.res.reparsed.v.v.bones)
             /\ Require(l, "mdl-rewrite-length", Sig(e), e.res.written.v.len = Len(O))
             \* byte for byte; files logged as head + length are compared over the logged head
             /\ IF Len(W) <= Len(O) /\ W # SubSeq(O, 1, Len(W))
                THEN Mismatch(l, "mdl-rewrite-bytes", Sig(e), "same bytes", Min({k \in 1..Len(W) : W[k] # O[k]}) - 1) ELSE TRUE
     ELSE TRUE
  /\ UNCHANGED <<geom, orig, shp>>
Replace(e) ==
  LET small == "vertices" \in DOMAIN e
      subsOf == [s \in 1..Len(geom[e.h][e.lod + 1][e.part + 1].subs) |->
                   IF s <= Len(e.subs) THEN e.subs[s] ELSE geom[e.h][e.lod + 1][e.part + 1].subs[s]]
      newPart == IF ~small THEN [nv |-> e.nv, vertices |-> <<>>, big |-> TRUE, indices |-> e.indices, subs |-> subsOf] ELSE
                 [nv |-> Len(e.vertices), vertices |-> e.vertices, indices |-> e.indices,
                  subs |-> [s \in 1..Len(geom[e.h][e.lod + 1][e.part + 1].subs) |->
                              IF s <= Len(e.subs) THEN e.subs[s] ELSE geom[e.h][e.lod + 1][e.part + 1].subs[s]]]
      g2 == [geom[e.h] EXCEPT ![e.lod + 1][e.part + 1] = newPart]
  IN /\ Require(l, "mdl-edit-outcome", Sig(e), IsValue(e.res.edit))
     \* a replacement of one mesh is followed by re-submissions of the following meshes of the LOD with shifted
     \* ranges; the property speaks about the state once every mesh of the LOD has been supplied consistently
     /\ IF e.settled THEN Written(e, g2, Sig(e)) ELSE TRUE
     /\ IF e.settled /\ ~small
        THEN Require(l, "mdl-reparse-echo", Sig(e), e.res.echo_same.some /\ e.res.echo_same.v) ELSE TRUE
     /\ geom' = [geom EXCEPT ![e.h] = g2] /\ UNCHANGED orig
     /\ shp' = [shp EXCEPT ![e.h].known = FALSE]         \* new geometry can leave shape values stale: nothing is claimed until the next removal
\* shape edits do not change vertices already present, indices or sub-meshes (added vertices are appended)
\* after a removal, a part reports exactly the shapes that were given values on it since (in the library's re-parse
\* and in the specification's reading of the written bytes)
NamesOf(sq) == {sq[k] : k \in 1..Len(sq)}
ShapeSetsAgree(e, has, sig) ==
  IF ~(IsSome(e.res.written) /\ IsSome(e.res.reparsed)) THEN TRUE
  ELSE LET W == e.res.written.v.v
           L == Layout(W)
           o == e.res.reparsed.v.v
       IN \A i \in 1..Len(o.lods) : \A p \in 1..Len(o.lods[i].parts) :
            LET want == {t[3] : t \in {u \in has : u[1] = i /\ u[2] = p}}
            IN /\ Expect(l, "mdl-shape-set", sig \o <<i, p>>, want, NamesOf(o.lods[i].parts[p].shapes))
               /\ IF Len(W) = e.res.written.v.len /\ i <= L.nLod
                  THEN Expect(l, "mdl-shape-set-written", sig \o <<i, p>>, want,
                              NamesOf(ShapeNames(W, L, i, MeshRec(W, L, LodRec(W, L, i).mesh_index + p - 1))))
                  ELSE TRUE
ShapeEdit(e) ==
  /\ Require(l, "mdl-edit-outcome", Sig(e), IsValue(e.res.edit))
  /\ IF e.op = "mdl.remove_shapes"
     THEN /\ Written(e, geom[e.h], Sig(e)) /\ UNCHANGED geom
          /\ shp' = [shp EXCEPT ![e.h] = [known |-> TRUE, has |-> {}]]
          /\ ShapeSetsAgree(e, {}, Sig(e))
     ELSE LET old == geom[e.h][e.lod + 1][e.part + 1]
              nw == [old EXCEPT !.nv = old.nv + Len(e.values),
                                !.vertices = old.vertices \o [k \in 1..Len(e.values) |-> e.values[k].vertex]]
              g2 == [geom[e.h] EXCEPT ![e.lod + 1][e.part + 1] = nw]
              has2 == shp[e.h].has \cup (IF Len(e.values) > 0 THEN {<<e.lod + 1, e.part + 1, e.shape_name>>} ELSE {})
          IN /\ Written(e, g2, Sig(e)) /\ geom' = [geom EXCEPT ![e.h] = g2]
             /\ shp' = [shp EXCEPT ![e.h].has = has2]
             /\ IF shp[e.h].known THEN ShapeSetsAgree(e, has2, Sig(e)) ELSE TRUE
             \* the shape now has values on this mesh: its name is reported for the part, by the library and by the
             \* specification's reading of the written bytes
             /\ IF IsSome(e.res.written) /\ IsSome(e.res.reparsed) /\ Len(e.values) > 0
                THEN LET W == e.res.written.v.v
                         L == Layout(W)
                         o == e.res.reparsed.v.v
                         has(names) == \E k \in 1..Len(names) : names[k] = e.shape_name
                     IN /\ Require(l, "mdl-shape-reported", Sig(e) \o <<e.lod + 1, e.part + 1>>,
                                   e.lod + 1 <= Len(o.lods) /\ e.part + 1 <= Len(o.lods[e.lod + 1].parts)
                                     /\ has(o.lods[e.lod + 1].parts[e.part + 1].shapes))
                        /\ IF Len(W) = e.res.written.v.len
                           THEN Require(l, "mdl-shape-written", Sig(e) \o <<e.lod + 1, e.part + 1>>,
                                        has(ShapeNames(W, L, e.lod + 1, MeshRec(W, L, LodRec(W, L, e.lod + 1).mesh_index + e.part))))
                           ELSE TRUE
                ELSE TRUE
  /\ UNCHANGED orig

Init == l = 1 /\ geom = <<>> /\ orig = <<>> /\ shp = <<>>
Next ==
  /\ l <= Len(Rec)
  /\ CASE Ev.op \in {"mdl.parse", "mdl.open"} -> Parse(Ev)
       [] Ev.op = "mdl.write" -> Write(Ev)
       [] Ev.op = "mdl.replace" -> Replace(Ev)
       [] Ev.op \in {"mdl.remove_shapes", "mdl.add_shape"} -> ShapeEdit(Ev)
       [] OTHER -> BadCase(l, "unknown event") /\ UNCHANGED <<geom, orig, shp>>
  /\ l' = l + 1
Spec == Init /\ [][Next]_vars
=============================================================================
