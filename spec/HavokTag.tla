------------------------------ MODULE HavokTag ------------------------------
(* C16: the Havok binary tag file (version 3) as a reader state machine, and  *)
(* the skeleton it carries.                                                    *)
(*                                                                             *)
(* A tag file is a stream of tagged items read left to right.  The reader      *)
(* remembers three growing tables: every string literal it has read            *)
(* (initially "string", ""), every type (initially the built-in "object") and  *)
(* every object (slot 0 is filled by the file-info item).  Later items refer   *)
(* back into the tables: a negative string length is an index into the string  *)
(* table, a type's parent and an object's type are type indices, object-valued *)
(* members are object indices resolved after the whole file is read.           *)
(*                                                                             *)
(* Reader state  st = [p, strs, types, objs, status]  ; one TagStep per item.  *)
(* Integers are "packed": bit 0 of the first byte is the sign, bits 1..6 the   *)
(* low six bits, bit 7 of every byte says another 7-bit group follows.         *)
(* Real numbers are never interpreted: they are 32-bit words <<hi16, lo16>>.   *)
EXTENDS Naturals, Integers, Sequences, FiniteSets, SequencesExt, FiniteSetsExt, Words

Idx(n) == [i \in 1..n |-> i]      \* 1, 2, .., n as a sequence (fold order is the reading order)

\* ------------------------------------------------------------------ packed integers
\* -> [v |-> value, p |-> position after]; b is 1-based, positions are 0-based offsets
PackedAt(b, p) ==
  LET b0 == b[p + 1]
      k == Min({j \in 0..5 : p + 1 + j >= Len(b) \/ b[p + 1 + j] < 128})          \* number of continuation bytes
      mag == FoldLeft(LAMBDA acc, j : IF b[p + 1 + j] % 128 = 0 THEN acc ELSE acc + (b[p + 1 + j] % 128) * Pow2(6 + 7 * (j - 1)), (b0 % 128) \div 2, Idx(k))
  IN [v |-> IF b0 % 2 = 1 THEN 0 - mag ELSE mag, p |-> p + 1 + k]

\* the minimal encoding (what a writer emits)
RECURSIVE Groups7(_)
Groups7(n) == IF n = 0 THEN << >> ELSE IF n < 128 THEN <<n>> ELSE <<128 + (n % 128)>> \o Groups7(n \div 128)
EncPacked(n) ==
  LET m == IF n < 0 THEN 0 - n ELSE n
      rest == Groups7(m \div 64)
  IN <<(IF rest = << >> THEN 0 ELSE 128) + 2 * (m % 64) + (IF n < 0 THEN 1 ELSE 0)>> \o rest
\* the same value with z redundant zero groups appended (a reader must not care)
EncPackedPadded(n, z) ==
  LET e == EncPacked(n)
  IN IF z = 0 THEN e
     ELSE [i \in 1..(Len(e) + z) |-> IF i = Len(e) THEN (e[i] % 128) + 128 ELSE IF i < Len(e) THEN e[i] ELSE IF i < Len(e) + z THEN 128 ELSE 0]

\* ------------------------------------------------------------------ value types
BaseOf(bits) == bits % 16
IsArray(bits) == (bits \div 16) % 2 = 1
IsTuple(bits) == (bits \div 32) % 2 = 1
TEmpty == 0  TByte == 1  TInt == 2  TReal == 3  TVec4 == 4  TVec8 == 5  TVec12 == 6  TVec16 == 7
TObject == 8  TStruct == 9  TString == 10
VecSize(base) == 4 * (base - 3)
IsVecBase(base) == base \in 4..7
KnownBits(bits) == bits < 64 /\ BaseOf(bits) <= 10

\* ------------------------------------------------------------------ cursor-threaded readers
\* a cursor is [p, strs]; every reader returns [c |-> cursor after, v |-> value]
Cur(p, strs) == [p |-> p, strs |-> strs]
ReadInt(b, c) == LET n == PackedAt(b, c.p) IN [c |-> Cur(n.p, c.strs), v |-> n.v]
ReadStr(b, c) ==
  LET n == PackedAt(b, c.p)
  IN IF n.v < 0 THEN [c |-> Cur(n.p, c.strs), v |-> c.strs[1 - n.v]]
     ELSE LET s == SubSeq(b, n.p + 1, n.p + n.v) IN [c |-> Cur(n.p + n.v, Append(c.strs, s)), v |-> s]
WordAt(b, p) == FromLE(b, p)

\* n values read one after another with reader R(b, c); -> [c, v |-> sequence]
ReadMany(b, c, n, R(_, _)) ==
  FoldLeft(LAMBDA acc, i : LET r == R(b, acc.c) IN [c |-> r.c, v |-> Append(acc.v, r.v)], [c |-> c, v |-> << >>], Idx(n))

VInt(n) == [k |-> "i", v |-> n]
VReal(w) == [k |-> "r", v |-> w]
VStr(s) == [k |-> "s", v |-> s]
VVec(ws) == [k |-> "v", v |-> ws]
VRef(i) == [k |-> "o", v |-> i]
VArr(xs) == [k |-> "a", v |-> xs]
VStruct(t, ms) == [k |-> "x", t |-> t, m |-> ms]
VAbsent == [k |-> "absent"]
VUndef == [k |-> "undef"]        \* the library defines no value here (outside the decided family)

RByte(b, c) == [c |-> Cur(c.p + 1, c.strs), v |-> VInt(b[c.p + 1])]
RInt(b, c) == LET r == ReadInt(b, c) IN [c |-> r.c, v |-> VInt(r.v)]
RReal(b, c) == [c |-> Cur(c.p + 4, c.strs), v |-> VReal(WordAt(b, c.p))]
RStr(b, c) == LET r == ReadStr(b, c) IN [c |-> r.c, v |-> VStr(r.v)]
RRef(b, c) == LET r == ReadInt(b, c) IN [c |-> r.c, v |-> VRef(r.v)]
RVecN(b, c, n) == [c |-> Cur(c.p + 4 * n, c.strs), v |-> VVec([i \in 1..n |-> WordAt(b, c.p + 4 * (i - 1))])]
RVec4(b, c) == RVecN(b, c, 4)
RVec8(b, c) == RVecN(b, c, 8)
RVec12(b, c) == RVecN(b, c, 12)
RVec16(b, c) == RVecN(b, c, 16)

\* an array of n scalars of one base type (no nested structures)
ReadFlatArray(b, c, base, n) ==
  CASE base = TString -> ReadMany(b, c, n, RStr)
    [] base = TObject -> ReadMany(b, c, n, RRef)
    [] base = TByte -> ReadMany(b, c, n, RByte)
    [] base = TInt -> LET skip == ReadInt(b, c) IN ReadMany(b, skip.c, n, RInt)      \* version 3 writes an element-width hint first
    [] base = TReal -> ReadMany(b, c, n, RReal)
    [] base = TVec4 -> ReadMany(b, c, n, RVec4)
    [] base = TVec8 -> ReadMany(b, c, n, RVec8)
    [] base = TVec12 -> ReadMany(b, c, n, RVec12)
    [] base = TVec16 -> ReadMany(b, c, n, RVec16)
    [] OTHER -> [c |-> c, v |-> << >>, bad |-> TRUE]

\* bit field over n members, least significant bit first; -> [p, v |-> sequence of booleans]
BitField(b, p, n) ==
  [p |-> p + (n + 7) \div 8, v |-> [i \in 1..n |-> (b[p + 1 + (i - 1) \div 8] \div Pow2((i - 1) % 8)) % 2 = 1]]

\* flattened member list of type index t (parents first); types are stored with it
Flat(types, t) == types[t + 1].flat
TypeNamed(types, name) == Min({i \in 0..(Len(types) - 1) : types[i + 1].name = name})
HasTypeNamed(types, name) == \E i \in 1..Len(types) : types[i].name = name

\* an array of n structures is stored column by column: one presence bit field for
\* the structure's members, then for every present member all n values
ReadStructArray(b, c, types, cls, n) ==
  LET t == TypeNamed(types, cls)
      ms == Flat(types, t)
      bf == BitField(b, c.p, Len(ms))
      cols == FoldLeft(LAMBDA acc, i :
                         IF ~bf.v[i] THEN [c |-> acc.c, v |-> Append(acc.v, << >>), bad |-> acc.bad]
                         ELSE IF IsTuple(ms[i].bits) \/ BaseOf(ms[i].bits) \in {TStruct, TEmpty}
                              THEN [c |-> acc.c, v |-> Append(acc.v, << >>), bad |-> TRUE]
                              ELSE LET r == ReadFlatArray(b, acc.c, BaseOf(ms[i].bits), n)
                                   IN [c |-> r.c, v |-> Append(acc.v, r.v), bad |-> acc.bad],
                       [c |-> Cur(bf.p, c.strs), v |-> << >>, bad |-> FALSE], Idx(Len(ms)))
  IN [c |-> cols.c, bad |-> cols.bad,
      v |-> [j \in 1..n |-> VStruct(t, [i \in 1..Len(ms) |-> IF bf.v[i] /\ ~cols.bad THEN cols.v[i][j] ELSE VAbsent])]]

Good(r) == [c |-> r.c, v |-> r.v, bad |-> FALSE]
\* one present member of a top-level object
ReadMember(b, c, types, m) ==
  IF IsArray(m.bits)
  THEN LET n == ReadInt(b, c)
       IN IF BaseOf(m.bits) = TStruct
          THEN IF ~HasTypeNamed(types, m.cls) THEN [c |-> c, v |-> VUndef, bad |-> TRUE]
               ELSE LET r == ReadStructArray(b, n.c, types, m.cls, n.v) IN [c |-> r.c, v |-> VArr(r.v), bad |-> r.bad]
          ELSE LET r == ReadFlatArray(b, n.c, BaseOf(m.bits), n.v) IN [c |-> r.c, v |-> VArr(r.v), bad |-> BaseOf(m.bits) = TEmpty]
  ELSE CASE m.bits = TByte -> Good(RByte(b, c))
         [] m.bits = TInt -> Good(RInt(b, c))
         [] m.bits = TReal -> Good(RReal(b, c))
         [] m.bits = TString -> Good(RStr(b, c))
         [] m.bits = TObject -> Good(RRef(b, c))
         [] OTHER -> [c |-> c, v |-> VUndef, bad |-> TRUE]          \* in-line vectors, structures and tuples: not read by the library

\* value of a member the presence bits leave out
DefaultOf(bits) ==
  IF IsArray(bits) \/ IsTuple(bits) THEN VArr(<< >>)
  ELSE IF IsVecBase(bits) THEN VVec([i \in 1..VecSize(bits) |-> Zero32])
  ELSE IF bits \in {TEmpty, TByte, TInt} THEN VInt(0)
  ELSE IF bits = TReal THEN VReal(Zero32)
  ELSE IF bits = TString THEN VStr(<< >>)
  ELSE IF bits = TObject THEN VRef(0)
  ELSE VUndef          \* an in-line structure has no default

ReadObject(b, c, types) ==
  LET ti == ReadInt(b, c)
      ms == Flat(types, ti.v)
      bf == BitField(b, ti.c.p, Len(ms))
      vals == FoldLeft(LAMBDA acc, i :
                         IF ~bf.v[i] THEN [c |-> acc.c, v |-> Append(acc.v, DefaultOf(ms[i].bits)), bad |-> acc.bad]
                         ELSE LET r == ReadMember(b, acc.c, types, ms[i]) IN [c |-> r.c, v |-> Append(acc.v, r.v), bad |-> acc.bad \/ r.bad],
                       [c |-> Cur(bf.p, c.strs), v |-> << >>, bad |-> FALSE], Idx(Len(ms)))
  IN [c |-> vals.c, bad |-> vals.bad, v |-> [t |-> ti.v, m |-> vals.v]]

ReadTypeMember(b, c) ==
  LET nm == ReadStr(b, c)
      bits == ReadInt(b, nm.c)
      tup == IF IsTuple(bits.v) THEN ReadInt(b, bits.c) ELSE [c |-> bits.c, v |-> 0]
      cls == IF BaseOf(bits.v) \in {TObject, TStruct} THEN ReadStr(b, tup.c) ELSE [c |-> tup.c, v |-> << >>]
  IN [c |-> cls.c, v |-> [name |-> nm.v, bits |-> bits.v, tuple |-> tup.v, cls |-> cls.v]]

ReadType(b, c, types) ==
  LET nm == ReadStr(b, c)
      ver == ReadInt(b, nm.c)
      par == ReadInt(b, ver.c)
      cnt == ReadInt(b, par.c)
      ms == ReadMany(b, cnt.c, cnt.v, ReadTypeMember)
  IN [c |-> ms.c, v |-> [name |-> nm.v, parent |-> par.v, own |-> ms.v, flat |-> Flat(types, par.v) \o ms.v]]

\* ------------------------------------------------------------------ the reader state machine
StrOfAscii == [string |-> <<115, 116, 114, 105, 110, 103>>, object |-> <<111, 98, 106, 101, 99, 116>>]
Magic == <<30, 13, 176, 202, 206, 250, 17, 208>>      \* CAB00D1E D011FACE, little endian
TagInit(b) ==
  [p |-> 8, strs |-> <<StrOfAscii.string, << >> >>,
   types |-> <<[name |-> StrOfAscii.object, parent |-> 0, own |-> << >>, flat |-> << >>]>>,
   objs |-> << >>, status |-> IF Len(b) >= 8 /\ SubSeq(b, 1, 8) = Magic THEN "run" ELSE "bad"]

TagStep(b, st) ==
  IF st.status # "run" THEN st
  ELSE IF st.p >= Len(b) THEN [st EXCEPT !.status = "bad"]
  ELSE LET tag == PackedAt(b, st.p)
           c == Cur(tag.p, st.strs)
       IN CASE tag.v = 1 ->      \* file info: the version, and object slot 0
                 LET v == ReadInt(b, c)
                 IN [st EXCEPT !.p = v.c.p, !.objs = Append(@, [t |-> 0, m |-> << >>]), !.status = IF v.v = 3 THEN "run" ELSE "bad"]
            [] tag.v = 2 ->      \* type
                 LET t == ReadType(b, c, st.types)
                 IN [st EXCEPT !.p = t.c.p, !.strs = t.c.strs, !.types = Append(@, t.v)]
            [] tag.v = 4 ->      \* remembered object
                 LET o == ReadObject(b, c, st.types)
                 IN [st EXCEPT !.p = o.c.p, !.strs = o.c.strs, !.objs = Append(@, o.v), !.status = IF o.bad THEN "bad" ELSE "run"]
            [] tag.v = 7 -> [st EXCEPT !.p = tag.p, !.status = "end"]
            [] OTHER -> [st EXCEPT !.status = "bad"]

\* items are at least one byte long, so Len(b) steps always reach the end
TagRun(b) == FoldLeft(LAMBDA st, i : TagStep(b, st), TagInit(b), Idx(Len(b)))

\* ------------------------------------------------------------------ what a skeleton file means
Ascii(s) == s
MemberIndex(types, obj, name) == Min({i \in 1..Len(Flat(types, obj.t)) : Flat(types, obj.t)[i].name = name})
HasMember(types, obj, name) == \E i \in 1..Len(Flat(types, obj.t)) : Flat(types, obj.t)[i].name = name
Get(types, obj, name) == obj.m[MemberIndex(types, obj, name)]

\* byte strings of the member and class names the extraction looks up (ASCII)
N_namedVariants == <<110, 97, 109, 101, 100, 86, 97, 114, 105, 97, 110, 116, 115>>
N_className == <<99, 108, 97, 115, 115, 78, 97, 109, 101>>
N_variant == <<118, 97, 114, 105, 97, 110, 116>>
N_skeletons == <<115, 107, 101, 108, 101, 116, 111, 110, 115>>
N_bones == <<98, 111, 110, 101, 115>>
N_name == <<110, 97, 109, 101>>
N_parentIndices == <<112, 97, 114, 101, 110, 116, 73, 110, 100, 105, 99, 101, 115>>
N_referencePose == <<114, 101, 102, 101, 114, 101, 110, 99, 101, 80, 111, 115, 101>>
N_hkaAnimationContainer == <<104, 107, 97, 65, 110, 105, 109, 97, 116, 105, 111, 110, 67, 111, 110, 116, 97, 105, 110, 101, 114>>

\* i32 view of a packed integer that the library squeezes through usize
Bone(name, parent, pose) == [name |-> name, parent |-> parent, pos |-> SubSeq(pose, 1, 3), rot |-> SubSeq(pose, 5, 8), scale |-> SubSeq(pose, 9, 11)]

\* the first skeleton of the animation container named by the root object's variants
SkeletonOf(st) ==
  LET root == st.objs[2]
      variants == Get(st.types, root, N_namedVariants).v
      hit == Min({i \in 1..Len(variants) : Get(st.types, variants[i], N_className).v = N_hkaAnimationContainer})
      cont == st.objs[Get(st.types, variants[hit], N_variant).v + 1]
      sk == st.objs[Get(st.types, cont, N_skeletons).v[1].v + 1]
      bones == Get(st.types, sk, N_bones).v
      parents == Get(st.types, sk, N_parentIndices).v
      pose == Get(st.types, sk, N_referencePose).v
  IN [i \in 1..Len(bones) |-> Bone(Get(st.types, bones[i], N_name).v, parents[i].v, pose[i].v)]

\* ------------------------------------------------------------------ the container around it
\* "blks" magic, version word, then a header whose layout (and so the position of the payload offset) depends on the version
SklbMagic == <<98, 108, 107, 115>>
SklbVersion(b) == FromLE(b, 4)
SklbV1 == <<12594, 12336>>          \* 0x31323030
SklbV2 == <<12595, 12336>>          \* 0x31333030
SklbV3 == <<12595, 12337>>          \* 0x31333031
SklbPayloadOffset(b) ==
  IF SklbVersion(b) = SklbV1 THEN U16LE(b, 10)
  ELSE U16LE(b, 12) + 65536 * U16LE(b, 14)
SklbOk(b) == Len(b) >= 36 /\ SubSeq(b, 1, 4) = SklbMagic /\ SklbVersion(b) \in {SklbV1, SklbV2, SklbV3} /\ SklbPayloadOffset(b) <= Len(b)
SklbPayload(b) == SubSeq(b, SklbPayloadOffset(b) + 1, Len(b))
Skeleton(b) == SkeletonOf(TagRun(SklbPayload(b)))

\* ------------------------------------------------------------------ a writer (for the codec laws of the model)
\* writer state w = [strs, out, z]: the string table, the bytes so far, and how many redundant zero groups every integer carries
WInit(z) == [strs |-> <<StrOfAscii.string, << >> >>, out |-> Magic, z |-> z]
EncInt(w, n) == [w EXCEPT !.out = @ \o EncPackedPadded(n, w.z)]
EncRaw(w, bs) == [w EXCEPT !.out = @ \o bs]
EncStr(w, s) ==
  LET known == {i \in 2..Len(w.strs) : w.strs[i] = s}       \* index 0 ("string") cannot be referenced: -0 = 0
  IN IF known # {} THEN EncInt(w, 0 - (Min(known) - 1))
     ELSE [EncRaw(EncInt(w, Len(s)), s) EXCEPT !.strs = Append(@, s)]
EncStrs(w, ss) == FoldLeft(EncStr, w, ss)
EncInts(w, ns) == FoldLeft(EncInt, w, ns)
EncBits(flags) ==
  [k \in 1..((Len(flags) + 7) \div 8) |->
     FoldLeft(LAMBDA acc, i : acc + (IF (i - 1) \div 8 = k - 1 /\ flags[i] THEN Pow2((i - 1) % 8) ELSE 0), 0, Idx(Len(flags)))]
EncMemberDecl(w, m) ==
  LET a == EncInt(EncStr(w, m.name), m.bits)
      t == IF IsTuple(m.bits) THEN EncInt(a, m.tuple) ELSE a
  IN IF BaseOf(m.bits) \in {TObject, TStruct} THEN EncStr(t, m.cls) ELSE t
EncType(w, name, parent, members) ==
  FoldLeft(EncMemberDecl, EncInt(EncInt(EncInt(EncStr(EncInt(w, 2), name), 0), parent), Len(members)), members)
=============================================================================
