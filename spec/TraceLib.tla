------------------------------ MODULE TraceLib ------------------------------
(* Shared plumbing of all trace specifications.                              *)
(* The trace is an NDJSON file named by the environment variable TRACE; one  *)
(* line per call executed against the real library by the shim.              *)
(* A trace action never blocks on a wrong answer: it prints one MISMATCH line *)
(* and moves on, so one TLC run reports every disagreement; acceptance       *)
(* (every line was examined) is the POSTCONDITION on the diameter.           *)
EXTENDS TLC, Naturals, Sequences, Json, IOUtils

Rec == ndJsonDeserialize(IOEnv.TRACE)

Mismatch(l, kind, sig, exp, obs) ==
  PrintT("MISMATCH;;;" \o ToString(l) \o ";;;" \o kind \o ";;;" \o ToString(sig) \o ";;;"
         \o ToString(exp) \o ";;;" \o ToString(obs))
\* expected value equals observed value, or report and carry on
\* (IF, never a disjunction: inside an action TLC would explore both disjuncts)
Expect(l, kind, sig, exp, obs) == IF exp = obs THEN TRUE ELSE Mismatch(l, kind, sig, exp, obs)
Require(l, kind, sig, cond) == IF cond THEN TRUE ELSE Mismatch(l, kind, sig, "holds", "fails")
\* implementation-shaped refinement disagrees although the property holds
Drift(l, kind, sig, exp, obs) ==
  IF exp = obs THEN TRUE
  ELSE PrintT("DRIFT;;;" \o ToString(l) \o ";;;" \o kind \o ";;;" \o ToString(sig) \o ";;;"
              \o ToString(exp) \o ";;;" \o ToString(obs))
\* generator and specification disagree with each other: tool error, not a verdict
BadCase(l, why) == PrintT("BADCASE;;;" \o ToString(l) \o ";;;" \o why)
\* branch tag for coverage accounting
Tag(l, t) == PrintT("TAG;;;" \o ToString(l) \o ";;;" \o t)

IsValue(res) == res.outcome = "value"
IsSome(res)  == res.outcome = "value" /\ res.v.some

TraceAccepted ==
  IF TLCGet("stats").diameter - 1 = Len(Rec) THEN TRUE
  ELSE PrintT("REJECTED;;;" \o ToString(TLCGet("stats").diameter - 1) \o ";;;" \o ToString(Len(Rec)))
       /\ FALSE
=============================================================================
